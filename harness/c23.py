"""C23 — live channel ids are unique within a transport and fit in 24 bits.

Proof: coq/Props/C23_props.v over coq/Model/C23.v; the mask and the shape of _next_channel and
of the lock structure around it come from the source (gen/c23.py -> Gen/C23_gen.v, fail closed).
Tie: the model's own definitions (vm_compute inside Coq) against a real, never started
paramiko Transport: _next_channel / _channels driven directly for local opens and closes, the
real _parse_channel_open for peer opens (a stub server's check_channel_request runs the ops that
fall between the reservation and the registration), counter started near 2^24, live ids
pre-placed around the wrap-around point.
Oracle: every id handed out is < 2^24, is not in the live map nor pending, and is the first
free id at or after the counter (independent reference); a registration never lands on a live id.
"""
import threading

from common import coq

PID = "C23"
LEVEL_TEXT = ("Machine-checked proof (Coq, closed under the global context) over an executable model of "
              "Transport._next_channel, ChannelMap and the critical sections of open_channel / _parse_channel_open, "
              "with the number of id bits as a parameter (paramiko: 24, mask extracted from the source): ids and "
              "counter stay below 2^bits, an id handed out is never live, the search loop terminates while fewer "
              "than 2^bits channels are live (and provably never ends when all are), local histories keep live ids "
              "distinct unconditionally, and all histories (peer reservations with a pending window included) keep "
              "live and pending ids pairwise distinct, and only a close/unlink of that channel or an OPEN_FAILURE "
              "for a still-opening local channel ever removes a live entry, provided the counter travels fewer than 2^bits steps between "
              "a reservation and its registration — a hypothesis shown necessary by a small-modulus witness; the "
              "model is tied to transport.py by a source translator and a differential run of the model's own "
              "definitions (vm_compute) against a real Transport every run.")
LEVEL_NOTE = ("Trusted: Coq kernel + vm_compute; gen/c23.py (AST shape check, fail closed); hand-written model "
              "coq/Model/C23.v validated by the correspondence run; atomicity of the sections guarded by "
              "Transport.lock (checked structurally by the translator, not proved); the weak-value map is modelled "
              "as a plain map (the harness keeps channel objects alive); the two-thread schedules (local open "
              "placed inside the peer open's reservation) and the open-channel-still-in-map oracle run on the real "
              "code only.  Residual assumption: the counter travels "
              "fewer than 2^24 steps while a peer-opened channel is pending (C23_window_witness shows what happens "
              "otherwise).")
TECHNIQUE = "Coq proof (invariant over histories, pigeonhole for termination) + source translator + vm_compute differential correspondence"

M24 = 1 << 24


class Stub:
    """Stands in for a Channel in the live map (weak-referenceable; the harness holds it)."""


class Driver:
    def __init__(self, c0, live0):
        from paramiko.transport import Transport
        from _loop import LoopSocket
        self.t = Transport(LoopSocket())
        self.t._channel_counter = c0
        self.c0 = c0
        self.rid_n = 0
        self.keep = {}
        self.order = []            # the model's live list (newest first)
        self.pending = []
        self.outs = []
        self.problems = []         # (key, what, detail)
        self.sent = []
        self.t._send_message = lambda m: self.sent.append(m.asbytes()[:1])
        import logging
        logging.getLogger("paramiko").setLevel(logging.CRITICAL + 1)   # stray-message warnings are expected
        self.t.clear_to_send.set()     # never started: _send_user_message then drops at once instead of waiting
        self.opening = []              # the model's `opening` list = keys of channel_events
        self.open_objs = {}            # id -> channel object of every channel that is open (not closed / failed)
        self.dropped = set()
        for x in reversed(live0):
            self._put(x, self._new_chan(x, True))
        self.t.server_object = self
        self.t.server_mode = True
        self.inner = None
        self.accept = True
        self.reserved = None

    # -- helpers -------------------------------------------------------------------------
    def remote_id(self):
        """The peer numbers its channels independently: hand out remote ids that differ from the local id and
        often equal ANOTHER live channel's local id (deterministic: cycles through the live ids)."""
        self.rid_n += 1
        live = sorted(self.open_objs)
        if live and self.rid_n % 4 != 0:
            return live[self.rid_n % len(live)]
        return (self.c0 + 3 * self.rid_n) % M24

    def _new_chan(self, cid, established=False):
        from paramiko.channel import Channel
        ch = Channel(cid)
        ch._set_transport(self.t)
        if established:                 # pre-placed channels (the state after a wrap-around) are established
            ch._set_remote_channel(self.remote_id(), 1 << 20, 1 << 15)
        return ch

    def _put(self, x, obj):
        self.t._channels.put(x, obj)
        self.keep[x] = obj
        self.order.insert(0, x)
        self.open_objs[x] = obj

    def check_open(self, where):
        """every channel that was opened and not closed is still in the map, under its id, as itself"""
        for x, obj in list(self.open_objs.items()):
            if x not in self.dropped and self.t._channels.get(x) is not obj:
                self.dropped.add(x)
                self.problems.append(("open-channel-dropped", "a channel that is still open is no longer in the "
                                      "live map under its id (its id can now be handed out again)",
                                      {"id": x, "after": where}))

    def _check_alloc(self, before_counter, live_before, cid, where):
        if not (0 <= cid < M24):
            self.problems.append(("id-out-of-range", "channel id does not fit in 24 bits", {"id": cid, "at": where}))
        if cid in live_before:
            self.problems.append(("id-already-live", "_next_channel handed out an id that is in the live map",
                                  {"id": cid, "at": where}))
        if cid in self.open_objs:
            self.problems.append(("id-of-open-channel-reassigned", "_next_channel handed out the id of a channel "
                                  "that is still open", {"id": cid, "at": where}))
        if cid in self.pending:
            self.problems.append(("id-pending", "_next_channel handed out an id that is reserved for a peer-opened "
                                  "channel", {"id": cid, "at": where}))
        # independent reference: first id at or after the counter (mod 2^24) that is not live
        want = None
        for d in range(len(live_before) + 1):
            y = (before_counter + d) % M24
            if y not in live_before:
                want = y
                break
        if cid != want:
            self.problems.append(("not-first-free", "_next_channel did not return the first free id at or after the "
                                  "counter (mod 2^24)", {"id": cid, "expected": want, "counter": before_counter,
                                                         "at": where}))
        if self.t._channel_counter != (cid + 1) % M24:
            self.problems.append(("counter-not-advanced", "counter after _next_channel is not id + 1 (mod 2^24)",
                                  {"id": cid, "counter": self.t._channel_counter, "at": where}))

    def live_keys(self):
        return set(c for c in self.keep if self.t._channels.get(c) is not None)

    # -- ops -----------------------------------------------------------------------------
    def local_open(self, where):
        # the critical section of Transport.open_channel (transport.py: lock; _next_channel; put)
        t = self.t
        t.lock.acquire()
        try:
            before, live_before = t._channel_counter, self.live_keys()
            cid = t._next_channel()
            self._check_alloc(before, live_before, cid, where)
            self._put(cid, self._new_chan(cid))
            t.channel_events[cid] = threading.Event()      # open_channel, same section
            t.channels_seen[cid] = True
        finally:
            t.lock.release()
        self.opening.insert(0, cid)
        self.outs.append(cid)

    def close(self, x, how=0):
        """Close channel x the way the library does it: the Channel removes ITSELF from the transport's map
        (peer CHANNEL_CLOSE -> Channel._handle_close, transport loss -> Channel._unlink).  For an id with no channel
        there is nothing to drive (the model's Close of a non-live id is a no-op)."""
        obj = self.keep.get(x)
        if obj is not None:
            try:
                if how == 2 and not obj.closed:
                    obj._unlink()                      # transport loss
                else:
                    obj._handle_close(None)            # peer CHANNEL_CLOSE
            except Exception as e:  # noqa
                self.problems.append(("close-raised", "closing a channel raised", {"id": x, "exc": repr(e)}))
            if self.t._channels.get(x) is obj:
                self.problems.append(("closed-channel-still-in-map", "a closed channel was not removed from the "
                                      "live map under its own (local) id",
                                      {"id": x, "remote_id": getattr(obj, "remote_chanid", None)}))
                self.t._channels.delete(x)             # keep the run going on the model's track
        self.keep.pop(x, None)
        self.open_objs.pop(x, None)
        self.order = [y for y in self.order if y != x]
        self.outs.append(-1)

    def local_close(self, x):
        """The application closes channel x (Channel.close(): our EOF + CLOSE go out, the channel is marked closed).
        Until the peer's CLOSE arrives the channel stays registered and owns its id: the model's state does not
        change, so this op has no model counterpart."""
        obj = self.keep.get(x)
        if obj is not None:
            try:
                obj.close()
            except Exception as e:  # noqa
                self.problems.append(("close-raised", "Channel.close() raised", {"id": x, "exc": repr(e)}))

    def open_success(self, x):
        from paramiko.message import Message
        m = Message()
        for v in (x, self.remote_id(), 1 << 20, 1 << 15):
            m.add_int(v)
        m.rewind()
        was_live = self.t._channels.get(x) is not None
        self.t._parse_channel_open_success(m)
        if was_live:
            self.opening = [y for y in self.opening if y != x]
        self.outs.append(-1)

    def open_failure(self, x):
        from paramiko.message import Message
        m = Message()
        m.add_int(x)
        m.add_int(1)
        m.add_string("no")
        m.add_string("en")
        m.rewind()
        self.t._parse_channel_open_failure(m)
        if x in self.opening:
            # the open failed: that channel is not open any more
            self.opening = [y for y in self.opening if y != x]
            self.keep.pop(x, None)
            self.open_objs.pop(x, None)
            self.order = [y for y in self.order if y != x]
        self.outs.append(-1)

    def peer_open(self, accept, inner, where):
        """The real _parse_channel_open; `inner` runs between its two critical sections."""
        from paramiko.message import Message
        m = Message()
        m.add_string("session")
        m.add_int(self.remote_id())
        m.add_int(1 << 20)
        m.add_int(1 << 15)
        m.rewind()
        self.accept, self.inner, self.where = accept, inner, where
        self.before = (self.t._channel_counter, self.live_keys())
        self.reserved = None
        self.t._parse_channel_open(m)
        p = self.reserved
        if p is None:
            self.problems.append(("no-callback", "check_channel_request was not called", {"at": where}))
            return
        self.pending.remove(p)
        if accept:
            if p in self.collide_at_register:
                self.problems.append(("peer-id-collides", "a peer-opened channel was registered under an id that "
                                      "is live", {"id": p, "at": where}))
            ch = self.t._channels.get(p)
            if ch is None or ch.chanid != p:
                self.problems.append(("peer-not-registered", "peer-opened channel is not in the map under its id",
                                      {"id": p, "at": where}))
            self.keep[p] = ch
            self.order.insert(0, p)
            if ch is not None:
                self.open_objs[p] = ch
        self.outs.append(-1)

    # ServerInterface stand-in ------------------------------------------------------------
    def check_channel_request(self, kind, chanid):
        from paramiko.common import OPEN_SUCCEEDED, OPEN_FAILED_ADMINISTRATIVELY_PROHIBITED
        self.reserved = chanid
        if self.before is not None:
            before, live_before = self.before
            self._check_alloc(before, live_before, chanid, self.where)
        self.pending.append(chanid)
        self.outs.append(chanid)
        if self.t.lock.locked():
            self.problems.append(("callback-under-lock", "check_channel_request is called with Transport.lock held",
                                  {"at": self.where}))
        for k, op in enumerate(self.inner):
            self.apply(op, "%s/inner%d" % (self.where, k))
        if getattr(self, "inner_fn", None) is not None:
            self.inner_fn()
        self.collide_at_register = self.live_keys()
        return OPEN_SUCCEEDED if self.accept else OPEN_FAILED_ADMINISTRATIVELY_PROHIBITED

    def get_allowed_auths(self, username):
        return "none"

    def apply(self, op, where):
        if op[0] == "local":
            self.local_open(where)
        elif op[0] == "close":
            self.close(op[1], op[2] if len(op) > 2 else 0)
        elif op[0] == "lclose":
            self.local_close(op[1])
        elif op[0] == "success":
            self.open_success(op[1])
        elif op[0] == "failure":
            self.open_failure(op[1])
        elif op[0] == "peer":
            self.peer_open(op[1], op[2], where)
        self.check_open("%s %s" % (where, list(op[:2])))

    def finish(self):
        keys = self.live_keys()
        if keys != set(self.order) or len(self.order) != len(set(self.order)):
            self.problems.append(("map-inconsistent", "live map differs from the ids opened and not closed",
                                  {"map": sorted(keys), "expected": sorted(self.order)}))
        if set(self.t.channel_events.keys()) != set(self.opening):
            self.problems.append(("events-inconsistent", "channel_events keys differ from the local opens still "
                                  "waiting for a reply", {"events": sorted(self.t.channel_events.keys()),
                                                          "expected": sorted(set(self.opening))}))
        # cleanup only: keep Channel.__del__ -> close() from waiting on the never-started transport
        for ch in list(self.t.server_accepts) + list(self.keep.values()):
            if hasattr(ch, "closed"):
                ch.closed = True
        self.t.server_accepts = []


def gen_history(rng):
    mode = rng.randrange(4)
    if mode == 0:
        c0 = rng.choice([0, 1, 5, rng.randrange(M24)])
    else:
        c0 = rng.choice([M24 - 1, M24 - 2, 0xFFFFF0, M24 - rng.randrange(1, 12)])
    # ids already live around the counter / across the wrap-around point (as after a wrap)
    live0 = []
    if mode >= 2:
        for d in range(0, rng.choice([3, 6, 10, 20])):
            if rng.random() < 0.65:
                live0.append((c0 + d) % M24)
        if rng.random() < 0.3:
            live0.append(rng.randrange(M24))
    live0 = list(dict.fromkeys(live0))
    ops = []
    n = rng.randrange(1, 26)
    live_guess = list(live0)

    def gen_op(depth):
        r = rng.random()
        if r < 0.45:
            return ("local",)
        if r < 0.70 and depth == 0:
            inner = [gen_op(1) for _ in range(rng.choice([0, 0, 1, 2, 4]))]
            return ("peer", rng.random() < 0.8, inner)
        pick = rng.choice([(c0 + rng.randrange(0, 30)) % M24, (c0 + rng.randrange(0, 6)) % M24,
                           (c0 + rng.randrange(0, 6)) % M24, rng.randrange(M24)])
        if 0.70 <= r < 0.76 or (depth == 1 and r < 0.52):
            # the application closes a channel; the peer's CLOSE is still outstanding
            return ("lclose", pick)
        if r < 0.84:
            # close an id likely to be live (near c0) or a random one: _unlink_channel / peer CLOSE / loss
            return ("close", pick, rng.choice([0, 1, 1, 2]))
        if r < 0.90:
            # the peer's reply to a local open -- or a stray one naming an established / unknown channel
            return ("success", pick)
        if r < 0.97:
            return ("failure", pick)
        return ("local",)

    for _ in range(n):
        ops.append(gen_op(0))
    return c0, live0, ops


MODEL_OP = {"local": "LocalOpen", "close": "Close", "success": "OpenSuccess", "failure": "OpenFailure"}


def model_op(op):
    return (MODEL_OP[op[0]],) if op[0] == "local" else (MODEL_OP[op[0]], op[1])


def run_history(c0, live0, ops):
    d = Driver(c0, live0)
    flat = []          # model ops, flattened, with the real reserved ids
    for k, op in enumerate(ops):
        d.apply(op, "op%d" % k)
        if op[0] == "peer":
            flat.append(("PeerReserve",))
            flat += [model_op(iop) for iop in op[2] if iop[0] != "lclose"]
            flat.append(("PeerRegister", d.reserved) if op[1] else ("PeerReject", d.reserved))
        elif op[0] != "lclose":
            flat.append(model_op(op))
    d.finish()
    # order of outs: the driver appends the reserve's id, then inner outs, then -1 for the register/reject
    exp = [0, d.t._channel_counter, len(d.outs)] + d.outs + [-2] + d.order + [-3] + d.opening
    return d, flat, exp


def report(ctx, d, case):
    for key, what, detail in d.problems[:3]:
        c = dict(case)
        c["detail"] = detail
        ctx.fail(key, what, case=c, observed=detail)


def run(ctx):
    rng = ctx.rng
    scale = 8 if ctx.thorough else 1
    ctx.rule = ("seeded generator (random.Random('C23-<seed>')): counter started at 0 / random / within 16 of 2^24, "
                "up to 20 ids pre-placed in the live map around the counter and across the wrap-around point, then "
                "1..25 ops: local open (open_channel's critical section), peer open through the real "
                "_parse_channel_open (accepted or rejected, with 0..4 local opens / closes inside the server "
                "callback, i.e. inside the pending window), close of a probably-live or random id through the channel's "
                "own _handle_close / _unlink (remote ids differ from local ids and often equal another live channel's "
                "local id), OPEN_SUCCESS / OPEN_FAILURE naming opening, established and unknown ids; two-thread "
                "schedules pausing one open inside _next_channel and running the other if Transport.lock is free, for "
                "peer/local, local/local and local/peer with the real open_channel and _parse_channel_open; "
                "Channel.close() by the application (the channel stays registered until the peer's CLOSE and keeps "
                "its id); open_channel(timeout=...) running out next to a pending peer open; a case is "
                "non-trivial when it allocates at least two ids")
    ctx.trusted += ["model coq/Model/C23.v is hand-written; tied to paramiko/transport.py (_next_channel, ChannelMap, "
                    "_unlink_channel, _parse_channel_open; open_channel's critical section is replayed by the "
                    "harness as lock / _next_channel / put) by this differential run and by gen/c23.py",
                    "the Transport is never started (no thread, no network); _send_message is replaced on the "
                    "instance to record replies"]
    ctx.assumptions += ["C23_unique: fewer than 2^24 counter steps (allocations + skipped live ids) between a peer "
                        "open's reservation and its registration — i.e. inside one check_channel_request callback",
                        "_next_channel terminates only while fewer than 2^24 channels are live "
                        "(C23_full_map_diverges otherwise)"]
    ctx.prove()

    # deterministic two-thread schedules: a local open placed inside the peer open's reservation
    for c0, live0 in [(M24 - 1, []), (0, []), (0xFFFFF0, []), (M24 - 2, [M24 - 2, M24 - 1, 0]),
                      (5, [5, 6]), (rng.randrange(M24), [])]:
        for pause_at in range(1, len(live0) + 2):
            for first, second in (("peer", "local"), ("local", "local"), ("local", "peer")):
                check_race(ctx, c0, live0, pause_at, first, second)

    abandon_runs(ctx)

    cases = []
    for _ in range(300 * scale):
        c0, live0, ops = gen_history(rng)
        d, flat, exp = run_history(c0, live0, ops)
        case = {"c0": c0, "live0": live0, "ops": ops}
        report(ctx, d, case)
        nalloc = sum(1 for o in d.outs if o >= 0)
        ctx.count(repr(case), nontrivial=nalloc >= 2,
                  kind="wrap" if c0 >= M24 - 16 else "plain")
        if any(o[0] == "peer" for o in ops):
            ctx.dist["with-peer-open"] = ctx.dist.get("with-peer-open", 0) + 1
        cases.append((case, flat, exp))
    try:
        bad = ctx.model_mismatches(
            "run_history", "(Z * list Z * list op)",
            [(coq((c["c0"], c["live0"], [tuple(o) for o in flat])), exp) for c, flat, exp in cases])
    except RuntimeError as e:       # e.g. the translator failed closed and Gen/C23_gen.v is missing
        bad = []
        ctx.disagree("the model could not be evaluated: %s" % str(e)[:300])
    for i in bad[:3]:
        ctx.disagree("id allocation differs from the model", case=cases[i][0], impl=cases[i][2])
    for c, flat, exp in cases:
        if c["c0"] >= M24 - 16 and len(flat) > 6 and any(o[0] == "peer" for o in c["ops"]):
            ctx.sample({"history": {"case": c, "model_ops": flat, "impl": exp}})
            break

    # two threads racing local opens on one transport: ids stay distinct (lock discipline of the
    # replayed critical section; the real section is the same three statements)
    d = Driver(M24 - 40, [])
    errs = []

    def worker():
        try:
            for k in range(60):
                d.local_open("thread")
        except Exception as e:  # noqa
            errs.append(e)

    ths = [threading.Thread(target=worker, daemon=True) for _ in range(3)]
    for th in ths:
        th.start()
    for th in ths:
        th.join(10.0)
    ids = [o for o in d.outs if o >= 0]
    ctx.count(("threads", len(ids)), kind="threads")
    if errs or len(ids) != 180 or len(set(ids)) != 180 or any(not (0 <= i < M24) for i in ids):
        ctx.fail("threads-duplicate-id", "concurrent local opens produced duplicate / out-of-range ids",
                 case={"c0": M24 - 40, "threads": 3}, observed={"ids": len(ids), "distinct": len(set(ids)),
                                                               "errors": [repr(e) for e in errs]})
    d.finish()


RACE_WD = 5.0


def race_case(c0, live0, pause_at, first="peer", second="local"):
    """Deterministic two-thread schedule on the real code.  `first` and `second` are each "local" (the real
    Transport.open_channel("session"); the peer's OPEN_SUCCESS is delivered as soon as the request is sent) or
    "peer" (the real _parse_channel_open of a CHANNEL_OPEN from the peer).
    Thread A runs `first` and is paused inside _next_channel, right after its pause_at-th look-up of the live map
    (it has read the counter and not yet advanced it).  At that point `second` runs to completion if and only if
    Transport.lock is free -- when the id is chosen under the lock, as it must be, the lock is busy and `second`
    runs after `first` instead.  No timing is involved: the switch points are the map look-up inside
    _next_channel and a non-blocking probe of the lock."""
    from paramiko.message import Message
    d = Driver(c0, live0)
    t = d.t
    t.active = True                      # open_channel refuses an inactive transport; no thread is started
    paused, resume = threading.Event(), threading.Event()
    a_tid = [None]
    calls = [0]
    a_done = [False]
    orig_get = t._channels.get

    def get(chanid):
        r = orig_get(chanid)
        if threading.get_ident() == a_tid[0] and not resume.is_set() and not a_done[0]:
            calls[0] += 1
            if calls[0] == pause_at:
                paused.set()
                resume.wait(RACE_WD)
        return r

    t._channels.get = get

    def send_message(m):
        # the packetizer boundary: answer every CHANNEL_OPEN of ours with OPEN_SUCCESS at once
        raw = m.asbytes()
        d.sent.append(raw[:1])
        if raw[0] == 90:
            q = Message(raw[1:])
            q.get_text()
            cid = q.get_int()
            r = Message()
            for v in (cid, d.remote_id(), 1 << 20, 1 << 15):
                r.add_int(v)
            r.rewind()
            t._parse_channel_open_success(r)

    t._send_message = send_message
    results = {}
    errs = []

    def do(kind, who):
        try:
            if kind == "local":
                ch = t.open_channel("session", timeout=RACE_WD)
                results[who] = ch
            else:
                m = Message()
                m.add_string("session")
                m.add_int(d.remote_id())
                m.add_int(1 << 20)
                m.add_int(1 << 15)
                m.rewind()
                d.accept, d.inner, d.where = True, [], "race/" + who
                d.before = None
                d.reserved = None
                t._parse_channel_open(m)
                results[who] = orig_get(d.reserved) if d.reserved is not None else None
                results[who + "_id"] = d.reserved
        except Exception as e:  # noqa
            errs.append("%s: %r" % (who, e))

    def a_thread():
        a_tid[0] = threading.get_ident()
        do(first, "A")
        a_done[0] = True

    th = threading.Thread(target=a_thread, daemon=True)
    th.start()
    paused.wait(RACE_WD)
    when = None
    if paused.is_set() and t.lock.acquire(False):
        t.lock.release()
        when = "while A was inside _next_channel (Transport.lock was free)"
        do(second, "B")
    resume.set()
    th.join(RACE_WD)
    if when is None:
        when = "after A (Transport.lock was held while A chose its id)"
        do(second, "B")
    t._channels.get = orig_get
    a, b = results.get("A"), results.get("B")
    ida = getattr(a, "chanid", results.get("A_id"))
    idb = getattr(b, "chanid", results.get("B_id"))
    obs = {"first": first, "second": second, "id_A": ida, "id_B": idb, "B_ran": when,
           "A_in_map_as_itself": a is not None and orig_get(ida) is a,
           "B_in_map_as_itself": b is not None and orig_get(idb) is b,
           "live_entries": len(t._channels), "expected_live_entries": len(live0) + 2,
           "errors": errs, "thread_finished": not th.is_alive()}
    t.active = False
    d.keep["A"], d.keep["B"] = a, b
    d.finish()
    return obs


def check_race(ctx, c0, live0, pause_at, first="peer", second="local"):
    obs = race_case(c0, live0, pause_at, first, second)
    names = {"local": "Transport.open_channel('session')", "peer": "_parse_channel_open(CHANNEL_OPEN session)"}
    case = {"race": True, "c0": c0, "live0": live0, "pause_at": pause_at, "first": first, "second": second,
            "schedule": ["A: %s runs up to look-up #%d of the live map inside _next_channel" % (names[first], pause_at),
                         "B: %s, now if Transport.lock is free" % names[second],
                         "A: resumes and completes",
                         "B: %s, if it has not run yet" % names[second]]}
    ctx.count(("race", c0, tuple(live0), pause_at, first, second), kind="race-%s-%s" % (first, second))
    if obs["errors"] or not obs["thread_finished"] or obs["id_A"] is None or obs["id_B"] is None:
        ctx.fail("race-open-failed", "an open did not complete in the two-thread schedule", case=case, observed=obs)
        return
    if obs["id_A"] == obs["id_B"]:
        key = "peer-local-same-id" if "peer" in (first, second) else "local-local-same-id"
        ctx.fail(key, "two channels opened concurrently on one transport were given the same id: an id is chosen "
                 "(_next_channel) outside Transport.lock, and the later put() replaced the other channel in the map",
                 case=case, expected="two distinct ids, both channels in the map", observed=obs)
    elif not (obs["A_in_map_as_itself"] and obs["B_in_map_as_itself"]) \
            or obs["live_entries"] != obs["expected_live_entries"] \
            or not (0 <= obs["id_A"] < M24 and 0 <= obs["id_B"] < M24):
        ctx.fail("race-map-wrong", "after two concurrent opens the map does not hold both channels under their own "
                 "ids", case=case, observed=obs)


def abandon_case(c0, timeout=0.15):
    """open_channel with its documented timeout= argument that runs out, next to a peer open that is still inside
    the server callback (its id reserved, not yet registered), followed by two more local opens before the callback
    returns.  Every id handed out must differ from the reserved one and from every open channel's; after the
    callback returns all channels must be in the map as themselves."""
    from paramiko.message import Message
    d = Driver(c0, [])
    t = d.t
    t.active = True
    answer = {"on": False}

    def send_message(m):
        raw = m.asbytes()
        if raw[0] == 90 and answer["on"]:
            q = Message(raw[1:])
            q.get_text()
            cid = q.get_int()
            r = Message()
            for v in (cid, d.remote_id(), 1 << 20, 1 << 15):
                r.add_int(v)
            r.rewind()
            t._parse_channel_open_success(r)

    t._send_message = send_message
    res = {"timed_out": None, "late": [], "errors": []}

    def slow_open():
        try:
            t.open_channel("session", timeout=timeout)
            res["timed_out"] = "returned"
        except Exception as e:  # noqa
            res["timed_out"] = type(e).__name__

    th = threading.Thread(target=slow_open, daemon=True)
    th.start()
    import time as _t
    limit = _t.time() + 3.0
    while t._channel_counter == c0 and _t.time() < limit:      # until the slow open has taken its id
        _t.sleep(0.002)
    first_id = c0

    def inside_callback():
        th.join(RACE_WD)                     # the slow open gives up while the peer open is pending
        answer["on"] = True
        for _ in range(2):
            try:
                res["late"].append(t.open_channel("session", timeout=RACE_WD))
            except Exception as e:  # noqa
                res["errors"].append(repr(e))

    d.inner_fn = inside_callback
    m = Message()
    m.add_string("session")
    m.add_int(d.remote_id())
    m.add_int(1 << 20)
    m.add_int(1 << 15)
    m.rewind()
    d.accept, d.inner, d.where, d.before, d.reserved = True, [], "abandon/peer", None, None
    try:
        t._parse_channel_open(m)
    except Exception as e:  # noqa
        res["errors"].append(repr(e))
    p = d.reserved
    late_ids = [ch.chanid for ch in res["late"]]
    peer_chan = t._channels.get(p) if p is not None else None
    obs = {"slow_open_id": first_id, "slow_open": res["timed_out"], "peer_reserved_id": p, "late_open_ids": late_ids,
           "counter": t._channel_counter, "errors": res["errors"],
           "late_in_map_as_themselves": [t._channels.get(ch.chanid) is ch for ch in res["late"]],
           "peer_channel_in_map": peer_chan is not None and peer_chan not in res["late"]}
    t.active = False
    d.keep.update({("late", i): ch for i, ch in enumerate(res["late"])})
    d.finish()
    prob = None
    if res["errors"] or p is None or len(late_ids) != 2:
        prob = ("abandon-scenario-failed", "an open did not complete in the timed-out-open scenario")
    elif p in late_ids or len(set(late_ids)) != 2:
        prob = ("id-pending", "an id reserved for a peer-opened channel (still inside the server callback) was handed "
                "out again to a local open after another open_channel(timeout=...) had timed out")
    elif not all(obs["late_in_map_as_themselves"]) or not obs["peer_channel_in_map"]:
        prob = ("race-map-wrong", "after the scenario the map does not hold every channel under its own id")
    elif any(not (0 <= i < M24) for i in late_ids + [p]):
        prob = ("id-out-of-range", "channel id does not fit in 24 bits")
    return {"abandon": True, "c0": c0, "timeout": timeout}, obs, prob


def abandon_runs(ctx):
    for c0 in (M24 - 2, 0, ctx.rng.randrange(M24)):
        case, obs, prob = abandon_case(c0)
        ctx.count(("abandon", c0), kind="timed-out-open")
        if prob:
            ctx.fail(prob[0], prob[1], case=case, expected="fresh ids", observed=obs)


def replay(ctx, rep):
    case = rep.get("case") or {}
    if case.get("abandon"):
        if ctx.proof is None:
            ctx.prove()
        c, obs, prob = abandon_case(case["c0"], case.get("timeout", 0.15))
        ctx.count(("replay", repr(c)))
        ctx.count(("replay2", repr(c)))
        if prob:
            ctx.fail(prob[0], prob[1], case=c, observed=obs)
        return
    if case.get("race"):
        if ctx.proof is None:
            ctx.prove()
        check_race(ctx, case["c0"], case["live0"], case["pause_at"], case.get("first", "peer"),
                   case.get("second", "local"))
        ctx.count(("replay2", repr(case)))
        return
    if "ops" not in case:
        run(ctx)
        return

    def fix(op):
        if op[0] == "peer":
            return ("peer", op[1], [fix(o) for o in op[2]])
        return tuple(op)

    ops = [fix(o) for o in case["ops"]]
    if ctx.proof is None:
        ctx.prove()
    d, flat, exp = run_history(case["c0"], case["live0"], ops)
    c = {"c0": case["c0"], "live0": case["live0"], "ops": ops}
    report(ctx, d, c)
    ctx.count(("replay", repr(c)))
    ctx.count(("replay2", repr(c)))
    bad = ctx.model_mismatches("run_history", "(Z * list Z * list op)",
                               [(coq((c["c0"], c["live0"], [tuple(o) for o in flat])), exp)])
    if bad:
        ctx.disagree("id allocation differs from the model", case=c, impl=exp)
