"""C09 -- strict key exchange stops handshake sequence-number manipulation (Terrapin).

Proof: coq/Props/C09_props.v over coq/Model/C09.v (run-loop dispatch, packetizer sequence
numbers, NEWKEYS resets, a network man-in-the-middle).
Tie: a real client `Transport` and a real server `Transport` run in-process over a socket pair
whose every write passes through a harness-controlled man-in-the-middle (each
`Packetizer.send_message` is one `sock.send`, so the relay sees whole wire packets without knowing
any key): it injects plaintext packets at chosen handshake positions and deletes wire packets.
Both sides' observable behaviour (outcome class, every received (type, seqno), every sent
(type, seqno)) is compared with the model's network simulator evaluated inside Coq.
Oracle: stated directly over the real code (strict session: aborts or lines up).
"""
import threading
import time

from common import coq, with_watchdog

PID = "C09"
LEVEL_TEXT = ("Machine-checked proof (Coq) over an executable model of Transport.run's dispatch, "
              "_enforce_strict_kex, the _expected_packet check, _parse_kex_init's strict marker / "
              "first-packet test, _activate_inbound/_activate_outbound sequence-number resets and the "
              "Packetizer sequence counters: in strict mode any packet that is not the next expected "
              "key-exchange message terminates the connection before the initial key exchange is done, "
              "both counters are zero after every NEWKEYS, and for every man-in-the-middle packet stream "
              "the receiver either aborts or accepts exactly the sender's post-NEWKEYS packets in order, "
              "each under the sender's own sequence number; the Terrapin shift is exhibited when strict "
              "mode is off. The model is tied to transport.py/packet.py by running real client/server "
              "transports through a packet-level man-in-the-middle and comparing traces with the model's "
              "network simulator (vm_compute) every run.")
LEVEL_NOTE = ("Trusted: Coq kernel + vm_compute; model coq/Model/C09.v (dispatch skeleton hand-written; message "
              "numbers, sequence modulus, kex range, per-engine start_kex/parse_next tables, the universe of "
              "expectable types, the _enforce_strict_kex call sites and the initial/post-activation expectations "
              "come from coq/Gen/C09_gen.v, regenerated fail-closed from the source by gen/c09.py, which also "
              "refuses to run unless the KEXINIT-first test, the latch of agreed_on_strict_kex and the reset "
              "statements of _activate_inbound/_activate_outbound have the recognised shape) validated by the "
              "correspondence run; MAC verification is an abstract predicate with the hypothesis that a "
              "tag verifies only under the key epoch and sequence number it was computed with (C02's "
              "premise); cipher statefulness, KEXINIT content tampering (caught by the exchange hash) and "
              "the application layer above the transport (an arbitrary function in the model) are outside. "
              "Classified, not a violation: _parse_kex_init re-evaluates agreed_on_strict_kex whenever a KEXINIT "
              "names some kex-strict-* algorithm, so a re-key KEXINIT naming the WRONG role's kex-strict name "
              "clears the flag (lemma sticky_needs_honest_marker). Such a KEXINIT is encrypted and MAC'd, hence "
              "can only come from the authenticated peer itself, which no conforming implementation sends; the "
              "effect is that this side stops resetting while the peer resets, i.e. a MAC mismatch and a dead "
              "session, never a working shifted one, and no man-in-the-middle can cause it. C09_strict_sticky is "
              "therefore stated for KEXINITs carrying the peer's own name or none; a deviation from the letter of "
              "the extension (later KEXINITs should not affect the mode), recorded here, no fix proposed.")
TECHNIQUE = ("Coq proof (state-machine invariants, induction over packet streams) + tables generated from the source "
             "(AST + live objects, fail-closed) + vm_compute network-simulator correspondence")

IGNORE, UNIMPL, DEBUG_, UNKNOWN = 2, 3, 4, 192
KEXINIT, NEWKEYS, EXT_INFO = 20, 21, 7

# kex families as the model knows them: 0 = two-message (30 -> 31), 1 = group exchange
DH, GEX = 0, 1

GROUP14_P = int(
    "FFFFFFFFFFFFFFFFC90FDAA22168C234C4C6628B80DC1CD129024E088A67CC74020BBEA63B139B22514A08798E3404DD"
    "EF9519B3CD3A431B302B0A6DF25F14374FE1356D6D51C245E485B576625E7EC6F44C42E9A637ED6B0BFF5CB6F406B7ED"
    "EE386BFB5A899FA5AE9F24117C4B1FE649286651ECE45B3DC2007CB8A163BF0598DA48361C55D39A69163FA8FD24CF5F"
    "83655D23DCA3AD961C62F356208552BB9ED529077096966D670C354E4ABC9804F1746C08CA18217C32905E462E36CE3B"
    "E39E772C180E86039B2783A2EC07A28FB5C55DF06F4C52C9DE2BCBF6955817183995497CEA956AE515D2261898FA0510"
    "15728E5A8AACAA68FFFFFFFFFFFFFFFF", 16)


# --------------------------------------------------------------------------
# the wire: a socket pair with an in-band EOF and a packet-level man-in-the-middle


class Wire:
    """Shared state of the two socket ends; one lock/condition for everything."""

    def __init__(self, script):
        self.cv = threading.Condition(threading.Lock())
        self.script = script          # {(dir, index): [("inject", ptype) | ("drop",)]}
        self.activity = 0


class End:
    """One end of the wire (what paramiko sees as its socket)."""

    def __init__(self, wire, direction):
        self.wire = wire
        self.dir = direction          # "c2s" for the client's end (its sends travel c2s)
        self.mate = None
        self.buf = b""
        self.closed = False
        self.timeout = None
        self.nsent = 0                # writes so far: 0 = banner line, 1 = first packet ...
        self.waiting = False          # reader found nothing to read (quiescent)
        self.log = []                 # what the relay did

    # -- socket API used by paramiko --
    def settimeout(self, t):
        self.timeout = t

    def gettimeout(self):
        return self.timeout

    def fileno(self):
        return -1

    def getpeername(self):
        return ("verif", 0)

    def send(self, data):
        data = bytes(data)
        w = self.wire
        with w.cv:
            if self.closed:
                raise EOFError()
            idx = self.nsent - 1      # packet index (banner is -1)
            self.nsent += 1
            out = []
            drop = False
            for op in w.script.get((self.dir, idx), ()):
                if op[0] == "inject":
                    out.append(plain_packet(op[1], op[2] if len(op) > 2 else 0))
                    self.log.append(("inject", idx, op[1]))
                elif op[0] == "drop":
                    drop = True
                    self.log.append(("drop", idx))
            if not drop:
                out.append(data)
            m = self.mate
            if not m.closed:
                m.buf += b"".join(out)
                if out:
                    m.waiting = False
            w.activity += 1
            w.cv.notify_all()
        return len(data)

    def recv(self, n):
        w = self.wire
        with w.cv:
            if self.closed:
                return b""
            if not self.buf and not self.mate.closed:
                self.waiting = True
                w.cv.notify_all()
                w.cv.wait(self.timeout)
            if self.buf:
                self.waiting = False
                out, self.buf = self.buf[:n], self.buf[n:]
                w.activity += 1
                return out
            if self.mate.closed or self.closed:
                return b""            # EOF strictly after all data sent before the close
            import socket
            raise socket.timeout()

    def close(self):
        w = self.wire
        with w.cv:
            self.closed = True
            self.buf = b""
            if self.mate is not None:
                self.mate.waiting = False     # the mate now has an EOF to read
            w.activity += 1
            w.cv.notify_all()


def plain_packet(ptype, flag=0):
    """An unencrypted SSH binary packet carrying one message of the given type (flag: DEBUG's
    always_display)."""
    import struct
    if ptype == IGNORE:
        payload = bytes([2]) + struct.pack(">I", 4) + b"verf"
    elif ptype == DEBUG_:
        payload = bytes([4, 1 if flag else 0]) + struct.pack(">I", 4) + b"verf" + struct.pack(">I", 0)
    elif ptype == UNIMPL:
        payload = bytes([3]) + struct.pack(">I", 0)
    else:
        payload = bytes([ptype]) + struct.pack(">I", 0)
    bsize = 8
    padding = 3 + bsize - ((len(payload) + 8) % bsize)
    pkt = struct.pack(">IB", len(payload) + padding + 1, padding) + payload + bytes(padding)
    return pkt


def make_recorder():
    """A Packetizer subclass recording (type, seqno) of everything sent and received."""
    from paramiko.packet import Packetizer

    class Recorder(Packetizer):
        def __init__(self, sock):
            super().__init__(sock)
            self.rx = []
            self.tx = []
            self.tx_done = []     # _initial_kex_done at the moment each packet was handed to send_message

        def send_message(self, data):
            lock = self._Packetizer__write_lock
            with lock:
                raw = data.asbytes() if hasattr(data, "asbytes") else bytes(data)
                self.tx.append((raw[0], self._Packetizer__sequence_number_out))
                self.tx_done.append(bool(self._initial_kex_done))
                return super().send_message(data)

        def read_message(self):
            ptype, m = super().read_message()
            self.rx.append((ptype, m.seqno))
            return ptype, m

        def seqs(self):
            return (self._Packetizer__sequence_number_in, self._Packetizer__sequence_number_out)

    return Recorder


_SERVER_IF = None


def server_interface():
    global _SERVER_IF
    if _SERVER_IF is None:
        import paramiko

        class Srv(paramiko.ServerInterface):
            def get_allowed_auths(self, username):
                return "none"

            def check_auth_none(self, username):
                return paramiko.AUTH_SUCCESSFUL

        _SERVER_IF = Srv
    return _SERVER_IF()


_HOSTKEY = None


def host_key(repo):
    global _HOSTKEY
    if _HOSTKEY is None:
        import os
        import paramiko
        _HOSTKEY = paramiko.Ed25519Key.from_private_key_file(os.path.join(repo, "tests", "_support", "ed25519.key"))
    return _HOSTKEY


_TCLS = None


def transport_class():
    """Transport that remembers the first exception its run loop saved (get_exception() clears
    saved_exception when another thread picks it up)."""
    global _TCLS
    if _TCLS is None:
        import paramiko

        class T(paramiko.Transport):
            def __setattr__(self, k, v):
                if k == "saved_exception" and v is not None and "first_exc" not in self.__dict__:
                    self.__dict__["first_exc"] = v
                super().__setattr__(k, v)

        class Once(T):
            """A peer that, like OpenSSH, names kex-strict-*-v00 only in its initial KEXINIT (the
            extension says later KEXINITs do not change the mode).  Only what it SENDS differs."""

            def _send_kex_init(self):
                if not self.initial_kex_done:
                    return super()._send_kex_init()
                saved = self.advertise_strict_kex
                self.advertise_strict_kex = False
                try:
                    return super()._send_kex_init()
                finally:
                    self.advertise_strict_kex = saved

        _TCLS = (T, Once)
    return _TCLS


SUITES = {
    None: None,
    "gcm128": (("aes128-gcm@openssh.com",), None),
    "gcm256": (("aes256-gcm@openssh.com",), None),
    "cbc-etm": (("aes128-cbc",), ("hmac-sha2-256-etm@openssh.com",)),
    "ctr-sha512": (("aes256-ctr",), ("hmac-sha2-512",)),
}

_MCLS = {}


def marker_class(base, pos):
    """`base` whose KEXINITs carry the kex-strict name at another place of the kex_algorithms list
    ("first": index 0; "mid": index 1, ahead of a real algorithm).  Its position is not significant."""
    key = (base, pos)
    if key not in _MCLS:
        from paramiko.message import Message
        from paramiko.common import cMSG_KEXINIT

        class Moved(base):
            def _send_message(self, data):
                raw = data.asbytes()
                if raw[:1] == cMSG_KEXINIT:
                    m = Message(raw[1:])
                    cookie = m.get_bytes(16)
                    kex = m.get_list()
                    rest = m.get_remainder()
                    mk = [a for a in kex if a.startswith("kex-strict-")]
                    if mk:
                        kex = [a for a in kex if not a.startswith("kex-strict-")]
                        kex[(0 if pos == "first" else 1):0] = mk
                        m2 = Message()
                        m2.add_byte(cMSG_KEXINIT)
                        m2.add_bytes(cookie)
                        m2.add_list(kex)
                        m2.add_bytes(rest)
                        # what the exchange hash is computed over
                        self.local_kex_init = self._latest_kex_init = m2.asbytes()
                        data = m2
                return super()._send_message(data)

        _MCLS[key] = Moved
    return _MCLS[key]


def exc_class(t):
    """Canonical outcome class of one transport (see Model/C09.v `status`)."""
    from paramiko.ssh_exception import MessageOrderError, SSHException
    import socket
    e = t.__dict__.get("first_exc")
    if t.is_alive() or t.active:
        return 0                      # running
    if e is None:
        return 2                      # left the loop without an exception (DISCONNECT)
    if isinstance(e, MessageOrderError):
        return 3
    if isinstance(e, SSHException):
        return 4
    if isinstance(e, (EOFError, socket.error)):
        return 5                      # the other side went away
    return 6                          # any other exception


def quiesce(wire, ends, transports, extra_busy=lambda: False, limit=60.0):
    """Wait until nothing more can happen: every transport thread is dead or waiting on an empty
    buffer, twice in a row with no wire activity in between.  Not a race: replies are sent
    synchronously by the reading thread before it reads again."""
    t0 = time.time()
    last = None
    while time.time() - t0 < limit:
        with wire.cv:
            idle = all((not t.is_alive()) or (e.waiting and not e.buf) for e, t in zip(ends, transports))
            act = wire.activity
        if idle and not extra_busy():
            if last == act:
                return True
            last = act
        else:
            last = None
        time.sleep(0.01)
    return False


def run_real(ctx_repo, kex_name, strict_c, strict_s, script, do_auth=True, do_rekey=0, ext_info=True,
             once_c=False, once_s=False, suite=None, mpos_c=None, mpos_s=None, preset=None, opts=None):
    """Run one scenario on the real code; returns the observation dict.
    opts: documented non-default options under which the property must hold just the same:
    {"keepalive": "c"|"s"|"cs", "log": "debug", "compress": True}."""
    import logging
    import paramiko
    opts = opts or {}
    lg = logging.getLogger("paramiko")
    if not lg.handlers:
        lg.addHandler(logging.NullHandler())
    lg.propagate = False
    old_level = lg.level
    lg.setLevel(logging.DEBUG if opts.get("log") == "debug" else logging.CRITICAL)
    Recorder = make_recorder()
    T, Once = transport_class()
    do_rekey = int(do_rekey)
    wire = Wire(script)
    ec, es = End(wire, "c2s"), End(wire, "s2c")
    ec.mate, es.mate = es, ec
    Tc, Ts = (Once if once_c else T), (Once if once_s else T)
    if mpos_c:
        Tc = marker_class(Tc, mpos_c)
    if mpos_s:
        Ts = marker_class(Ts, mpos_s)
    tc = Tc(ec, strict_kex=strict_c, packetizer_class=Recorder)
    ts = Ts(es, strict_kex=strict_s, packetizer_class=Recorder, server_sig_algs=ext_info)
    obs = {}
    try:
        ts.add_server_key(host_key(ctx_repo))
        if "group-exchange" in kex_name:
            from paramiko.primes import ModulusPack
            pack = ModulusPack()
            pack.pack = {2048: [(2, GROUP14_P)]}
            ts._modulus_pack = pack
        kexes = (kex_name,)
        if mpos_c == "mid" or mpos_s == "mid":
            # a second real algorithm so that the moved name is followed by one
            kexes = (kex_name, [k for k in ("diffie-hellman-group14-sha1", "diffie-hellman-group14-sha256")
                                if k != kex_name][0])
        tc.get_security_options().kex = kexes
        ts.get_security_options().kex = kexes
        if SUITES.get(suite):
            ciphers, macs = SUITES[suite]
            for t_ in (tc, ts):
                t_.get_security_options().ciphers = ciphers
                if macs:
                    t_.get_security_options().digests = macs
        obs["cipher"] = None
        # counters preset near the 32-bit boundary ({"c_in": v, "s_out": v, ...}) instead of really
        # exchanging 2**32 packets
        for key, v in (preset or {}).items():
            t_ = tc if key[0] == "c" else ts
            setattr(t_.packetizer, "_Packetizer__sequence_number_" + key[2:], int(v))
        for ch, t_ in (("c", tc), ("s", ts)):
            if ch in (opts.get("keepalive") or ""):
                t_.set_keepalive(3600)          # enabled, but never due within a scenario
            if opts.get("compress"):
                t_.use_compression(True)
        evc, evs = threading.Event(), threading.Event()
        ts.start_server(event=evs, server=server_interface())
        tc.start_client(event=evc)
        ok = quiesce(wire, (ec, es), (tc, ts))
        obs["settled1"] = ok
        agreed1 = {"c": bool(tc.agreed_on_strict_kex), "s": bool(ts.agreed_on_strict_kex)}
        phase = 1
        if ok and tc.active and ts.active and tc.initial_kex_done and ts.initial_kex_done and do_auth:
            phase = 2
            box = {}

            def auth():
                try:
                    box["r"] = tc.auth_none("verif")
                except BaseException as e:  # noqa
                    box["e"] = e

            sent0 = ec.nsent
            th = threading.Thread(target=auth, daemon=True)
            th.start()
            # the calling thread sends SERVICE_REQUEST itself, everything after that is sent by the two
            # run threads; so once that first write happened the wire's quiescence is final even while
            # auth_none() is still blocked waiting for an answer that will never come
            t0 = time.time()
            while th.is_alive() and ec.nsent == sent0 and time.time() - t0 < 30.0:
                time.sleep(0.005)
            obs["settled2"] = quiesce(wire, (ec, es), (tc, ts))
            th.join(0.5 if obs["settled2"] else 30.0)
            obs["auth_hang"] = th.is_alive() and not obs["settled2"]
            obs["authed"] = bool(tc.is_authenticated() and ts.is_authenticated())
            if do_rekey and obs["authed"] and tc.active and ts.active:
                phase = 3
                obs["rekey"] = "ok"
                obs["settled3"] = True
                for _ in range(do_rekey):
                    if not (tc.active and ts.active and tc.initial_kex_done and ts.initial_kex_done):
                        break
                    st, v = with_watchdog(lambda: tc.renegotiate_keys(), 30.0)
                    if st != "ok":
                        obs["rekey"] = st
                    obs["settled3"] = quiesce(wire, (ec, es), (tc, ts)) and obs["settled3"]
                if tc.active and ts.active:
                    # does the session still work?  a global request the server answers (REQUEST_FAILURE)
                    phase = 4
                    sent0 = ec.nsent
                    th2 = threading.Thread(target=lambda: with_watchdog(
                        lambda: tc.global_request("ping@verif", wait=True), 30.0), daemon=True)
                    th2.start()
                    t0 = time.time()
                    while th2.is_alive() and ec.nsent == sent0 and time.time() - t0 < 30.0:
                        time.sleep(0.005)
                    obs["settled3"] = quiesce(wire, (ec, es), (tc, ts)) and obs["settled3"]
                    th2.join(0.5 if obs["settled3"] else 30.0)
                    obs["ping"] = bool(tc.packetizer.rx and tc.packetizer.rx[-1][0] == 82)
        obs["phase"] = phase
        obs["cipher"] = (getattr(tc, "local_cipher", None), getattr(tc, "local_mac", None))
        for name, t, e in (("c", tc, ec), ("s", ts, es)):
            p = t.packetizer
            obs[name] = {
                "status": exc_class(t),
                "exc": type(t.__dict__.get("first_exc")).__name__ if "first_exc" in t.__dict__ else None,
                "msg": str(t.__dict__.get("first_exc"))[:100] if "first_exc" in t.__dict__ else None,
                "done": bool(t.initial_kex_done),
                "agreed": bool(t.agreed_on_strict_kex), "agreed1": agreed1[name],
                "rx": list(p.rx), "tx": list(p.tx), "tx_done": list(p.tx_done), "seqs": p.seqs(),
                "relay": list(e.log),
            }
    finally:
        lg.setLevel(old_level)
        for t in (tc, ts):
            try:
                t.close()
            except Exception:
                pass
        for t in (tc, ts):
            t.join(10.0)
    return obs


# --------------------------------------------------------------------------
# scenarios


def kex_family(name):
    return GEX if "group-exchange" in name else DH


def streams(fam, ext=True):
    """Message types each side sends during the initial handshake, in order."""
    if fam == DH:
        return {"c2s": [20, 30, 21], "s2c": [20, 31, 21] + ([7] if ext else [])}
    return {"c2s": [20, 34, 32, 21], "s2c": [20, 31, 33, 21] + ([7] if ext else [])}


def canon_side(d):
    rx = [x for pr in d["rx"] for x in pr]
    tx = [x for pr in d["tx"] for x in pr]
    return [d["status"], int(d["done"]), int(d["agreed"]), d["seqs"][0], d["seqs"][1],
            len(d["rx"])] + rx + [len(d["tx"])] + tx


def canon(obs):
    return canon_side(obs["c"]) + canon_side(obs["s"])


def coq_case(sc):
    script = []
    for (d, i), ops in sorted(sc["script"].items()):
        for op in ops:
            script.append((d == "c2s", i, -1 if op[0] == "drop" else op[1]))
    pre = sc.get("preset") or {}
    return "(%d, %s, %s, true, %d, %s, %s, %d, %d, %s)" % (
        kex_family(sc["kex"]), coq(sc["strict_c"]), coq(sc["strict_s"]), int(sc["rekey"]),
        coq(bool(sc.get("once_c"))), coq(bool(sc.get("once_s"))), int(pre.get("c_in", 0)), int(pre.get("s_in", 0)),
        coq(script))


def post_newkeys_edit(sc):
    """Does the script touch a packet sent after the sender's first NEWKEYS (encrypted)?"""
    st = streams(kex_family(sc["kex"]))
    for (d, i), ops in sc["script"].items():
        nk = st[d].index(21)
        for op in ops:
            if op[0] == "drop" and i >= nk:
                return True
            if op[0] == "inject" and i > nk:
                return True
    return False


def injects_newkeys(sc):
    return any(op[0] == "inject" and op[1] == NEWKEYS for ops in sc["script"].values() for op in ops)


def split_newkeys(tr):
    """[(type, seq)] -> list of segments, cut after each NEWKEYS."""
    segs = [[]]
    for t, s in tr:
        segs[-1].append((t, s))
        if t == NEWKEYS:
            segs.append([])
    return segs


def oracle(ctx, sc, obs):
    """The property stated over the real code's observable behaviour."""
    case = {"kex": sc["kex"], "strict_c": sc["strict_c"], "strict_s": sc["strict_s"], "rekey": int(sc["rekey"]),
            "once_c": bool(sc.get("once_c")), "once_s": bool(sc.get("once_s")),
            "suite": sc.get("suite"), "mpos_c": sc.get("mpos_c"), "mpos_s": sc.get("mpos_s"),
            "preset": dict(sc.get("preset") or {}), "opts": dict(sc.get("opts") or {}),
            "script": [[d, i, list(op)] for (d, i), ops in sorted(sc["script"].items()) for op in ops]}
    both = sc["strict_c"] and sc["strict_s"]
    pre = sc.get("preset") or {}
    for me, other in (("c", "s"), ("s", "c")):
        d = obs[me]
        o = obs[other]
        rx, tx = d["rx"], d["tx"]
        # (00) the property's own observable, independent of what the recorder saw: with strict kex
        # advertised by both sides, a packet the relay inserted into the stream towards this side at or
        # before the sender's NEWKEYS must keep this side's initial key exchange from completing
        # (the relay's log belongs to the sending end)
        if both:
            nk_to_me = streams(kex_family(sc["kex"]))["s2c" if me == "c" else "c2s"].index(21)
            ins = [e for e in o["relay"] if e[0] == "inject" and e[1] <= nk_to_me and e[2] != NEWKEYS]
            if ins and d["done"]:
                ctx.fail("strict-injection-survived", "both sides advertise strict kex, the relay inserted packet(s) "
                         "%r (index, type) into the initial handshake towards the %s, yet its initial key exchange "
                         "completed" % ([(e[1], e[2]) for e in ins], "client" if me == "c" else "server"),
                         case=case, expected="MessageOrderError before initial_kex_done", observed=d)
        # (0) neither counter may pass 2**32 - 1 while the initial key exchange is running (otherwise a
        # KEXINIT preceded by 2**32 packets would carry sequence number 0 again): the packet that would
        # take the counter from 0xffffffff to 0 must end the connection, in either direction
        first = []
        for t, sq in rx:
            first.append((t, sq))
            if t == NEWKEYS:
                break
        if any(sq == 0xFFFFFFFF for _, sq in first):
            ctx.fail("rollover-in-initial-kex", "a packet was read under inbound sequence number 2**32-1 during the "
                     "initial key exchange (the counter wraps to 0: a later KEXINIT would look like the first "
                     "packet); Packetizer.read_message must raise instead", case=case,
                     expected="SSHException: Sequence number rolled over during initial kex", observed=d)
        tx_done = d.get("tx_done") or [False] * len(tx)
        for i, (t, sq) in enumerate(tx):
            if sq == 0xFFFFFFFF and not tx_done[i] and (i != len(tx) - 1 or d["status"] != 4):
                # sent while initial_kex_done was still False: send_message must raise (the recorder logs
                # the packet before calling it), so it has to be the last packet and the transport dead
                ctx.fail("rollover-in-initial-kex", "packet %d (type %d) was sent under outbound sequence number "
                         "2**32-1 before the initial key exchange was done, and the connection went on (the "
                         "counter wraps to 0 during the handshake)" % (i, t), case=case,
                         expected="SSHException: Sequence number rolled over during initial kex", observed=d)
                break
        if both and rx and rx[0][0] == KEXINIT and rx[0][1] == 0 and not d.get("agreed1", d["agreed"]) \
                and (d["done"] or d["status"] in (0, 5)):
            ctx.fail("strict-not-agreed", "both sides advertise strict kex but it was not agreed", case=case,
                     observed=d)
        if both and not sc["script"] and d["done"] and d.get("agreed1") and not d["agreed"]:
            ctx.fail("strict-not-sticky", "strict kex was agreed in the initial exchange but the flag is off "
                     "after a re-key (a re-key KEXINIT need not repeat the kex-strict name)", case=case,
                     expected="agreed_on_strict_kex stays True", observed=d)
        # (1) strict agreed: nothing but the expected kex messages before the initial kex is done
        if d["agreed"] or (both and not sc["script"]):
            fam = kex_family(sc["kex"])
            want = [KEXINIT] + ([31, 21] if me == "c" else [30, 21]) if fam == DH else \
                [KEXINIT] + ([31, 33, 21] if me == "c" else [34, 32, 21])
            init = []
            for t, s in rx:
                init.append((t, s))
                if t == NEWKEYS:
                    break
            for k, (t, s) in enumerate(init):
                bad = k >= len(want) or t != want[k] or (t == KEXINIT and s != 0) or \
                    (s != k and not pre.get(me + "_in"))
                if bad:
                    # the offending packet must be the last thing this side ever read, and it must
                    # have terminated (MessageOrderError, or DISCONNECT closing the transport)
                    okay = (k == len(rx) - 1) and (d["status"] == 3 or (t == 1 and d["status"] == 2))
                    if not okay and KEXINIT not in [x for x, _ in init[:k + 1]]:
                        # strict mode is only known once the peer's KEXINIT is parsed: packets ahead of it
                        # are tolerated until then, and the KEXINIT (now not the first packet) must be the
                        # end of the connection
                        okay = (rx[-1][0] == KEXINIT and rx[-1][1] != 0 and d["status"] == 3 and
                                all(x != KEXINIT for x, _ in rx[:-1]))
                    if not okay:
                        ctx.fail("strict-abort-missing",
                                 "strict kex agreed, yet a packet that is not the next expected key-exchange "
                                 "message (type %d, seqno %d, position %d) did not end the connection with "
                                 "MessageOrderError before the initial key exchange completed" % (t, s, k),
                                 case=case, expected="status 3 at that packet", observed=d)
                    break
            # (2) counters restart at zero after every NEWKEYS, in both directions
            for name, tr, final in (("inbound", rx, d["seqs"][0]), ("outbound", tx, d["seqs"][1])):
                segs = split_newkeys(tr)
                for seg in segs[1:]:
                    for k, (t, s) in enumerate(seg):
                        if s != k:
                            ctx.fail("seqno-not-reset", "strict kex agreed but the %s sequence number did not "
                                     "restart at zero after NEWKEYS (packet type %d carries %d, expected %d)"
                                     % (name, t, s, k), case=case, expected=k, observed=d)
                            break
                if len(segs) > 1 and final != len(segs[-1]) and d["status"] == 0:
                    ctx.fail("seqno-not-reset", "strict kex agreed but the %s sequence number did not restart "
                             "at zero after NEWKEYS" % name, case=case, expected=len(segs[-1]), observed=d)
            # (3) no shifted session: what this side read after NEWKEYS is exactly what the other side
            # sent after its NEWKEYS, in order, under the sender's own sequence numbers
            if o["agreed"] or (both and not sc["script"]):
                mine = [x for seg in split_newkeys(rx)[1:] for x in seg]
                theirs = [x for seg in split_newkeys(o["tx"])[1:] for x in seg]
                if mine != theirs[:len(mine)]:
                    ctx.fail("shifted-session", "strict kex agreed on both sides, yet the packets accepted "
                             "after NEWKEYS are not the sender's packets in order under the sender's sequence "
                             "numbers", case=case, expected=theirs, observed=mine)
    if sc.get("suite") and SUITES.get(sc["suite"]) and obs["c"]["done"] \
            and (obs.get("cipher") or (None,))[0] != SUITES[sc["suite"]][0][0]:
        ctx.fail("suite-not-negotiated", "the requested cipher suite was not negotiated", case=case,
                 expected=SUITES[sc["suite"]], observed=obs.get("cipher"))
    if not sc["script"] and not pre:
        if not obs.get("authed"):
            ctx.fail("clean-handshake-fails", "an unmodified handshake + authentication does not complete",
                     case=case, observed={"c": obs["c"], "s": obs["s"]})
        if sc["rekey"] and not (obs.get("rekey") == "ok" and obs["c"]["status"] == 0 and obs["s"]["status"] == 0
                                and obs.get("ping")):
            ctx.fail("clean-rekey-fails", "the session does not survive %d unmodified re-key(s) (a global request "
                     "sent afterwards must be answered)" % int(sc["rekey"]), case=case,
                     observed={"c": obs["c"], "s": obs["s"]})
    return case


def build_scenarios(ctx, kex_names):
    rng = ctx.rng
    scs = []

    def add(kex, sc_, ss_, script, rekey=0, kind="inject", once_c=False, once_s=False, suite=None,
            mpos_c=None, mpos_s=None, preset=None, opts=None):
        scs.append({"preset": dict(preset or {}), "opts": dict(opts or {}), "kex": kex, "strict_c": sc_, "strict_s": ss_, "script": script, "rekey": int(rekey),
                    "kind": kind, "once_c": once_c, "once_s": once_s, "suite": suite,
                    "mpos_c": mpos_c, "mpos_s": mpos_s})

    types = [IGNORE, DEBUG_, UNIMPL, UNKNOWN, 1, KEXINIT]
    for n, kex in enumerate(kex_names):
        fam = kex_family(kex)
        st = streams(fam)
        full = n == 0 or (ctx.thorough and (n < 3 or fam == GEX))
        configs = [(True, True), (False, False), (True, False), (False, True)] if full else \
            ([(True, True), (False, False)] if (fam == GEX or ctx.thorough) else [(True, True)])
        # clean runs (with re-key) for every strict configuration
        for sc_, ss_ in configs:
            add(kex, sc_, ss_, {}, rekey=1, kind="clean")
        # a peer that (like OpenSSH) names kex-strict only in its initial KEXINIT, in either role and in
        # both: strict mode is latched by the initial exchange, counters restart at every NEWKEYS, the
        # session survives two re-keys
        for oc_, os_ in ((True, False), (False, True), (True, True)):
            add(kex, True, True, {}, rekey=2, kind="rekey-no-marker", once_c=oc_, once_s=os_)
        if full:
            add(kex, False, False, {}, rekey=2, kind="rekey-no-marker", once_c=True, once_s=True)
            add(kex, True, True, {}, rekey=2, kind="clean")
        if n == 0 or (ctx.thorough and (n < 2 or fam == GEX)):
            nk_s, nk_c = st["s2c"].index(21), st["c2s"].index(21)
            # other cipher suites: AEAD (no MAC engine, the Transport passes mac_engine=None), CBC with an
            # encrypt-then-MAC, another CTR/HMAC pair.  Strict peers only for AEAD: GCM does not feed the
            # sequence number into the crypto, so the model's MAC premise says nothing about non-strict GCM.
            for suite in ("gcm128", "gcm256", "cbc-etm", "ctr-sha512"):
                add(kex, True, True, {}, rekey=2, kind="suite-" + suite, suite=suite)
                add(kex, True, True, {("s2c", nk_s): [("inject", IGNORE)]}, kind="suite-" + suite, suite=suite)
                if ctx.thorough or suite == "gcm128":
                    add(kex, True, True, {("c2s", nk_c): [("inject", DEBUG_)]}, kind="suite-" + suite, suite=suite)
                if not suite.startswith("gcm"):
                    add(kex, False, False, {("s2c", nk_s): [("inject", IGNORE)]}, kind="suite-" + suite, suite=suite)
            # documented non-default options: the strict-kex scenarios must come out the same with
            # keepalives enabled before connecting, with logging at DEBUG (and a DEBUG message that asks to
            # be displayed), with compression.  Quick: keepalive and log level always at the NEWKEYS
            # position, one option set (rotating with the seed) over every position; thorough: all.
            optsets = [{"keepalive": "cs"}, {"log": "debug"}, {"compress": True}, {"keepalive": "c", "log": "debug"},
                       {"keepalive": "s", "compress": True}, {"keepalive": "cs", "log": "debug", "compress": True}]
            rot = optsets[ctx.seed % len(optsets)]
            for oi, o_ in enumerate(optsets):
                whole = ctx.thorough or o_ is rot
                if not whole and oi > 1:
                    continue
                for d in ("c2s", "s2c"):
                    nk_d = st[d].index(21)
                    for i in (range(1, nk_d + 1) if whole else [nk_d]):
                        add(kex, True, True, {(d, i): [("inject", IGNORE)]}, kind="option", opts=o_)
                        add(kex, True, True, {(d, i): [("inject", DEBUG_)]}, kind="option", opts=o_)
                        if whole:
                            add(kex, True, True, {(d, i): [("inject", DEBUG_, 1)]}, kind="option", opts=o_)
                if whole:
                    add(kex, True, True, {}, rekey=1, kind="option", opts=o_)
                    add(kex, False, False, {("s2c", st["s2c"].index(21)): [("inject", IGNORE)]}, kind="option", opts=o_)
            # a DEBUG message that asks to be displayed, default logging
            for d in ("c2s", "s2c"):
                add(kex, True, True, {(d, st[d].index(21)): [("inject", DEBUG_, 1)]}, kind="option")
            # counters at the 32-bit boundary, both directions, both roles
            M = 1 << 32
            nin = len(st["c2s"])          # packets of the initial exchange per direction (without EXT_INFO)
            for side, d_to in (("c", "s2c"), ("s", "c2s")):
                for back in range(1, nin + 2):
                    for sc_, ss_ in ((True, True), (False, False)):
                        if back > 2 and sc_ and not ctx.thorough:
                            continue
                        add(kex, sc_, ss_, {}, kind="rollover-in", preset={side + "_in": M - back})
                    add(kex, True, True, {}, kind="rollover-out", preset={side + "_out": M - back})
                    if back > nin - 1 or ctx.thorough:
                        # not strict: no reset, the server's EXT_INFO is still part of the initial exchange
                        add(kex, False, False, {}, kind="rollover-out", preset={side + "_out": M - back})
                for sc_, ss_ in ((True, True), (False, False)):
                    # 2**32 - 1 packets swallowed, one more ahead of the peer's KEXINIT: KEXINIT would carry 0
                    add(kex, sc_, ss_, {(d_to, 0): [("inject", IGNORE)]}, kind="rollover-in",
                        preset={side + "_in": M - 1})
                    add(kex, sc_, ss_, {(d_to, 0): [("inject", DEBUG_), ("inject", IGNORE)]}, kind="rollover-in",
                        preset={side + "_in": M - 2})
            # the kex-strict name first / in the middle of the peer's kex_algorithms list
            for pos in ("first", "mid"):
                for mc_, ms_ in ((pos, None), (None, pos), (pos, pos)):
                    add(kex, True, True, {}, rekey=1, kind="marker-" + pos, mpos_c=mc_, mpos_s=ms_)
                    if mc_ and ms_ and not ctx.thorough:
                        continue
                    add(kex, True, True, {("c2s", 1): [("inject", IGNORE)]}, kind="marker-" + pos,
                        mpos_c=mc_, mpos_s=ms_)
                    add(kex, True, True, {("s2c", 1): [("inject", DEBUG_)]}, kind="marker-" + pos,
                        mpos_c=mc_, mpos_s=ms_)
        # every handshake position x every injected type x both directions
        for sc_, ss_ in configs:
            for d in ("c2s", "s2c"):
                for i in range(st[d].index(21) + 1):
                    for t in types:
                        if t in (1, KEXINIT) and not (full and sc_ == ss_):
                            continue
                        add(kex, sc_, ss_, {(d, i): [("inject", t)]})
        # deletion of each plaintext handshake packet (both wait for ever: no session)
        for d in ("c2s", "s2c"):
            for i in range(st[d].index(21) + 1):
                add(kex, True, True, {(d, i): [("drop",)]}, kind="drop-plain")
                if full:
                    add(kex, False, False, {(d, i): [("drop",)]}, kind="drop-plain")
        # deletion of the first encrypted packet, alone and as the Terrapin script
        for sc_, ss_ in configs:
            for d in ("c2s", "s2c"):
                nk = st[d].index(21)
                add(kex, sc_, ss_, {(d, nk + 1): [("drop",)]}, kind="drop-encrypted")
                add(kex, sc_, ss_, {(d, nk): [("inject", IGNORE)], (d, nk + 1): [("drop",)]}, kind="terrapin")
                add(kex, sc_, ss_, {(d, 1): [("inject", IGNORE)], (d, nk + 1): [("drop",)]}, kind="terrapin")
        # a forged NEWKEYS ahead of the real one
        for d in ("c2s", "s2c"):
            add(kex, True, True, {(d, st[d].index(21)): [("inject", NEWKEYS)]}, kind="forged-newkeys")
        # random multi-edit scripts
        for _ in range(((24 if n == 0 else 8) if ctx.thorough else 6) if full else 4):
            script = {}
            for _ in range(rng.randrange(2, 4)):
                d = rng.choice(["c2s", "s2c"])
                i = rng.randrange(0, st[d].index(21) + 1)
                op = ("drop",) if rng.random() < 0.15 else ("inject", rng.choice(types[:4]))
                script.setdefault((d, i), []).append(op)
            for k in script:
                if ("drop",) in script[k]:
                    script[k] = [o for o in script[k] if o != ("drop",)] + [("drop",)]
            sc_, ss_ = rng.choice(configs)
            add(kex, sc_, ss_, script, kind="multi")
    return scs


def run(ctx):
    from paramiko import Transport
    ctx.rule = ("enumeration: every position of the initial handshake x injected IGNORE/DEBUG/UNIMPLEMENTED/"
                "type 192 (and DISCONNECT, a junk KEXINIT, a forged NEWKEYS) x both directions x strict on/off "
                "per side x kex method (quick: curve25519 full matrix + group14-sha256 and group-exchange-sha256 "
                "with both-strict / both-non-strict; thorough: every preferred kex, full matrix); deletion of "
                "each handshake packet; deletion of the first encrypted packet; the Terrapin script (IGNORE "
                "injected before NEWKEYS + first encrypted packet deleted); seeded random multi-edit scripts; "
                "clean handshakes with authentication and one or two re-keys, also against a peer that (like "
                "OpenSSH) repeats its kex-strict name only in the initial KEXINIT (either role, both), followed "
                "by a global request that must be answered; AEAD (aes128/256-gcm), CBC+EtM and another CTR/HMAC suite; peers "
                "that put the kex-strict name first / in the middle of their kex_algorithms list (either role, both); "
                "sequence counters preset to 2**32-1 .. 2**32-(n+1) (inbound and outbound, both roles, strict and "
                "not), alone and with IGNORE/DEBUG inserted ahead of the peer's KEXINIT (roll-over boundary); the strict injection scenarios again under documented options: set_keepalive before "
                "connecting (either/both sides), logging at DEBUG, DEBUG messages with always_display set, "
                "compression (rotating with the seed in the quick tier, all in thorough). Every case is a full real client/server "
                "handshake; a case is non-trivial when its script is non-empty or it includes a re-key")
    ctx.trusted += ["gen/c09.py (AST + live-object translator of message numbers, kex engine tables, strict-kex "
                    "call sites and reset statements; fail-closed)",
                    "model coq/Model/C09.v dispatch skeleton is hand-written; tied to transport.py/packet.py/kex_*.py by comparing "
                    "complete (type, seqno) traces, final counters and outcome classes of real transports with "
                    "the model's network simulator (vm_compute)",
                    "relay sees one wire packet per socket write (Packetizer.send_message writes each packet with "
                    "a single write_all); harness socket delivers data sent before a close ahead of the EOF"]
    ctx.assumptions += ["MAC verification accepts a packet only under the key epoch and sequence number it was "
                        "computed with (hypothesis mac_binds; C02's conclusion)",
                        "ciphertext does not parse as a plaintext packet and vice versa",
                        "KEXINIT contents are not modified in flight (bound by the exchange hash / host key "
                        "signature: C01/C04)"]
    try:
        ctx.prove()
    except Exception as e:  # noqa
        ctx.corr_broken.append("proof build failed: %s" % str(e)[:400])

    avail = list(Transport._preferred_kex)
    quick = [k for k in ("curve25519-sha256@libssh.org", "diffie-hellman-group14-sha256",
                         "diffie-hellman-group-exchange-sha256") if k in avail]
    kex_names = avail if ctx.thorough else quick
    scs = build_scenarios(ctx, kex_names)
    ctx.exhaustive = True

    exact, coarse = [], []
    for sc in scs:
        obs = run_real(ctx.repo, sc["kex"], sc["strict_c"], sc["strict_s"], sc["script"],
                       do_auth=True, do_rekey=sc["rekey"], once_c=sc["once_c"], once_s=sc["once_s"],
                       suite=sc["suite"], mpos_c=sc["mpos_c"], mpos_s=sc["mpos_s"], preset=sc["preset"], opts=sc["opts"])
        if not all(obs.get(k, True) for k in ("settled1", "settled2", "settled3")) or obs.get("auth_hang"):
            # retry once before believing anything timing dependent
            obs = run_real(ctx.repo, sc["kex"], sc["strict_c"], sc["strict_s"], sc["script"],
                           do_auth=True, do_rekey=sc["rekey"], once_c=sc["once_c"], once_s=sc["once_s"],
                       suite=sc["suite"], mpos_c=sc["mpos_c"], mpos_s=sc["mpos_s"], preset=sc["preset"], opts=sc["opts"])
        case = oracle(ctx, sc, obs)
        ctx.count((sc["kex"], sc["strict_c"], sc["strict_s"], sorted(sc["script"].items()), sc["rekey"],
                   sc["once_c"], sc["once_s"], sc["suite"], sc["mpos_c"], sc["mpos_s"],
                   sorted(sc["preset"].items()), sorted(sc["opts"].items())),
                  nontrivial=bool(sc["script"]) or bool(sc["rekey"]) or bool(sc["preset"]), kind=sc["kind"])
        if any(k.endswith("_out") for k in sc["preset"]):
            pass      # the outbound roll-over guard is not in the model: implementation-level oracle only
        elif post_newkeys_edit(sc) or injects_newkeys(sc):
            coarse.append((sc, obs, case))
        else:
            exact.append((sc, obs, case))
        if sc["kind"] in ("terrapin", "clean", "rekey-no-marker") or (sc["kind"] == "inject" and len(ctx.samples) < 3):
            ctx.sample({"case": case, "client": {k: obs["c"][k] for k in ("status", "exc", "rx", "tx", "seqs")},
                        "server": {k: obs["s"][k] for k in ("status", "exc", "rx", "tx", "seqs")}})

    # ---- correspondence: whole traces against the model's network simulator ----
    ctype = "(Z * bool * bool * bool * Z * bool * bool * Z * Z * script)"
    # (model calls are guarded: a translator abort / model that no longer compiles must not stop the
    # implementation-level oracle above from reporting its concrete failing inputs)
    try:
        bad = ctx.model_mismatches("run_scn", ctype, [(coq_case(sc), canon(obs)) for sc, obs, _ in exact])
    except Exception as e:  # noqa
        ctx.corr_broken.append("model evaluation failed: %s" % str(e)[:400])
        bad = []
    for i in bad[:3]:
        sc, obs, case = exact[i]
        ctx.disagree("real client/server traces differ from the model's network simulator", case=case,
                     impl={"c": obs["c"], "s": obs["s"]})
    # scripts that delete / forge around encrypted packets: the stream cipher (aes-ctr) loses
    # synchronisation, so the real receiver fails on garbage rather than on the MAC.  Compared:
    # the model's receiver-side trace up to that point, and that nothing is accepted afterwards.
    if coarse:
        try:
            outs = coarse_model(ctx, [coq_case(sc) for sc, _, _ in coarse])
        except Exception as e:  # noqa
            ctx.corr_broken.append("model evaluation failed: %s" % str(e)[:400])
            outs = [None] * len(coarse)
        for (sc, obs, case), m in zip(coarse, outs):
            if m is None:
                continue
            mc, ms = split_canon(m)
            # only the receiver of an edited direction is comparable (the other side's view depends on
            # whether the receiver fails at once or waits for bytes that never come)
            recv_sides = {"s" if d_ == "c2s" else "c" for (d_, _i) in sc["script"]}
            for name, mm in (("c", mc), ("s", ms)):
                if name not in recv_sides:
                    continue
                d = obs[name]
                real_rx = [x for pr in d["rx"] for x in pr]
                if mm["status"] in (3,) and d["status"] != 3:
                    ctx.disagree("model aborts with MessageOrderError, implementation does not", case=case,
                                 model=mm, impl=d)
                elif mm["status"] in (0, 5) and mm["rx"] != real_rx:
                    # model says this side keeps accepting (non-strict shift): only the plaintext part
                    # can be compared on a stream cipher
                    n = min(len(mm["rx"]), len(real_rx))
                    pre = 0
                    while pre < n and mm["rx"][pre] == real_rx[pre]:
                        pre += 1
                    if real_rx[pre:] and pre < len(real_rx):
                        ctx.disagree("implementation accepted packets the model does not", case=case,
                                     model=mm, impl=d)
                elif mm["status"] in (3, 4) and mm["rx"] != real_rx:
                    ctx.disagree("receiver trace differs from the model up to the failing packet", case=case,
                                 model=mm, impl=d)
    ctx.notes.append("%d scenarios compared exactly, %d (edits around encrypted packets) compared up to the "
                     "first undecipherable packet" % (len(exact), len(coarse)))


def split_canon(l):
    def one(l, k):
        st, done, ag, si, so, n = l[k:k + 6]
        rx = l[k + 6:k + 6 + 2 * n]
        k2 = k + 6 + 2 * n
        m = l[k2]
        tx = l[k2 + 1:k2 + 1 + 2 * m]
        return {"status": st, "done": done, "agreed": ag, "seqs": (si, so), "rx": rx, "tx": tx}, k2 + 1 + 2 * m
    a, k = one(l, 0)
    b, _ = one(l, k)
    return a, b


def coarse_model(ctx, inputs):
    """Evaluate run_scn in Coq for each input; returns the list of outputs."""
    from common import coq_eval
    if ctx.proof is not None and not ctx.proof.model_ok:
        return [None] * len(inputs)
    sep = -777
    expr = " ++ ".join("(run_scn %s ++ [%d])" % (i, sep) for i in inputs)
    flat = coq_eval("From PV Require Import C09.", expr)
    outs, cur = [], []
    for v in flat:
        if v == sep:
            outs.append(cur)
            cur = []
        else:
            cur.append(v)
    return outs


def replay(ctx, rep):
    import logging
    logging.getLogger("paramiko").setLevel(logging.CRITICAL)
    case = rep.get("case") or {}
    if "kex" not in case:
        return run(ctx)
    script = {}
    for d, i, op in case["script"]:
        script.setdefault((d, i), []).append(tuple(op))
    sc = {"kex": case["kex"], "strict_c": case["strict_c"], "strict_s": case["strict_s"], "script": script,
          "rekey": int(case.get("rekey", 0)), "kind": "replay", "once_c": bool(case.get("once_c")),
          "once_s": bool(case.get("once_s")), "suite": case.get("suite"), "mpos_c": case.get("mpos_c"),
          "mpos_s": case.get("mpos_s"), "preset": dict(case.get("preset") or {}),
          "opts": dict(case.get("opts") or {})}
    obs = run_real(ctx.repo, sc["kex"], sc["strict_c"], sc["strict_s"], script, do_auth=True, do_rekey=sc["rekey"],
                   once_c=sc["once_c"], once_s=sc["once_s"], suite=sc["suite"], mpos_c=sc["mpos_c"],
                   mpos_s=sc["mpos_s"], preset=sc["preset"], opts=sc["opts"])
    ctx.count(("replay", repr(case)))
    ctx.count(("replay2", repr(case)))
    oracle(ctx, sc, obs)
    ctx.sample({"case": case, "client": obs["c"], "server": obs["s"]})
