From PV Require Import Bytes C09 C09_proofs.
Open Scope Z_scope.
Theorem C09_stub : True. Proof. exact c09_stub. Qed.
Print Assumptions C09_stub.
