(* C40 — model of paramiko/config.py: SSHConfig.parse (per-block dictionary building),
   _pattern_matches, _does_match (criteria all / canonical / final / host / originalhost / user /
   localuser), _lookup (both passes), lookup (HostName default), _tokenize / _expand_variables,
   get_hostnames.  Definitions only; proofs are in Proofs/C40_proofs.v.

   The model mirrors the code as REPAIRED by fixes/C40-get-hostnames-match.diff and
   fixes/C40-identityfile-dup-within-block.diff and fixes/C40-expand-hostname-first.diff; the code
   before the repairs is kept as get_hostnames_v0 / merge_kv_v0 / expand_v0 (refuted in Props).

   Fragment (everything else is outside the model and `lookup` answers None for it where it can tell):
   - the text parser (regex line splitting, shlex.split of Host / Match lines, key lower-casing) is
     NOT modelled: a config is given in structured form (blocks of lower-case key / raw value
     lines); the correspondence renders it to text and feeds the real parser;
   - patterns contain no `[` (fnmatch character classes); text is ASCII;
   - Match criteria: all, canonical, final, host, originalhost, user, localuser, exec — exec through the
     environment function e_exec (no process is run; the harness installs a stub as paramiko.config.invoke);
   - canonicalisation (CanonicalizeHostname / CanonicalDomains / CanonicalizeMaxDots /
     CanonicalizeFallbackLocal) is modelled by lookup_full, DNS being the environment function e_resolves;
     CanonicalizeMaxDots must be ASCII digits; no addressfamily key (family-specific getaddrinfo);
     `lookup` / `lookup_raw` are the canonicalisation-free restriction (C40_lookup_full_extends);
   - `port` values have no quote / backslash (repr(port) is the value between single quotes). *)
From PV Require Import Bytes Glob C40_gen.
Open Scope Z_scope.

Definition str := list Z.

Definition s_hostname : str := [104;111;115;116;110;97;109;101].
Definition s_user : str := [117;115;101;114].
Definition s_port : str := [112;111;114;116].
Definition s_identityfile : str := [105;100;101;110;116;105;116;121;102;105;108;101].
Definition s_localforward : str := [108;111;99;97;108;102;111;114;119;97;114;100].
Definition s_remoteforward : str := [114;101;109;111;116;101;102;111;114;119;97;114;100].
Definition s_proxycommand : str := [112;114;111;120;121;99;111;109;109;97;110;100].
Definition s_none : str := [110;111;110;101].
Definition s_canonicalizehostname : str := [99;97;110;111;110;105;99;97;108;105;122;101;104;111;115;116;110;97;109;101].
Definition s_canonicalizemaxdots : str := [99;97;110;111;110;105;99;97;108;105;122;101;109;97;120;100;111;116;115].
Definition s_addressfamily : str := [97;100;100;114;101;115;115;102;97;109;105;108;121].
Definition s_host : str := [104;111;115;116].
Definition s_match : str := [109;97;116;99;104].
Definition s_p22 : str := [50;50].
Definition s_canonicaldomains : str := [99;97;110;111;110;105;99;97;108;100;111;109;97;105;110;115].
Definition s_canonicalizefallbacklocal : str := [99;97;110;111;110;105;99;97;108;105;122;101;102;97;108;108;98;97;99;107;108;111;99;97;108].
Definition s_yes : str := [121;101;115].
Definition s_always : str := [97;108;119;97;121;115].
Definition s_match_exec : str := [109;97;116;99;104;45;101;120;101;99].
Definition s_eq : str := [101;113].
Definition s_ok : str := [111;107].

(* ---- option dictionaries: insertion ordered, like Python dicts -------------------------- *)
Inductive value := VNone | VStr (s : str) | VList (l : list str).
Definition dict := list (str * value).

Fixpoint dget (d : dict) (k : str) : option value :=
  match d with
  | [] => None
  | (k', v) :: r => if zlist_eqb k' k then Some v else dget r k
  end.
Definition dmem (d : dict) (k : str) : bool := match dget d k with Some _ => true | None => false end.
(* d[k] = v : in place when present, appended otherwise *)
Fixpoint dset (d : dict) (k : str) (v : value) : dict :=
  match d with
  | [] => [(k, v)]
  | (k', v') :: r => if zlist_eqb k' k then (k', v) :: r else (k', v') :: dset r k v
  end.

Fixpoint mem_str (x : str) (l : list str) : bool :=
  match l with [] => false | y :: r => zlist_eqb y x || mem_str x r end.

(* ---- parse: the dictionary of one block -------------------------------------------------- *)
Definition lower_char (c : Z) : Z := if (65 <=? c) && (c <=? 90) then c + 32 else c.
Definition lower (s : str) : str := map lower_char s.

(* if value.startswith('"') and value.endswith('"'): value = value[1:-1] *)
Definition unquote (v : str) : str :=
  match v with
  | 34 :: r => match r with
               | [] => []
               | _ :: _ => if last r 0 =? 34 then removelast r else v
               end
  | _ => v
  end.

Definition list_key (k : str) : bool :=
  zlist_eqb k s_identityfile || zlist_eqb k s_localforward || zlist_eqb k s_remoteforward.

Definition parse_line (d : dict) (kv : str * str) : dict :=
  let (k, v) := kv in
  if zlist_eqb k s_proxycommand && zlist_eqb (lower v) s_none then dset d k VNone
  else
    let v := unquote v in
    if list_key k then
      match dget d k with
      | Some (VList l) => dset d k (VList (l ++ [v]))
      | Some _ => d                      (* unreachable: list keys only ever hold lists *)
      | None => dset d k (VList [v])
      end
    else if dmem d k then d else dset d k (VStr v).

Definition block_config (body : list (str * str)) : dict := fold_left parse_line body [].

(* ---- Host patterns --------------------------------------------------------------------- *)
(* _pattern_matches over a list of patterns *)
(* pattern.startswith("!") -> Some pattern[1:] *)
Definition negated (p : str) : option str :=
  match p with c :: q => if c =? 33 then Some q else None | [] => None end.
(* pattern.startswith("!") and fnmatch(target, pattern[1:]) *)
Definition neg_hit (p t : str) : bool :=
  match negated p with Some q => glob q t | None => false end.
Fixpoint pm_from (m : bool) (ps : list str) (t : str) : bool :=
  match ps with
  | [] => m
  | p :: r =>
      if neg_hit p t then false
      else if glob p t then pm_from true r t else pm_from m r t
  end.
Definition pattern_matches (ps : list str) (t : str) : bool := pm_from false ps t.

(* str.split(c) *)
Fixpoint split_on (c : Z) (s : str) : list str :=
  match s with
  | [] => [[]]
  | x :: r =>
      if x =? c then [] :: split_on c r
      else match split_on c r with
           | h :: t => (x :: h) :: t
           | [] => [[x]]
           end
  end.

(* ---- environment (pinned by the harness) -------------------------------------------------- *)
Record env := Env {
  e_user : str;           (* getpass.getuser() *)
  e_gethostname : str;    (* socket.gethostname() *)
  e_fqdn : str;           (* socket.getfqdn() *)
  e_home : str;           (* os.path.expanduser("~") *)
  e_hash : str -> str;    (* sha1(..).hexdigest() — library primitive *)
  e_resolves : str -> bool; (* socket.gethostbyname(name) succeeds — DNS *)
  e_exec : str -> bool    (* invoke.run(cmd, hide="stdout", warn=True).ok — local command *)
}.

(* ---- _tokenize / _expand_variables ---------------------------------------------------------- *)
Definition allowed_tokens (key : str) : list str :=
  match find (fun kv => zlist_eqb (fst kv) key) tokens_by_key with
  | Some kv => snd kv
  | None => []
  end.

Fixpoint take_until (c : Z) (s : str) : str :=
  match s with [] => [] | x :: r => if x =? c then [] else x :: take_until c r end.

(* str.replace for a one-character and a two-character needle *)
Fixpoint replace1 (a : Z) (repl s : str) : str :=
  match s with
  | [] => []
  | x :: r => if x =? a then repl ++ replace1 a repl r else x :: replace1 a repl r
  end.
Fixpoint replace2 (a b : Z) (repl s : str) : str :=
  match s with
  | [] => []
  | x :: s' =>
      match s' with
      | [] => [x]
      | y :: s'' => if (x =? a) && (y =? b) then repl ++ replace2 a b repl s''
                    else x :: replace2 a b repl s'
      end
  end.

(* str(replacements[tok]) for the value being expanded under config key `key` *)
Definition token_text (e : env) (cfg : dict) (target key tok : str) : str :=
  let confhost := if zlist_eqb key s_hostname then target
                  else match dget cfg s_hostname with Some (VStr h) => h | _ => target end in
  let port_text := match dget cfg s_port with Some (VStr p) => p | _ => s_p22 end in
  let port_repr := match dget cfg s_port with Some (VStr p) => 39 :: p ++ [39] | _ => s_p22 end in
  let remoteuser := match dget cfg s_user with Some (VStr u) => u | _ => e_user e end in
  let localhost := take_until 46 (e_gethostname e) in
  match tok with
  | [126] => e_home e
  | [37; c] =>
      if c =? 67 then e_hash e (localhost ++ target ++ port_repr ++ remoteuser)      (* %C *)
      else if c =? 100 then e_home e                                                 (* %d *)
      else if c =? 104 then confhost                                                 (* %h *)
      else if c =? 76 then localhost                                                 (* %L *)
      else if c =? 108 then e_fqdn e                                                 (* %l *)
      else if c =? 110 then target                                                   (* %n *)
      else if c =? 112 then port_text                                                (* %p *)
      else if c =? 114 then remoteuser                                               (* %r *)
      else if c =? 117 then e_user e                                                 (* %u *)
      else []
  | _ => []
  end.

Definition apply_rep (v : str) (fr : str * str) : str :=
  match fst fr with
  | [a] => replace1 a (snd fr) v
  | [a; b] => replace2 a b (snd fr) v
  | _ => v
  end.

(* the replacements that are applied for `key`, in application order *)
Definition replacements (e : env) (cfg : dict) (target key : str) : list (str * str) :=
  map (fun t => (t, token_text e cfg target key t))
      (filter (fun t => mem_str t (allowed_tokens key)) replacement_order).

Definition tokenize (e : env) (cfg : dict) (target key value : str) : str :=
  fold_left apply_rep (replacements e cfg target key) value.

Definition tok_value (e : env) (cfg : dict) (target key : str) (v : value) : value :=
  match v with
  | VNone => VNone
  | VStr s => VStr (tokenize e cfg target key s)
  | VList l => VList (map (tokenize e cfg target key) l)
  end.

(* repaired _expand_variables: `for k in sorted(config, key=lambda k: k != "hostname")`, i.e.
   hostname first, then the other keys in dictionary order, each updated in place, so a key sees the
   expansions made before it (`done`) and the raw values after it (`todo`). *)
Definition expand_hostname (e : env) (target : str) (d : dict) : dict :=
  map (fun kv => if zlist_eqb (fst kv) s_hostname
                 then (fst kv, tok_value e d target s_hostname (snd kv)) else kv) d.
Fixpoint expand_go (e : env) (target : str) (done todo : dict) : dict :=
  match todo with
  | [] => done
  | (k, v) :: r =>
      let v' := if zlist_eqb k s_hostname then v else tok_value e (done ++ todo) target k v in
      expand_go e target (done ++ [(k, v')]) r
  end.
Definition expand (e : env) (target : str) (d : dict) : dict :=
  expand_go e target [] (expand_hostname e target d).

(* before the repair: `for k in config` (dictionary order throughout) *)
Fixpoint expand_go_v0 (e : env) (target : str) (done todo : dict) : dict :=
  match todo with
  | [] => done
  | (k, v) :: r => expand_go_v0 e target (done ++ [(k, tok_value e (done ++ todo) target k v)]) r
  end.
Definition expand_v0 (e : env) (target : str) (d : dict) : dict := expand_go_v0 e target [] d.

(* ---- Match criteria ------------------------------------------------------------------------ *)
Inductive ctype := CAll | CCanonical | CFinal | CHost | COrigHost | CUser | CLocalUser | CExec.
Record crit := Crit { c_type : ctype; c_neg : bool; c_param : str }.

Definition should_fail (would_pass neg : bool) : bool := if neg then would_pass else negb would_pass.

(* `options.get(k, None) or default` *)
Definition or_else (o : option value) (d : str) : str :=
  match o with
  | Some (VStr (x :: s)) => x :: s
  | _ => d
  end.

Fixpoint dm_from (matched : bool) (cs : list crit) (e : env) (target : str)
         (canonical final : bool) (opts : dict) : bool :=
  match cs with
  | [] => matched
  | c :: r =>
      let continue := dm_from true r e target canonical final opts in
      let pats := split_on 44 (c_param c) in
      match c_type c with
      | CCanonical => if should_fail canonical (c_neg c) then false else continue
      | CAll => true
      | CFinal => if should_fail final (c_neg c) then false else continue
      | CHost =>
          if should_fail (pattern_matches pats (or_else (dget opts s_hostname) target)) (c_neg c)
          then false else continue
      | COrigHost =>
          if should_fail (pattern_matches pats target) (c_neg c) then false else continue
      | CUser =>
          if should_fail (pattern_matches pats (or_else (dget opts s_user) (e_user e))) (c_neg c)
          then false else continue
      | CLocalUser =>
          if should_fail (pattern_matches pats (e_user e)) (c_neg c) then false else continue
      | CExec =>
          (* the command is tokenised against the options obtained so far (key "match-exec") *)
          if should_fail (e_exec e (tokenize e opts target s_match_exec (c_param c))) (c_neg c)
          then false else continue
      end
  end.
Definition does_match cs e target canonical final opts : bool :=
  dm_from false cs e target canonical final opts.

(* ---- blocks, _lookup ----------------------------------------------------------------------- *)
Inductive header := HHost (ps : list str) | HMatch (cs : list crit).
Record block := Blk { b_hdr : header; b_body : list (str * str) }.

Definition applies (e : env) (target : str) (canonical final : bool) (opts : dict) (b : block) : bool :=
  match b_hdr b with
  | HHost ps => pattern_matches ps target
  | HMatch cs => does_match cs e target canonical final opts
  end.

Definition as_list (v : value) : list str := match v with VList l => l | _ => [] end.
Definition get_list (d : dict) (k : str) : list str :=
  match dget d k with Some v => as_list v | None => [] end.

(* current.extend(x for x in value if x not in current) *)
Fixpoint dedup_extend (cur new : list str) : list str :=
  match new with
  | [] => cur
  | x :: r => if mem_str x cur then dedup_extend cur r else dedup_extend (cur ++ [x]) r
  end.

(* repaired loop body of _lookup *)
Definition merge_kv (opts : dict) (kv : str * value) : dict :=
  let (k, v) := kv in
  if zlist_eqb k s_identityfile then
    dset opts k (VList (dedup_extend (get_list opts k) (as_list v)))
  else if dmem opts k then opts else dset opts k v.

(* loop body before the repair: the first block's list is copied verbatim *)
Definition merge_kv_v0 (opts : dict) (kv : str * value) : dict :=
  let (k, v) := kv in
  if dmem opts k then
    if zlist_eqb k s_identityfile
    then dset opts k (VList (dedup_extend (get_list opts k) (as_list v)))
    else opts
  else dset opts k v.

Definition apply_block (e : env) (target : str) (canonical final : bool) (opts : dict) (b : block) : dict :=
  if applies e target canonical final opts b
  then fold_left merge_kv (block_config (b_body b)) opts
  else opts.
Definition pass (e : env) (target : str) (canonical final : bool) (cfg : list block) (opts : dict) : dict :=
  fold_left (apply_block e target canonical final) cfg opts.

Definition apply_block_v0 (e : env) (target : str) (canonical final : bool) (opts : dict) (b : block) : dict :=
  if applies e target canonical final opts b
  then fold_left merge_kv_v0 (block_config (b_body b)) opts
  else opts.
Definition pass_v0 e target canonical final (cfg : list block) (opts : dict) : dict :=
  fold_left (apply_block_v0 e target canonical final) cfg opts.

(* ---- lookup --------------------------------------------------------------------------------- *)
Definition excluded_key (k : str) : bool :=
  zlist_eqb k s_canonicalizehostname || zlist_eqb k s_canonicalizemaxdots ||
  zlist_eqb k s_addressfamily || zlist_eqb k s_host || zlist_eqb k s_match.
Definition in_fragment (cfg : list block) : bool :=
  forallb (fun b => forallb (fun kv => negb (excluded_key (fst kv))) (b_body b)) cfg.

(* options after the first pass, with the HostName default injected *)
Definition first_pass (e : env) (cfg : list block) (host : str) : dict :=
  let o1 := pass e host false false cfg [] in
  if dmem o1 s_hostname then o1 else dset o1 s_hostname (VStr host).

(* options after both passes, before token expansion *)
Definition lookup_raw (e : env) (cfg : list block) (host : str) : option dict :=
  if in_fragment cfg
  then Some (pass e host false true cfg (first_pass e cfg host))
  else None.

Definition lookup (e : env) (cfg : list block) (host : str) : option dict :=
  match lookup_raw e cfg host with
  | Some raw => Some (expand e host raw)
  | None => None
  end.

(* ---- lookup with canonicalisation ------------------------------------------------------------- *)
Definition excluded_key2 (k : str) : bool :=
  zlist_eqb k s_addressfamily || zlist_eqb k s_host || zlist_eqb k s_match.
Definition in_fragment2 (cfg : list block) : bool :=
  forallb (fun b => forallb (fun kv => negb (excluded_key2 (fst kv))) (b_body b)) cfg.

(* str.split() : on runs of blanks / tabs *)
Fixpoint split_ws_go (cur : str) (s : str) : list str :=
  match s with
  | [] => match cur with [] => [] | _ => [rev cur] end
  | x :: r => if (x =? 32) || (x =? 9)
              then match cur with [] => split_ws_go [] r | _ => rev cur :: split_ws_go [] r end
              else split_ws_go (x :: cur) r
  end.
Definition split_ws (s : str) : list str := split_ws_go [] s.

(* int(v) for a string of ASCII digits (anything else is outside the fragment) *)
Fixpoint parse_digits_go (acc : Z) (s : str) : option Z :=
  match s with
  | [] => Some acc
  | x :: r => if (48 <=? x) && (x <=? 57) then parse_digits_go (acc * 10 + (x - 48)) r else None
  end.
Definition parse_digits (s : str) : option Z :=
  match s with [] => None | _ => parse_digits_go 0 s end.

Definition canon_on (o : dict) : bool :=
  match dget o s_canonicalizehostname with
  | Some (VStr v) => zlist_eqb v s_yes || zlist_eqb v s_always
  | _ => false
  end.
Definition maxdots (o : dict) : option Z :=
  match dget o s_canonicalizemaxdots with
  | None => Some 1
  | Some (VStr v) => parse_digits v
  | Some _ => None
  end.
Definition count_dots (h : str) : Z := Z.of_nat (length (filter (fun c => c =? 46) h)).

(* SSHConfig.canonicalize: the first domain under which the name resolves *)
Definition canonicalize (e : env) (host : str) (o : dict) (domains : list str) : result str :=
  match find (fun d => e_resolves e (host ++ 46 :: d)) domains with
  | Some d => Ok (host ++ 46 :: d)
  | None =>
      match dget o s_canonicalizefallbacklocal with
      | None => Ok host
      | Some (VStr v) => if zlist_eqb v s_yes then Ok host else Raise SSHExc   (* CouldNotCanonicalize *)
      | Some _ => Raise SSHExc
      end
  end.

(* the second (final) pass: under name t, canonical or not.  In the canonical re-lookup HostName is
   overwritten with t before the blocks are walked again; every other option of the first pass is kept *)
Definition relookup (e : env) (cfg : list block) (host t : str) (c : bool) : dict :=
  pass e t c true cfg
       (if c then dset (first_pass e cfg host) s_hostname (VStr t) else first_pass e cfg host).

Inductive plan := PlanPlain | PlanCanon (t : str) | PlanExn (x : exn) | PlanOut.
Definition plan_of (e : env) (cfg : list block) (host : str) : plan :=
  let o1 := first_pass e cfg host in
  match maxdots o1 with
  | None => PlanOut
  | Some md =>
      if canon_on o1 && (count_dots host <=? md) then
        match dget o1 s_canonicaldomains with
        | None => PlanExn KeyErr                 (* options["canonicaldomains"] *)
        | Some (VStr ds) =>
            match canonicalize e host o1 (split_ws ds) with
            | Ok t => PlanCanon t
            | Raise x => PlanExn x
            end
        | Some _ => PlanOut
        end
      else PlanPlain
  end.

Inductive outcome := Out (d : dict) | Exn (x : exn) | OutOfFragment.
Definition lookup_full (e : env) (cfg : list block) (host : str) : outcome :=
  if in_fragment2 cfg then
    match plan_of e cfg host with
    | PlanPlain => Out (expand e host (relookup e cfg host host false))
    | PlanCanon t => Out (expand e t (relookup e cfg host t true))
    | PlanExn x => Exn x
    | PlanOut => OutOfFragment
    end
  else OutOfFragment.

(* parse: the implicit global block comes first *)
Definition parsed (global : list (str * str)) (blocks : list block) : list block :=
  Blk (HHost [[42]]) global :: blocks.

(* ---- get_hostnames -------------------------------------------------------------------------- *)
Definition block_hosts (b : block) : list str :=
  match b_hdr b with HHost ps => ps | HMatch _ => [] end.
(* repaired: entry.get("host", []) *)
Definition get_hostnames (cfg : list block) : list str := flat_map block_hosts cfg.
(* before the repair: entry["host"] *)
Fixpoint get_hostnames_v0 (cfg : list block) : result (list str) :=
  match cfg with
  | [] => Ok []
  | b :: r => match b_hdr b with
              | HHost ps => bind (get_hostnames_v0 r) (fun l => Ok (ps ++ l))
              | HMatch _ => Raise KeyErr
              end
  end.

(* ---- static applicability (used by the theorems) -------------------------------------------- *)
(* criteria whose outcome does not depend on the options obtained so far nor on the pass *)
Definition static_crit (c : crit) : bool :=
  match c_type c with CAll | CCanonical | COrigHost | CLocalUser => true | _ => false end.
Definition static_block (b : block) : bool :=
  match b_hdr b with HHost _ => true | HMatch cs => forallb static_crit cs end.
Definition applies_static (e : env) (target : str) (b : block) : bool := applies e target false false [] b.

(* value of key k in the first block, in file order, that applies and sets k *)
Definition first_obtained (e : env) (target : str) (cfg : list block) (k : str) : option value :=
  match find (fun b => applies_static e target b && dmem (block_config (b_body b)) k) cfg with
  | Some b => dget (block_config (b_body b)) k
  | None => None
  end.

(* the same with the options evolving along the pass (any criteria) *)
Fixpoint first_from (e : env) (target : str) (canonical final : bool) (cfg : list block) (opts : dict) (k : str)
  : option value :=
  match cfg with
  | [] => None
  | b :: r =>
      if applies e target canonical final opts b then
        match dget (block_config (b_body b)) k with
        | Some v => Some v
        | None => first_from e target canonical final r (apply_block e target canonical final opts b) k
        end
      else first_from e target canonical final r opts k
  end.

(* IdentityFile values of the blocks that apply along a pass, in order *)
Fixpoint collected (e : env) (target : str) (canonical final : bool) (cfg : list block) (opts : dict) : list str :=
  match cfg with
  | [] => []
  | b :: r =>
      if applies e target canonical final opts b then
        get_list (block_config (b_body b)) s_identityfile ++
        collected e target canonical final r (apply_block e target canonical final opts b)
      else collected e target canonical final r opts
  end.

(* ---- closed forms over the config alone ---------------------------------------------------------- *)
Definition keep (o alt : option value) : option value :=
  match o with Some x => Some x | None => alt end.

(* criteria that may depend on the pass (final) but never on the options obtained so far *)
Definition optfree_crit (c : crit) : bool :=
  match c_type c with CHost | CUser | CExec => false | _ => true end.
Definition exec_free_block (b : block) : bool :=
  match b_hdr b with
  | HHost _ => true
  | HMatch cs => forallb (fun c => match c_type c with CExec => false | _ => true end) cs
  end.
Definition optfree_block (b : block) : bool :=
  match b_hdr b with HHost _ => true | HMatch cs => forallb optfree_crit cs end.
(* first block, in file order, that applies in the given pass and sets k *)
Definition first_obtained_in (e : env) (target : str) (final : bool) (cfg : list block) (k : str) : option value :=
  match find (fun b => applies e target false final [] b && dmem (block_config (b_body b)) k) cfg with
  | Some b => dget (block_config (b_body b)) k
  | None => None
  end.

(* Match host / user look at two options only: HostName and User.  `oh` / `ou` are the values of
   these two options obtained so far (None = not yet set). *)
Definition mini (oh ou : option value) : dict :=
  match oh with Some v => [(s_hostname, v)] | None => [] end ++
  match ou with Some v => [(s_user, v)] | None => [] end.
Definition applies_hu (e : env) (target : str) (canonical final : bool) (oh ou : option value) (b : block) : bool :=
  applies e target canonical final (mini oh ou) b.
(* value of k in the first block that applies and sets k, where applicability is decided with the
   HostName / User values of the earlier applying blocks — a function of the config alone *)
Fixpoint sel (e : env) (target : str) (canonical final : bool) (cfg : list block) (oh ou : option value) (k : str)
  : option value :=
  match cfg with
  | [] => None
  | b :: r =>
      if applies_hu e target canonical final oh ou b then
        match dget (block_config (b_body b)) k with
        | Some v => Some v
        | None => sel e target canonical final r
                      (keep oh (dget (block_config (b_body b)) s_hostname))
                      (keep ou (dget (block_config (b_body b)) s_user)) k
        end
      else sel e target canonical final r oh ou k
  end.
(* IdentityFile values of the applying blocks, same bookkeeping *)
Fixpoint coll (e : env) (target : str) (canonical final : bool) (cfg : list block) (oh ou : option value) : list str :=
  match cfg with
  | [] => []
  | b :: r =>
      if applies_hu e target canonical final oh ou b then
        get_list (block_config (b_body b)) s_identityfile ++
        coll e target canonical final r
             (keep oh (dget (block_config (b_body b)) s_hostname))
             (keep ou (dget (block_config (b_body b)) s_user))
      else coll e target canonical final r oh ou
  end.

Inductive Subseq {A : Type} : list A -> list A -> Prop :=
| S_nil : Subseq [] []
| S_skip x a b : Subseq a b -> Subseq a (x :: b)
| S_keep x a b : Subseq a b -> Subseq (x :: a) (x :: b).

(* ---- token segments (used by C40_tokens) ---------------------------------------------------- *)
Inductive seg := Ch (c : Z) | Tok (c : Z) | Tilde.
Definition render_seg (s : seg) : str :=
  match s with Ch c => [c] | Tok c => [37; c] | Tilde => [126] end.
Definition render (l : list seg) : str := flat_map render_seg l.
Definition clean_char (c : Z) : bool := negb (c =? 37) && negb (c =? 126).
Definition clean (s : str) : bool := forallb clean_char s.
Definition seg_wf (s : seg) : bool :=
  match s with Ch c => clean_char c | Tok c => clean_char c | Tilde => true end.
(* the expansion of one segment under config key `key` *)
Definition expand_seg (e : env) (cfg : dict) (target key : str) (s : seg) : str :=
  match s with
  | Ch c => [c]
  | Tok c => if mem_str [37; c] (allowed_tokens key) then token_text e cfg target key [37; c] else [37; c]
  | Tilde => if mem_str [126] (allowed_tokens key) then e_home e else [126]
  end.

(* every text substituted under `key` is itself free of % and ~ *)
Definition texts_clean (e : env) (cfg : dict) (target key : str) : bool :=
  forallb (fun tok => clean (token_text e cfg target key tok)) replacement_order.

(* ---- canonical encodings for the correspondence ---------------------------------------------- *)
Definition zlen {A} (l : list A) : Z := Z.of_nat (length l).
Definition enc_str (s : str) : list Z := zlen s :: s.
Definition enc_value (v : value) : list Z :=
  match v with
  | VNone => [0]
  | VStr s => 1 :: enc_str s
  | VList l => 2 :: zlen l :: flat_map enc_str l
  end.

Fixpoint str_leb (a b : str) : bool :=
  match a, b with
  | [], _ => true
  | _ :: _, [] => false
  | x :: a', y :: b' => if x <? y then true else if y <? x then false else str_leb a' b'
  end.
Fixpoint insert_sorted {A} (key : A -> str) (x : A) (l : list A) : list A :=
  match l with
  | [] => [x]
  | y :: r => if str_leb (key x) (key y) then x :: l else y :: insert_sorted key x r
  end.
Definition sort_by {A} (key : A -> str) (l : list A) : list A := fold_right (insert_sorted key) [] l.
Fixpoint dedup_adj (l : list str) : list str :=
  match l with
  | x :: ((y :: _) as r) => if zlist_eqb x y then dedup_adj r else x :: dedup_adj r
  | _ => l
  end.

Definition enc_dict (d : dict) : list Z :=
  flat_map (fun kv => enc_str (fst kv) ++ enc_value (snd kv)) (sort_by fst d).

(* toy digest installed as paramiko.config.sha1 by the harness: h = (h*31 + b) mod 2^32 from 7,
   eight lower-case hex digits *)
Definition hexdigit (n : Z) : Z := if n <? 10 then 48 + n else 87 + n.
Definition toyhash (s : str) : str :=
  let h := fold_left (fun h b => (h * 31 + b) mod 4294967296) s 7 in
  map (fun i => hexdigit ((h / 16 ^ i) mod 16)) [7; 6; 5; 4; 3; 2; 1; 0].

(* stub installed as paramiko.config.invoke by the harness: `eq A B` succeeds iff A = B, `ok ...`
   succeeds, everything else fails *)
Definition exec_stub (cmd : str) : bool :=
  match split_ws cmd with
  | w :: a :: b :: [] => if zlist_eqb w s_eq then zlist_eqb a b else zlist_eqb w s_ok
  | w :: _ => zlist_eqb w s_ok
  | [] => false
  end.

Definition envt := (str * str * str * str * list str)%type.
Definition mkenv (t : envt) : env :=
  let '(u, gh, fq, home, res) := t in Env u gh fq home toyhash (fun n => mem_str n res) exec_stub.

Definition run_lookup (c : envt * list (str * str) * list block * str) : list Z :=
  let '(t, global, blocks, host) := c in
  match lookup_full (mkenv t) (parsed global blocks) host with
  | Out d => 0 :: enc_dict d
  | Exn x => [exn_code x]
  | OutOfFragment => [-1]
  end.

Definition run_hostnames (c : list (str * str) * list block) : list Z :=
  let (global, blocks) := c in
  flat_map enc_str (dedup_adj (sort_by (fun s => s) (get_hostnames (parsed global blocks)))).

Definition run_hostnames_v0 (c : list (str * str) * list block) : list Z :=
  let (global, blocks) := c in
  match get_hostnames_v0 (parsed global blocks) with
  | Ok l => 0 :: flat_map enc_str (dedup_adj (sort_by (fun s => s) l))
  | Raise x => [exn_code x]
  end.

(* a block's IdentityFile list up to repeats (a parser may or may not keep them; lookups cannot tell) *)
Definition norm_block (d : dict) : dict :=
  map (fun kv => if zlist_eqb (fst kv) s_identityfile
                 then (fst kv, VList (dedup_extend [] (as_list (snd kv)))) else kv) d.

(* one case per config: the parsed dictionary of every block, get_hostnames, then one lookup per host *)
Definition run_config (c : envt * list (str * str) * list block * list str) : list Z :=
  let '(t, global, blocks, hosts) := c in
  let hn := run_hostnames (global, blocks) in
  flat_map (fun b => let r := enc_dict (norm_block (block_config (b_body b))) in zlen r :: r) (parsed global blocks) ++
  zlen hn :: hn ++ flat_map (fun h => let r := run_lookup (t, global, blocks, h) in zlen r :: r) hosts.

Definition run_glob (c : str * str) : list Z := [if glob (fst c) (snd c) then 1 else 0].
Definition run_pattern_matches (c : list str * str) : list Z :=
  [if pattern_matches (fst c) (snd c) then 1 else 0].

(* _pattern_matches on a pattern list, and fnmatch on its first pattern *)
Definition run_match (c : list str * str) : list Z :=
  [if pattern_matches (fst c) (snd c) then 1 else 0; if glob (hd [] (fst c)) (snd c) then 1 else 0].

(* ---- compact case literals: a string travels as one number (0x01 followed by its bytes) -------- *)
Fixpoint unz_go (fuel : nat) (n : Z) (acc : str) : str :=
  match fuel with
  | O => acc
  | S f => if n <=? 1 then acc else unz_go f (n / 256) (n mod 256 :: acc)
  end.
Definition unz (n : Z) : str := unz_go (Z.to_nat (Z.min 4096 (Z.log2 n / 8 + 1))) n [].
Inductive zhdr := ZHost (ps : list Z) | ZMatch (cs : list (ctype * bool * Z)).
Definition unz_body (b : list (Z * Z)) : list (str * str) := map (fun kv => (unz (fst kv), unz (snd kv))) b.
Definition unz_block (zb : zhdr * list (Z * Z)) : block :=
  Blk (match fst zb with
       | ZHost ps => HHost (map unz ps)
       | ZMatch cs => HMatch (map (fun c => Crit (fst (fst c)) (snd (fst c)) (unz (snd c))) cs)
       end) (unz_body (snd zb)).
Definition run_config_z (c : (Z * Z * Z * Z * list Z) * list (Z * Z) * list (zhdr * list (Z * Z)) * list Z) : list Z :=
  let '((u, gh, fq, home, res), global, blocks, hosts) := c in
  run_config ((unz u, unz gh, unz fq, unz home, map unz res), unz_body global, map unz_block blocks, map unz hosts).
Definition run_match_z (c : list Z * Z) : list Z := run_match (map unz (fst c), unz (snd c)).
