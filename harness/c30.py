"""C30 — every SFTP request completes with exactly one well-formed response; clients never block forever.

Proof: coq/Props/C30_props.v over coq/Model/C30.v (numbers from gen/c30.py).
Tie: (1) the real SFTPServer.start_subsystem / _process driven directly with a scripted packet source, a
recording _send_packet and a scripted SFTPServerInterface, against run_server (vm_compute in Coq);
(2) the real SFTPClient / SFTPFile over a byte-level scripted socket (exact replies, scripted
recv_ready(); an exhausted socket = "the call would block forever"), against run_client;
(3) real client against a real in-process server over a Transport pair, programs interleaving
pipelined writes with stat / listdir / read on the same session, under a watchdog.
Oracle: exactly one response per request, same id, type valid for the request; no call blocks.
"""
import io
import os
import re
import shutil
import socket
import struct
import tempfile
import threading
import time

from common import coq, with_watchdog

PID = "C30"
LEVEL_TEXT = ("Machine-checked proof (Coq, closed under the global context): over the model of SFTPServer._process "
              "and the start_subsystem fall-back, every request (any packet type, id, handle, extended name, callback "
              "result or exception) gets exactly one packet with its id and a type valid for it, failures being STATUS "
              "packets, for every request stream; over the model of the client's request bookkeeping "
              "(_async_request/_read_response/_request, SFTPFile._write drain/_close) no operation of any program "
              "of pipelined or plain writes, synchronous requests, set_pipelined and close ever waits once the "
              "server has replied to every request.  Both models are tied to the source by differential runs of "
              "the model's own definitions (vm_compute) against the real classes on generated streams every run.")
LEVEL_NOTE = ("Trusted: Coq kernel + vm_compute; hand-written model coq/Model/C30.v validated by the correspondence "
              "runs; which digests _check_file computes is C32's (only its response discipline is modelled here); prefetch registrations "
              "(fileobj = the file) and their _async_response path are C28's and not in the client model; "
              "socket/Channel/thread timing is exercised only by the watchdog runs; request numbers < 2^32.")
TECHNIQUE = "Coq proof (case analysis / invariants over request streams and client programs) + vm_compute differential correspondence + watchdog runs"
GENS = ["c30"]

CMD = dict(INIT=1, VERSION=2, OPEN=3, CLOSE=4, READ=5, WRITE=6, LSTAT=7, FSTAT=8, SETSTAT=9, FSETSTAT=10,
           OPENDIR=11, READDIR=12, REMOVE=13, MKDIR=14, RMDIR=15, REALPATH=16, STAT=17, RENAME=18, READLINK=19,
           SYMLINK=20, STATUS=101, HANDLE=102, DATA=103, NAME=104, ATTRS=105, EXTENDED=200, EXTENDED_REPLY=201)
NAME_OF = {v: k.lower() for k, v in CMD.items()}
TEXT_CMDS = {3, 13, 18, 14, 15, 11, 17, 7, 9, 19, 20, 16, 200}
HANDLE_CMDS = {4, 5, 6, 12, 8, 10}


def valid_types(t):
    """The specification, stated independently of the model: response types allowed for request type t."""
    ok = {CMD["STATUS"]}
    if t in (CMD["OPEN"], CMD["OPENDIR"]):
        ok.add(CMD["HANDLE"])
    if t == CMD["READ"]:
        ok.add(CMD["DATA"])
    if t in (CMD["READDIR"], CMD["READLINK"], CMD["REALPATH"]):
        ok.add(CMD["NAME"])
    if t in (CMD["STAT"], CMD["LSTAT"], CMD["FSTAT"]):
        ok.add(CMD["ATTRS"])
    if t == CMD["EXTENDED"]:
        ok.add(CMD["EXTENDED_REPLY"])
    return ok


# --------------------------------------------------------------------------------------------
# 1. server: direct drive of start_subsystem / _process


class _FakeTransport:
    def get_log_channel(self):
        return "paramiko.verif"

    def get_hexdump(self):
        return False


class _FakeChannel:
    def get_transport(self):
        return _FakeTransport()

    def get_name(self):
        return "0"


class _EndOfScript(EOFError):
    pass


def hnum(h):
    m = re.match(rb"^hx([1-9]\d*)$", h)
    return int(m.group(1)) if m else -1


def make_server_classes():
    import paramiko
    from paramiko import SFTPAttributes, SFTPHandle, SFTPServerInterface

    class Handle(SFTPHandle):
        def __init__(self, si):
            SFTPHandle.__init__(self)
            self.si = si

        def close(self):
            self.si.out(closing=True)

        def read(self, offset, length):
            si = self.si
            if si.cf is None:
                return si.out()
            # inside _check_file: the scripted result for this read position; what was actually
            # returned is recorded and handed to the model as its oracle input
            pos = len(si.cf_rec)
            if pos > 3000:
                # far more reads than any range here needs (<= 600): the loop does not advance.  Cut it off
                # (the thread would spin for ever) and let the oracle report it.
                si.runaway = si.req_index
                raise RuntimeError("runaway read loop cut off by the harness")
            act = si.cf["script"].get(pos, "full")
            blob = si.cf["blob"]
            if act == "full":
                data = blob[offset:offset + length]
            elif act == "eof":
                data = b""
            elif act[0] == "short":
                data = blob[offset:offset + min(length, act[1])]
            elif act[0] == "code":
                si.cf_rec.append(("RdCode", act[1]))
                return act[1]
            elif act[0] == "str":
                si.cf_rec.append(("RdStr", act[1]))
                return "s" * act[1]
            elif act == "other":
                si.cf_rec.append(("RdOther",))
                return None
            else:
                si.cf_rec.append(("RdRaise",))
                raise ValueError("scripted read failure")
            si.cf_rec.append(("RdBytes", len(data)))
            return data

        def write(self, offset, data):
            return self.si.out()

        def stat(self):
            si = self.si
            if si.cf is None:
                return si.out()
            cb = si.cf["stat"]
            if cb[0] == "CbAttr":
                a = SFTPAttributes()
                a.st_size = si.cf["size"]
                return a
            if cb[0] == "CbCode":
                return cb[1]
            if cb[0] == "CbBytes":
                return (b"x" * cb[1]) if cb[1] % 2 == 0 else ("x" * cb[1])
            if cb[0] == "CbRaise":
                raise ValueError("scripted stat failure")
            if cb[0] == "CbHandle":
                return self
            if cb[0] == "CbList":
                return []
            return None

        def chattr(self, attr):
            return self.si.out()

    class SI(SFTPServerInterface):
        def __init__(self, server, *a, **k):
            self.cur = ("CbOther",)
            self.cf = None          # check-file script of the current request
            self.cf_rec = []
            self.runaway = False
            self.calls = 0

        def out(self, closing=False):
            self.calls += 1
            cb = self.cur
            k = cb[0]
            if k == "CbRaise":
                raise ValueError("scripted callback failure")
            if closing:
                return None
            if k == "CbCode":
                return cb[1]
            if k == "CbAttr":
                a = SFTPAttributes()
                a.st_size = 5
                return a
            if k == "CbHandle":
                return Handle(self)
            if k == "CbBytes":
                return (b"d" * cb[1]) if cb[1] % 2 == 0 else ("d" * cb[1])
            if k == "CbList":
                res = []
                for i in range(cb[1]):
                    a = SFTPAttributes()
                    a.filename = "f%d" % i
                    a.st_size = i
                    res.append(a)
                return res
            return None

        def list_folder(self, path): return self.out()
        def stat(self, path): return self.out()
        def lstat(self, path): return self.out()
        def open(self, path, flags, attr): return self.out()
        def remove(self, path): return self.out()
        def rename(self, a, b): return self.out()
        def posix_rename(self, a, b): return self.out()
        def mkdir(self, path, attr): return self.out()
        def rmdir(self, path): return self.out()
        def chattr(self, path, attr): return self.out()
        def canonicalize(self, path): return self.out()
        def readlink(self, path): return self.out()
        def symlink(self, a, b): return self.out()

    return paramiko.SFTPServer, SI


def s_str(b):
    return struct.pack(">I", len(b)) + b


def encode_request(q):
    """q: dict(t, id, text_ok, hbytes, tag, shape).  Returns the packet payload after the type byte."""
    t = q["t"]
    body = struct.pack(">I", q["id"])
    if q["shape"] == "truncated":
        return body
    if q["shape"] == "junk":
        return body + q["junk"]
    path = b"/some/path" if q["text_ok"] else b"/bad\xff\xfe"
    attrs0 = struct.pack(">I", 0)
    h = q["hbytes"]
    if t == 3:
        return body + s_str(path) + struct.pack(">I", 0x1a) + attrs0
    if t in (4, 12, 8):
        return body + s_str(h)
    if t == 5:
        return body + s_str(h) + struct.pack(">QI", 0, 10)
    if t == 6:
        return body + s_str(h) + struct.pack(">Q", 0) + s_str(b"data")
    if t == 10:
        return body + s_str(h) + attrs0
    if t in (13, 15, 11, 17, 7, 19, 16):
        return body + s_str(path)
    if t in (18, 20):
        return body + s_str(b"/a") + s_str(path)
    if t in (14, 9):
        return body + s_str(path) + attrs0
    if t == 200:
        tag = q["tag"]
        if tag == 0:
            name = b"check-file" if q["text_ok"] else b"check-file\xff"
            return (body + s_str(name) + s_str(h) + s_str(q["algs"]) +
                    struct.pack(">QQI", q["cf_start"], q["cf_len"], q["cf_block"]))
        if tag == 1:
            name = b"posix-rename@openssh.com"
            return body + s_str(name) + s_str(b"/a") + s_str(path)
        name = b"statvfs@openssh.com" if q["text_ok"] else b"\xff\xfe"
        return body + s_str(name) + s_str(path)
    return body + s_str(path)


def parse_response(t, payload):
    """(type, id, detail) as in the model."""
    rid = struct.unpack(">I", payload[:4])[0] if len(payload) >= 4 else -1
    rest = payload[4:]
    det = 0
    try:
        if t == 101:
            det = struct.unpack(">I", rest[:4])[0]
        elif t == 102:
            n = struct.unpack(">I", rest[:4])[0]
            det = hnum(rest[4:4 + n])
        elif t == 103:
            det = struct.unpack(">I", rest[:4])[0]
        elif t == 104:
            det = struct.unpack(">I", rest[:4])[0]
    except struct.error:
        det = -2
    return (t, rid, det)


def drive_server(reqs):
    """Run the real start_subsystem over the scripted requests.  Returns (per-request packet lists, cf outs)."""
    SFTPServer, SI = make_server_classes()
    srv = SFTPServer(_FakeChannel(), "sftp", None, SI)
    si = srv.server
    sent = []
    state = {"i": -1}
    cf_out = {}

    def read_packet():
        if state["i"] >= 1 and si.cf is not None:
            cf_out[state["i"]] = list(si.cf_rec)
        state["i"] += 1
        i = state["i"]
        if i == 0:
            return CMD["INIT"], struct.pack(">I", 3)
        if i > len(reqs):
            raise _EndOfScript()
        q = reqs[i - 1]
        si.cur = q["cb"]
        si.cf = q.get("cf") if (q["t"] == 200 and q["tag"] == 0 and q["shape"] == "normal") else None
        si.cf_rec = []
        si.req_index = i
        return q["t"], encode_request(q)

    def send_packet(t, msg):
        sent.append((state["i"], t, msg.asbytes()))

    srv._read_packet = read_packet
    srv._send_packet = send_packet
    died = None
    try:
        srv.start_subsystem("sftp", None, _FakeChannel())
    except Exception as e:  # noqa - the serving loop itself died: nothing is answered any more
        died = "%s: %s" % (type(e).__name__, e)
    per = [[] for _ in reqs]
    for i, t, p in sent:
        if i >= 1:
            per[i - 1].append(parse_response(t, p))
    consumed = state["i"]
    if si.runaway:
        died = (died + "; " if died else "") + "the check-file request made more than 3000 handle.read calls " \
            "without advancing (runaway loop cut off by the harness: the server would never answer it nor read " \
            "another request)"
        consumed = si.runaway
    return per, cf_out, consumed, died


CB_SENSIBLE = {
    3: ["CbHandle", "CbCode"], 4: ["CbOther", "CbRaise"], 5: ["CbBytes", "CbCode"], 6: ["CbCode"],
    13: ["CbCode"], 18: ["CbCode"], 14: ["CbCode"], 15: ["CbCode"], 11: ["CbList", "CbCode"],
    12: ["CbOther"], 17: ["CbAttr", "CbCode"], 7: ["CbAttr", "CbCode"], 8: ["CbAttr", "CbCode"],
    9: ["CbCode"], 10: ["CbCode"], 19: ["CbBytes", "CbCode"], 20: ["CbCode"], 16: ["CbBytes"],
    200: ["CbCode"],
}


def gen_cb(rng, t):
    if rng.random() < 0.8 and t in CB_SENSIBLE:
        k = rng.choice(CB_SENSIBLE[t])
    else:
        k = rng.choice(["CbCode", "CbAttr", "CbHandle", "CbBytes", "CbList", "CbRaise", "CbOther"])
    if k == "CbCode":
        c = rng.choice([0, 0, 0, 1, 2, 3, 4, 5, 8, 8, 9, 100, -1, -9, -10, 2 ** 32 - 1, 2 ** 32, rng.randrange(0, 9)])
        return ("CbCode", c)
    if k == "CbBytes":
        return ("CbBytes", rng.choice([0, 1, 2, 5, 6]))
    if k == "CbList":
        return ("CbList", rng.choice([0, 1, 3, 16, 17, 33]))
    return (k,)


def gen_stream(rng, n):
    """A request stream with bookkeeping of the handles the server has given out (by construction:
    the k-th successful OPEN/OPENDIR gets hx<k>)."""
    reqs = []
    files, folders, closed = [], [], []
    nxt = 1
    for _ in range(n):
        r = rng.random()
        if r < 0.12:
            t = rng.choice([0, 1, 2, 21, 22, 50, 100, 101, 102, 103, 104, 105, 106, 199, 201, 202, 255,
                            rng.randrange(256)])
        elif r < 0.24:
            t = 200
        elif r < 0.40:
            t = rng.choice([3, 11])
        else:
            t = rng.choice(list(range(3, 21)))
        q = {"t": t, "id": rng.choice([0, 1, 2 ** 32 - 1, rng.randrange(2 ** 32), rng.randrange(1000)]),
             "text_ok": rng.random() < 0.9, "tag": 2, "shape": "normal", "cb": gen_cb(rng, t),
             "algs": b"md5", "cf_start": 0, "cf_len": 0, "cf_block": 0}
        # handle choice
        hr = rng.random()
        pool = files if t != 12 else folders
        if t in (4,) and rng.random() < 0.4:
            pool = folders or files
        if hr < 0.6 and pool:
            h = b"hx%d" % rng.choice(pool)
        elif hr < 0.75 and (files or folders):
            h = b"hx%d" % rng.choice(files + folders)      # possibly the wrong table
        elif hr < 0.85 and closed:
            h = b"hx%d" % rng.choice(closed)
        else:
            h = rng.choice([b"", b"nope", b"hx", b"hx0", b"hx999", b"hx01", b"HX1", b"\xff\x00"])
        q["hbytes"] = h
        if t == 200:
            q["tag"] = rng.choice([0, 0, 1, 2])
            if q["tag"] == 0:
                q["algs"] = rng.choice([b"md5", b"sha1", b"sha1,md5", b"md5", b"sha1", b"crc32", b"", b"md5,\xff",
                                        b"crc32,sha1", b"md5x"])
                big = rng.random() < 0.08
                blob = bytes((7 * k + 3) % 256 for k in range(256)) * (600 if big else 8)
                bn = len(blob)
                q["cf_start"] = rng.choice([0, 0, 0, 1, 100, 512, bn - 1, bn, bn + 1000])
                q["cf_len"] = rng.choice([0, 0, 256, 1024, max(1, bn - q["cf_start"]), bn, 5000, 2 ** 40,
                                          rng.randrange(1, bn + 1)])
                q["cf_block"] = rng.choice([0, 0, 256, 300, 1024, 1, 255, 70000])
                script = {}
                if rng.random() < 0.7:
                    # one misbehaving read at a chosen position (every position of an 8-block range is reachable)
                    pos = rng.randrange(0, 10)
                    script[pos] = rng.choice([("code", rng.choice([1, 2, 3, 4, 5, 8, 9, -1, 2 ** 32])), ("code", 3),
                                              ("short", rng.choice([1, 100, 255])), "eof", ("str", 4), "other", "raise"])
                    if rng.random() < 0.3:
                        script[rng.randrange(0, 10)] = ("short", rng.choice([1, 17]))
                stat = rng.choice([("CbAttr",), ("CbAttr",), ("CbAttr",), ("CbCode", rng.choice([2, 3, 4, -1])),
                                   ("CbRaise",), ("CbOther",), ("CbBytes", rng.choice([0, 3, 4])), ("CbHandle",)])
                size = rng.choice([bn, bn, bn, 0, q["cf_start"], max(0, q["cf_start"] - 5), bn + 4000])
                q["cf"] = {"blob": blob, "script": script, "stat": stat, "size": size}
        sh = rng.random()
        if sh < 0.05:
            q["shape"] = "truncated"
        elif sh < 0.08 and t not in CMD.values():
            q["shape"] = "junk"
            q["junk"] = bytes(rng.randrange(256) for _ in range(rng.randrange(0, 12)))
        # what the model is told about this request
        if q["shape"] == "truncated":
            q["text_ok"] = True
            q["hbytes"] = b""
            if t == 200:
                q["tag"] = 2            # empty extended name
        # predict handle bookkeeping exactly as the protocol defines it (names hx<n> in order)
        q["h"] = hnum(q["hbytes"])
        q["hv"] = (q["h"] in folders) if t == 12 else (q["h"] in files or (t == 4 and q["h"] in folders))
        reqs.append(q)
        named = t in CMD.values()
        ok_text = q["text_ok"]
        if named and t == 3 and ok_text and q["cb"][0] == "CbHandle":
            files.append(nxt)
            nxt += 1
        elif named and t == 11 and ok_text and q["cb"][0] == "CbList":
            folders.append(nxt)
            nxt += 1
        elif named and t == 4:
            hn = q["h"]
            if hn in folders:
                folders.remove(hn)
                closed.append(hn)
            elif hn in files and q["cb"][0] != "CbRaise":
                files.remove(hn)
                closed.append(hn)
    return reqs


def _cf_req(rid, h, blob, start, length, block, script, stat=("CbAttr",), size=None, algs=b"md5"):
    return {"t": 200, "id": rid, "text_ok": True, "tag": 0, "shape": "normal", "cb": ("CbOther",), "algs": algs,
            "cf_start": start, "cf_len": length, "cf_block": block, "hbytes": h, "h": hnum(h), "hv": h == b"hx1",
            "cf": {"blob": blob, "script": script, "stat": stat, "size": len(blob) if size is None else size}}


def _open_req(rid):
    return {"t": 3, "id": rid, "text_ok": True, "tag": 2, "shape": "normal", "cb": ("CbHandle",), "algs": b"md5",
            "cf_start": 0, "cf_len": 0, "cf_block": 0, "hbytes": b"", "h": -1, "hv": False}


CF_ACTIONS = [("code", 3), ("code", 4), ("code", 1), ("code", -1), ("short", 1), ("short", 100), "eof", ("str", 4),
              "other", "raise"]


def cf_systematic_streams():
    """check-file on a valid handle: a 2048-byte file hashed in 8 blocks of 256, each kind of misbehaving
    read at EVERY read position (0..8); plus one block needing three 64 KiB reads, each failing in turn."""
    blob = bytes((7 * k + 3) % 256 for k in range(256)) * 8
    big = bytes((5 * k + 1) % 256 for k in range(256)) * 600
    streams = []
    for act in CF_ACTIONS:
        reqs = [_open_req(1)]
        for pos in range(9):
            reqs.append(_cf_req(100 + pos, b"hx1", blob, 0, 2048 if pos % 2 else 0, 256, {pos: act}))
        for pos in range(3):
            reqs.append(_cf_req(200 + pos, b"hx1", big, 0, len(big), 0, {pos: act}))
        streams.append(reqs)
    return streams


def gen_cf_stream(rng):
    """Random check-file requests on a valid handle (and a few on invalid ones)."""
    reqs = [_open_req(rng.randrange(2 ** 32))]
    for _ in range(rng.randrange(3, 12)):
        bigf = rng.random() < 0.1
        blob = bytes((7 * k + 3) % 256 for k in range(256)) * (600 if bigf else rng.choice([1, 4, 8]))
        bn = len(blob)
        start = rng.choice([0, 0, 0, 1, 100, 255, bn - 1, bn, bn + 1000])
        length = rng.choice([0, 0, 256, 1024, max(1, bn - start), bn, 5000, 2 ** 40, rng.randrange(1, bn + 1)])
        block = rng.choice([0, 0, 256, 256, 300, 1024, 1, 255, 70000])
        script = {}
        if rng.random() < 0.75:
            script[rng.randrange(0, 10)] = rng.choice(CF_ACTIONS)
        if rng.random() < 0.3:
            script.setdefault(rng.randrange(0, 10), ("short", rng.choice([1, 17])))
        stat = rng.choice([("CbAttr",)] * 5 + [("CbCode", rng.choice([2, 3, 4, -1])), ("CbRaise",), ("CbOther",),
                                                ("CbBytes", rng.choice([0, 3, 4])), ("CbHandle",)])
        size = rng.choice([bn, bn, bn, 0, start, max(0, start - 5), bn + 4000])
        h = b"hx1" if rng.random() < 0.9 else rng.choice([b"hx2", b"", b"nope"])
        algs = rng.choice([b"md5", b"sha1", b"sha1,md5", b"crc32,sha1", b"md5", b"crc32", b"", b"md5,\xff"])
        reqs.append(_cf_req(rng.randrange(2 ** 32), h, blob, start, length, block, script, stat, size, algs))
    return reqs


def coq_req(q, rec):
    """rec: the results of the handle.read calls _check_file actually made (oracle input of the model)."""
    if q["t"] == 200 and q["tag"] == 0 and "cf" in q and q["shape"] == "normal":
        algs = q["algs"]
        try:
            names = algs.decode("utf-8").split(",")
            list_ok = True
        except UnicodeDecodeError:
            names, list_ok = [], False
        alg_ok = any(x in ("md5", "sha1") for x in names)
        cf = "(mkCf %s)" % " ".join(coq(x) for x in (list_ok, alg_ok, q["cf_start"], q["cf_len"], q["cf_block"],
                                                     q["cf"]["stat"], q["cf"]["size"], [tuple(r) for r in rec or []]))
    else:
        cf = "cf_none"
    return "(mkReq %s %s)" % (" ".join(coq(x) for x in (q["t"], q["id"], q["text_ok"], q["h"], q["tag"], q["cb"])), cf)


def server_part(ctx, nstreams):
    rng = ctx.rng
    cases = []
    metas = []
    fixed = cf_systematic_streams()
    hangs = 0
    for s in range(nstreams + len(fixed)):
        if s < len(fixed):
            reqs = fixed[s]
        elif s % 4 == 0:
            reqs = gen_cf_stream(rng)
        else:
            reqs = gen_stream(rng, rng.randrange(4, 16))
        if hangs >= 2:
            break               # hung serving threads cannot be stopped; two concrete streams are enough
        st, res = with_watchdog(lambda: drive_server(reqs), 10.0)
        if st == "hang":
            hangs += 1
            ctx.fail("server-stops-answering", "SFTPServer.start_subsystem did not finish a scripted request stream",
                     case={"reqs": [(q["t"], q["id"], q["hbytes"], q["cb"]) for q in reqs]})
            continue
        if st == "exc":
            raise res
        per, cf_out, consumed, died = res
        if died is not None or consumed != len(reqs) + 1:
            k = max(0, min(consumed, len(reqs)) - 1)
            ctx.fail("server-stops-answering",
                     "the serving loop of SFTPServer.start_subsystem ended at request %d (type %d, id %d) of the "
                     "stream%s: that request and every later one get no response"
                     % (k, reqs[k]["t"], reqs[k]["id"], " with " + died if died else ""),
                     case={"request_stream": [(q["t"], q["id"], q["hbytes"], q["cb"], q["text_ok"], q["tag"],
                                               q["shape"]) for q in reqs[:k + 1]],
                           "stopped_at": k,
                           "check_file": None if "cf" not in reqs[k] else {
                               "start": reqs[k]["cf_start"], "length": reqs[k]["cf_len"],
                               "block_size": reqs[k]["cf_block"], "file_size": len(reqs[k]["cf"]["blob"]),
                               "read_script": sorted(reqs[k]["cf"]["script"].items())}},
                     expected="%d requests answered" % len(reqs), observed="%d requests read; %s" % (consumed - 1, died))
            reqs = reqs[:k + 1]
            per = per[:k + 1]
        flat = []
        for i, (q, packets) in enumerate(zip(reqs, per)):
            t = q["t"]
            nm = NAME_OF.get(t, "type%d" % t)
            hv = "valid-handle" if q["hv"] else "invalid-handle"
            cls = nm + ("-" + hv if t in HANDLE_CMDS else "") + ("-tag%d" % q["tag"] if t == 200 else "")
            ctx.count(("srv", t, q["id"], q["hbytes"], q["cb"], q["text_ok"], q["tag"], q["shape"], s, i),
                      nontrivial=True, kind="server:" + (nm if t in CMD.values() else "unknown-type"))
            flat += [len(packets)] + [x for p in packets for x in p]
            case = {"request": {"type": t, "id": q["id"], "handle": q["hbytes"], "callback": q["cb"],
                                "text_ok": q["text_ok"], "tag": q["tag"], "shape": q["shape"],
                                "check_file": None if "cf" not in q else {
                                    "algs": q["algs"], "start": q["cf_start"], "length": q["cf_len"],
                                    "block_size": q["cf_block"], "file_size": len(q["cf"]["blob"]),
                                    "stat": q["cf"]["stat"], "stat_size": q["cf"]["size"],
                                    "read_script": sorted(q["cf"]["script"].items()),
                                    "reads_made": cf_out.get(i + 1)}},
                    "stream_prefix": [(r["t"], r["id"], r["hbytes"], r["cb"], r["text_ok"], r["tag"], r["shape"])
                                      for r in reqs[:i]]}
            if len(packets) != 1:
                ctx.fail("server-response-count:" + cls,
                         "a request was answered with %d packets instead of exactly one" % len(packets),
                         case=case, expected=1, observed=packets)
                continue
            rt, rid, det = packets[0]
            if rid != q["id"]:
                ctx.fail("server-response-id:" + cls, "the response does not carry the request id",
                         case=case, expected=q["id"], observed=packets)
            if rt not in valid_types(t):
                ctx.fail("server-response-type:" + cls,
                         "the response packet type %d is not valid for request type %d" % (rt, t),
                         case=case, expected=sorted(valid_types(t)), observed=packets)
            if t in HANDLE_CMDS and not q["hv"] and (rt, det) != (101, 5):
                ctx.fail("server-invalid-handle-status:" + cls, "an invalid handle is not answered with STATUS BAD_MESSAGE",
                         case=case, expected=(101, 5), observed=packets)
            if t not in CMD.values() and (rt != 101 or det == 0):
                ctx.fail("server-unknown-type-status", "an unknown packet type is not answered with an error STATUS",
                         case=case, observed=packets)
        text = "[" + ";".join(coq_req(q, cf_out.get(i + 1)) for i, q in enumerate(reqs)) + "]"
        cases.append((text, flat))
        metas.append(reqs)
        if s == 0:
            ctx.sample({"server_stream": [(q["t"], q["id"], q["hbytes"], q["cb"]) for q in reqs], "responses": per})
    try:
        bad = ctx.model_mismatches("run_server", "(list req)", cases, shard=60)
    except Exception as e:  # noqa - the oracle above does not depend on the model
        ctx.disagree("model evaluation failed: %r" % (e,))
        bad = []
    for i in bad[:3]:
        ctx.disagree("SFTPServer responses differ from the model on a request stream",
                     case={"reqs": [(q["t"], q["id"], q["hbytes"], q["cb"], q["text_ok"], q["tag"], q["shape"])
                                    for q in metas[i]]},
                     impl=cases[i][1])


# --------------------------------------------------------------------------------------------
# 2. client: byte-level scripted socket


class WouldBlock(BaseException):
    """The client waits for a packet although every request made so far has been answered."""


class ScriptSock:
    """A socket-like object: parses the packets the client sends, lets `server(t, payload)` produce the
    reply packets, serves them to recv(); an empty receive buffer (with no reply held back and no
    background thread still sending) means the call would block forever.

    reorder: a random.Random - the server then answers every request exactly once but OUT OF ORDER: replies
    are held back and released, shuffled, when the client next has nothing to read.
    dead: "eof" - the server is gone: further packets are accepted and ignored, reads see end of stream after
    what was already queued; "sendfail" - further sends raise socket.error as well."""

    def __init__(self, server, reorder=None):
        self.server = server
        self.out = b""
        self.inp = b""
        self.ready = False
        self.reorder = reorder
        self.held = []
        self.dead = None
        self.lock = threading.RLock()

    def send(self, data):
        with self.lock:
            if self.dead == "sendfail":
                raise socket.error("Socket is closed")
            if self.dead:
                return len(data)
            self.out += bytes(data)
            while len(self.out) >= 4 and not self.dead:
                n = struct.unpack(">I", self.out[:4])[0]
                if len(self.out) < 4 + n:
                    break
                pkt, self.out = self.out[4:4 + n], self.out[4 + n:]
                for t, payload in self.server(pkt[0], pkt[1:]):
                    raw = struct.pack(">I", len(payload) + 1) + bytes([t]) + payload
                    if self.reorder is not None:
                        self.held.append(raw)
                    else:
                        self.inp += raw
            return len(data)

    @staticmethod
    def _background_senders():
        return any(t.is_alive() and getattr(getattr(t, "_target", None), "__name__", "") == "_prefetch_thread"
                   for t in threading.enumerate())

    def recv(self, n):
        deadline = time.time() + 10.0
        while True:
            with self.lock:
                if not self.inp and self.held:
                    self.reorder.shuffle(self.held)
                    self.inp = b"".join(self.held)
                    self.held = []
                if self.inp:
                    x, self.inp = self.inp[:n], self.inp[n:]
                    return x
                if self.dead:
                    return b""
            if self._background_senders() and time.time() < deadline:
                time.sleep(0.001)       # a prefetch thread is still putting requests on the wire
                continue
            raise WouldBlock()

    def recv_ready(self):
        return self.ready

    def settimeout(self, t):
        pass

    def get_name(self):
        return "0"

    def close(self):
        pass


def reply_packet(t, num, code, extra=b""):
    body = struct.pack(">I", num)
    if t == 101:
        body += struct.pack(">I", code & 0xffffffff) + s_str(b"scripted") + s_str(b"")
    elif t == 105:
        body += struct.pack(">IQ", 1, code)          # SFTPAttributes with FLAG_SIZE
    elif t == 102:
        body += s_str(b"hx1")
    else:
        body += extra
    return (t, body)


def exc_code(e):
    from paramiko.sftp import SFTPError
    if isinstance(e, WouldBlock):
        return 98
    if isinstance(e, EOFError):
        return 4
    if isinstance(e, SFTPError):
        return 101
    if isinstance(e, OSError):
        return 16
    return 1


def gen_reply(rng, kind):
    r = rng.random()
    if kind == "write" or kind == "close":
        if r < 0.75:
            return (101, 0)
        if r < 0.95:
            return (101, rng.choice([1, 2, 3, 4, 5, 8, 9]))
        return (rng.choice([102, 103, 105]), 0)
    if r < 0.6:
        return (rng.choice([105, 104, 103, 102]), 0)
    return (101, rng.choice([0, 1, 2, 3, 4]))


def gen_program(rng):
    prog = []
    n = rng.choice([rng.randrange(1, 12), rng.randrange(20, 140), rng.randrange(100, 260)])
    pipe_bias = rng.random()
    ready_bias = rng.random()
    if rng.random() < pipe_bias:
        prog.append(("OSetPipe", True))
    while len(prog) < n:
        r = rng.random()
        if r < 0.72:
            burst = rng.choice([1, 1, 2, 5, rng.randrange(1, 70)])
            for _ in range(burst):
                prog.append(("OWrite", rng.random() < ready_bias, gen_reply(rng, "write")))
        elif r < 0.90:
            prog.append(("OSync", gen_reply(rng, "sync")))
        elif r < 0.96:
            prog.append(("OSetPipe", rng.random() < 0.7))
        else:
            pend = [(rng.random() < ready_bias, gen_reply(rng, "write")) for _ in range(rng.choice([0, 0, 1, 2]))]
            prog.append(("OClose", pend, gen_reply(rng, "close")))
    if rng.random() < 0.5:
        pend = [(rng.random() < ready_bias, gen_reply(rng, "write")) for _ in range(rng.choice([0, 1, 1, 3]))]
        prog.append(("OClose", pend, gen_reply(rng, "close")))
    return prog


def hang_program():
    """DESIGN.md section 8: 60 pipelined writes, stat, 120 more writes (data ready to read)."""
    ok = (101, 0)
    return ([("OSetPipe", True)] + [("OWrite", False, ok)] * 60 + [("OSync", (105, 0))] +
            [("OWrite", True, ok)] * 120 + [("OClose", [], ok)])


def new_client(server, reorder=None):
    from paramiko.sftp_client import SFTPClient
    sock = ScriptSock(server, reorder)

    def handshake(t, payload):
        return [(2, struct.pack(">I", 3))]

    sock.server = handshake
    c = SFTPClient(sock)
    sock.server = server
    return c, sock


def run_program_impl(prog, reorder=None):
    """Run the program on the real SFTPClient/SFTPFile.  Returns outcome codes (0 return, else exception).
    reorder: a random.Random - the scripted server answers out of order (see ScriptSock)."""
    from paramiko.sftp_file import SFTPFile
    replies = []
    readies = []

    def server(t, payload):
        num = struct.unpack(">I", payload[:4])[0]
        rt, code = replies.pop(0)
        if readies:
            sock.ready = readies.pop(0)      # what recv_ready() says right after this request went out
        return [reply_packet(rt, num, code)]

    c, sock = new_client(server, reorder)
    f = SFTPFile(c, b"hx1", "wb", 0)
    f.MAX_REQUEST_SIZE = 4
    out = []
    for op in prog:
        try:
            if op[0] == "OWrite":
                readies[:] = [op[1]]
                replies[:] = [op[2]]
                f.write(b"abcd")
            elif op[0] == "OSync":
                readies[:] = []
                replies[:] = [op[1]]
                c._request(CMD["STAT"], b"/x")
            elif op[0] == "OSetPipe":
                f.set_pipelined(op[1])
            else:
                pend, rp = op[1], op[2]
                replies[:] = [r for (_, r) in pend] + [rp]
                readies[:] = [rd for (rd, _) in pend]
                if not f.closed:
                    f._wbuffer = io.BytesIO()
                    f._wbuffer.write(b"wxyz" * len(pend))
                f.close()
            out.append(0)
        except WouldBlock:
            out.append(98)
            break
        except Exception as e:  # noqa
            out.append(exc_code(e))
    f._closed = True         # no CMD_CLOSE from __del__
    return out


def coq_prog(prog):
    parts = []
    for op in prog:
        if op[0] == "OWrite":
            parts.append("OWrite %s %s" % (coq(op[1]), coq(op[2])))
        elif op[0] == "OSync":
            parts.append("OSync %s" % coq(op[1]))
        elif op[0] == "OSetPipe":
            parts.append("OSetPipe %s" % coq(op[1]))
        else:
            parts.append("OClose %s %s" % (coq([(rd, rp) for rd, rp in op[1]]), coq(op[2])))
    return "[" + ";".join(parts) + "]"


BLOCK_KEY = "client-blocks:_write-drain-waits-for-consumed-reply"


def reorder_reads_part(ctx, n):
    """prefetch + read and readv against a scripted file server that answers out of order."""
    import random
    blob = bytes((13 * k + 7) % 253 for k in range(150000))

    def one(seed, kind, arg):
        def server(t, payload):
            num = struct.unpack(">I", payload[:4])[0]
            if t == 3:
                return [reply_packet(102, num, 0)]
            if t == 5:
                hl = struct.unpack(">I", payload[4:8])[0]
                off, ln = struct.unpack(">QI", payload[8 + hl:20 + hl])
                data = blob[off:off + ln]
                if not data:
                    return [reply_packet(101, num, 1)]
                return [(103, struct.pack(">I", num) + s_str(data))]
            if t in (8, 17, 7):
                return [reply_packet(105, num, len(blob))]
            return [reply_packet(101, num, 0)]

        c, sock = new_client(server, random.Random(seed))
        with c.open("/blob", "rb") as f:
            if kind == "prefetch":
                f.prefetch(len(blob) + arg[0] * 32768, arg[1])
                c.stat("/x")
                return f.read() == blob
            chunks = arg
            got = list(f.readv(chunks))
            return got == [blob[o:o + l] for o, l in chunks]

    rng = ctx.rng
    for j in range(n):
        if j % 2 == 0:
            kind, arg = "prefetch", (rng.choice([0, 0, 2]), rng.choice([None, None, 1, 3]))
        else:
            offs = sorted(rng.sample(range(0, len(blob), 1000), rng.randrange(2, 12)))
            kind, arg = "readv", [(o, rng.choice([10, 999, 1000, 40000])) for o in offs] + \
                [(len(blob) + rng.choice([0, 5000]), 100)] * rng.choice([0, 1])
        seed = "reorder-reads-%d-%d" % (ctx.seed, j)
        case = {"kind": kind, "arg": arg, "reorder_seed": seed}
        ctx.count(("reorder-reads", repr(case)), kind="client:reordering-server:" + kind)
        st, v = with_watchdog(lambda: one(seed, kind, arg), 20.0)
        if st == "hang" or (st == "exc" and isinstance(v, WouldBlock)):
            stop = st == "hang"
            ctx.fail("client-blocks:reordered-replies:" + kind, "%s on a server that answers out of order never "
                     "completes although every request was answered" % kind, case=case)
            if stop:
                break
        elif st == "exc":
            ctx.fail("client-raises:reordered-replies:" + kind, "%s on a server that answers out of order raised %r"
                     % (kind, v), case=case, observed=repr(v))
        elif v is not True:
            ctx.fail("client-wrong-data:reordered-replies:" + kind, "%s on a server that answers out of order "
                     "returned bytes that are not the file's" % kind, case=case)


def client_part(ctx, nprogs):
    rng = ctx.rng
    progs = [hang_program()] + [gen_program(rng) for _ in range(nprogs)]
    cases = []
    for j, prog in enumerate(progs):
        impl = run_program_impl(prog)
        kinds = {op[0] for op in prog}
        ctx.count(("prog", repr(prog)), nontrivial=len(prog) > 2,
                  kind="client:" + ("hang-program" if j == 0 else
                                    "long" if len(prog) > 100 else "short") + ("+sync" if "OSync" in kinds else ""))
        if 98 in impl:
            k = impl.index(98)
            ctx.fail(BLOCK_KEY if prog[k][0] == "OWrite" else "client-blocks:" + prog[k][0],
                     "operation %d (%s) waits for a packet although the server has answered every request: it blocks "
                     "forever" % (k, prog[k][0]),
                     case={"program": prog if len(prog) < 400 else prog[:k + 1]}, expected="returns or raises",
                     observed="blocked at operation %d" % k)
        # the same program against a server that answers every request once but OUT OF ORDER (legal)
        import random
        rimpl = run_program_impl(prog, reorder=random.Random("reorder-%d-%d" % (ctx.seed, j)))
        ctx.count(("prog-reordered", repr(prog)), nontrivial=len(prog) > 2, kind="client:reordering-server")
        if 98 in rimpl:
            k = rimpl.index(98)
            ctx.fail("client-blocks:reordered-replies:" + prog[k][0],
                     "operation %d (%s) waits for a packet although the (reordering) server has answered every "
                     "request: it blocks forever" % (k, prog[k][0]),
                     case={"program": prog if len(prog) < 400 else prog[:k + 1], "reorder": True,
                           "reorder_seed": "reorder-%d-%d" % (ctx.seed, j)},
                     expected="returns or raises", observed="blocked at operation %d" % k)
        cases.append((coq_prog(prog), impl))
        if j == 1:
            ctx.sample({"client_program": prog[:12], "outcomes": impl[:12]})
    try:
        bad = ctx.model_mismatches("run_client", "(list op)", cases, shard=40)
    except Exception as e:  # noqa
        ctx.disagree("model evaluation failed: %r" % (e,))
        bad = []
    for i in bad[:3]:
        ctx.disagree("client operation outcomes differ from the model", case={"program": progs[i][:300]},
                     impl=cases[i][1])


# --------------------------------------------------------------------------------------------
# 3. real client against a real server (Transport pair over LoopSocket)


# documented channel options of an sftp session: (window_size, max_packet_size) given to
# SFTPClient.from_transport, and (default_window_size, default_max_packet_size) of the server Transport
SESSION_CONFIGS = [
    (None, None, None, None),
    (32768, None, None, None),          # the smallest legal window, equal to the default packet size
    (32768, 4096, None, None),
    (1, 1, None, None),                 # clamped to the minima
    (65536, 32768, None, None),
    (None, None, 32768, 32768),         # a server whose channels have the smallest window
    (40000, 16384, 32768, 4096),
]


class Session:
    def __init__(self, repo, config=None):
        import paramiko
        from _loop import LoopSocket
        from _stub_sftp import StubServer, StubSFTPServer
        self.root = tempfile.mkdtemp(prefix="verif-sftp-")
        StubSFTPServer.ROOT = self.root
        a, b = LoopSocket(), LoopSocket()
        a.link(b)
        self.config = cw, cp, sw, sp = config or (None, None, None, None)
        self.tc = paramiko.Transport(a)
        skw = {}
        if sw is not None:
            skw = {"default_window_size": sw, "default_max_packet_size": sp}
        self.ts = paramiko.Transport(b, **skw)
        self.ts.add_server_key(paramiko.RSAKey.from_private_key_file(os.path.join(repo, "tests", "_support", "rsa.key")))
        ev = threading.Event()
        self.ts.set_subsystem_handler("sftp", paramiko.SFTPServer, StubSFTPServer)
        self.ts.start_server(ev, StubServer())
        self.tc.connect(username="slowdive", password="pygmalion")
        ev.wait(10)
        self.sftp = paramiko.SFTPClient.from_transport(self.tc, window_size=cw, max_packet_size=cp)

    def close(self):
        for x in (self.sftp, self.tc, self.ts):
            try:
                x.close()
            except Exception:  # noqa
                pass
        shutil.rmtree(self.root, ignore_errors=True)


PREFETCH_OPS = ("prefetch_stale", "getfo_shrunk", "readv_past", "prefetch_read_past", "prefetch_read")
BLOB = bytes((11 * k + 5) % 251 for k in range(100000))
SHRINK = {}


def live_program(rng):
    """Pipelined writes interleaved with stat / listdir / read / prefetch / readv on the same session."""
    prog = []
    n = rng.choice([3, 8, 20])
    for _ in range(n):
        r = rng.random()
        if r < 0.4:
            prog.append(("w", rng.choice([1, 5, 30, 70, 110, 130])))
        elif r < 0.5:
            prog.append(("stat",))
        elif r < 0.6:
            prog.append(("listdir",))
        elif r < 0.7:
            prog.append(("read",))
        elif r < 0.8:
            prog.append(("prefetch_stale", rng.choice([1, 3, 10]), rng.random() < 0.5))
        elif r < 0.88:
            prog.append(("getfo_shrunk", rng.choice([0, 1, 32768, 70000, 99999])))
        elif r < 0.95:
            prog.append(("readv_past", rng.choice([1, 5000, 200000])))
        elif r < 0.975:
            prog.append(("prefetch_read_past",))
        else:
            prog.append(("prefetch_read", rng.choice([None, 1, 3])))
    return prog


def _local(sess, name, data):
    with open(os.path.join(sess.root, name), "wb") as fh:
        fh.write(data)


def pause_background_sends(sftp, owner, delay=0.03):
    """Wrap _send_packet on this client: any thread other than `owner` (the prefetch thread) sleeps right
    after its request has gone out, so that the owner gets to read the reply first.  Harmless when a
    request is registered before it is sent."""
    orig = sftp._send_packet

    def send_packet(t, msg):
        orig(t, msg)
        if threading.get_ident() != owner:
            time.sleep(delay)

    sftp._send_packet = send_packet
    return lambda: sftp.__dict__.pop("_send_packet", None)


def run_live(sess, prog, name, progress, paused=False):
    """Returns True, or a string naming what came out wrong."""
    sftp = sess.sftp
    if paused:
        pause_background_sends(sftp, threading.get_ident())
    _local(sess, "other.bin", b"0123456789" * 100)
    _local(sess, "blob.bin", BLOB)
    f = sftp.open(name, "wb", 0)
    f.set_pipelined(True)
    total = 0
    n = len(BLOB)
    for i, op in enumerate(prog):
        progress["op"] = (i, op)
        if op[0] == "w":
            for k in range(op[1]):
                if k % 25 == 24:
                    time.sleep(0.01)        # let replies arrive, so that recv_ready() is true at the threshold
                f.write(b"z" * 512)
                total += 512
        elif op[0] == "stat":
            sftp.stat("/other.bin")
        elif op[0] == "listdir":
            sftp.listdir("/")
        elif op[0] == "read":
            with sftp.open("/other.bin", "rb") as g:
                g.read(100)
        elif op[0] == "prefetch_stale":
            # the size given to prefetch is too large: the last prefetch requests are answered with EOF
            with sftp.open("/blob.bin", "rb") as g:
                g.prefetch(n + op[1] * 32768)
                if op[2]:
                    sftp.stat("/other.bin")
                    sftp.listdir("/")
                if g.read() != BLOB:
                    return "prefetch_stale: wrong data"
        elif op[0] == "getfo_shrunk":
            # the file shrinks between getfo's stat and its reads
            _local(sess, "shrink.bin", BLOB)
            SHRINK["path"], SHRINK["size"] = os.path.join(sess.root, "shrink.bin"), op[1]
            out = io.BytesIO()
            try:
                sftp.getfo("/shrink.bin", out)
            finally:
                SHRINK.clear()
            if out.getvalue() != BLOB[:op[1]]:
                return "getfo_shrunk: wrong data (%d bytes for %d)" % (len(out.getvalue()), op[1])
        elif op[0] == "readv_past":
            with sftp.open("/blob.bin", "rb") as g:
                parts = list(g.readv([(n - 100, 100), (n + op[1], 100)]))
                sftp.stat("/other.bin")
                g.seek(n - 50)
                tail = g.read(500)
                if parts != [BLOB[-100:], b""] or tail != BLOB[-50:]:
                    return "readv_past: wrong data"
        elif op[0] == "prefetch_read":
            # ordinary prefetch with another request interleaved while the prefetch thread is still sending
            with sftp.open("/blob.bin", "rb") as g:
                g.prefetch(n, op[1])
                sftp.stat("/other.bin")
                if g.read() != BLOB:
                    return "prefetch_read: wrong data"
        else:
            with sftp.open("/blob.bin", "rb") as g:
                g.prefetch()
                g.seek(n + 1000)
                if g.read(100) != b"":
                    return "prefetch_read_past: data past EOF"
                g.seek(0)
                if g.read(10) != BLOB[:10]:
                    return "prefetch_read_past: wrong data"
    progress["op"] = (len(prog), ("close",))
    f.close()
    return True if sftp.stat(name).st_size == total else "pipelined file has the wrong size"


def install_shrink():
    """The in-process server truncates SHRINK['path'] to SHRINK['size'] when a file is next opened."""
    from _stub_sftp import StubSFTPServer
    orig = StubSFTPServer.open

    def open_(self, path, flags, attr):
        if SHRINK.get("path"):
            with open(SHRINK["path"], "r+b") as fh:
                fh.truncate(SHRINK["size"])
            SHRINK.pop("path", None)
        return orig(self, path, flags, attr)

    StubSFTPServer.open = open_
    return StubSFTPServer, orig


def options_part(ctx):
    """The same kinds of program on sessions opened with the documented channel options (window_size /
    max_packet_size of from_transport, default_window_size / default_max_packet_size of the server
    Transport): smallest legal window, window == packet size, clamped values.  Quick tier: two option sets
    rotating with the seed; thorough: all.  Two sessions are alive at a time and the first is used again
    after the second."""
    configs = SESSION_CONFIGS[1:]
    if not ctx.thorough:
        configs = [configs[(2 * ctx.seed + d) % len(configs)] for d in (0, 1)]
    cls, orig_open = install_shrink()
    old_hook = threading.excepthook
    threading.excepthook = lambda args: None
    prog = [("prefetch_read", None), ("w", 40), ("stat",), ("getfo_shrunk", 70000), ("w", 110), ("listdir",),
            ("readv_past", 5000), ("prefetch_stale", 2, True)]
    first = Session(ctx.repo)
    try:
        for j, cfg in enumerate(configs):
            sess = Session(ctx.repo, cfg)
            try:
                for which, s_ in (("configured", sess), ("default-session-used-again", first)):
                    from _stub_sftp import StubSFTPServer
                    StubSFTPServer.ROOT = s_.root
                    progress = {}
                    case = {"live_program": prog, "session": which,
                            "options": dict(zip(("window_size", "max_packet_size", "server_default_window_size",
                                                 "server_default_max_packet_size"), cfg))}
                    ctx.count(("options", j, which, cfg), kind="live-options")
                    name = "/opt%d%s.bin" % (j, which[0])
                    st, v = with_watchdog(lambda: run_live(s_, prog, name, progress), 20.0)
                    if st == "hang":
                        i, op = progress.get("op", (-1, ("?",)))
                        case.update(blocked_at=i, operation=op)
                        ctx.fail("client-blocks:channel-options:" + op[0],
                                 "operation %d %r never returns on a session opened with %r although the server "
                                 "answers every request" % (i, op, case["options"]), case=case,
                                 expected="completes", observed="hang")
                        return
                    if st == "exc":
                        ctx.fail("live-program-raises:channel-options", "a fault-free program raised %r at %r on a "
                                 "session opened with %r" % (v, progress.get("op"), case["options"]), case=case)
                    elif v is not True:
                        ctx.fail("live-program-result:channel-options", "a fault-free program misbehaved on a session "
                                 "opened with %r: %s" % (case["options"], v), case=case, observed=v)
            finally:
                sess.close()
    finally:
        threading.excepthook = old_hook
        cls.open = orig_open
        SHRINK.clear()
        first.close()


def live_part(ctx, nprogs, only=None):
    rng = ctx.rng
    sess = Session(ctx.repo)
    cls, orig_open = install_shrink()
    old_hook = threading.excepthook
    threading.excepthook = lambda args: None      # prefetch threads of closed sessions die noisily
    try:
        progs = [[("w", 60), ("stat",), ("w", 120)],
                 [("getfo_shrunk", 70000), ("w", 3), ("prefetch_stale", 3, True), ("w", 3), ("readv_past", 5000),
                  ("prefetch_read_past",)]]
        progs += [live_program(rng) for _ in range(nprogs)]
        # the same kinds of program with the prefetch thread held up after each of its sends
        progs += [("paused", [("prefetch_read", None), ("w", 2), ("prefetch_read", 2), ("readv_past", 5000),
                              ("prefetch_stale", 1, True), ("getfo_shrunk", 70000)])]
        progs += [("paused", live_program(rng)) for _ in range(max(1, nprogs // 2))]
        if only is not None:
            progs = [only]
        for j, prog in enumerate(progs):
            paused = len(prog) == 2 and prog[0] == "paused"
            if paused:
                prog = prog[1]
                # a wrapped client is not reused
                sess.close()
                sess = Session(ctx.repo)
            ctx.count(("live", paused, repr(prog)), kind="live-interleaving" +
                      ("+prefetch" if any(op[0] in PREFETCH_OPS for op in prog) else "") +
                      ("+paused-prefetch-thread" if paused else ""))
            name = "/live%d.bin" % j
            progress = {}
            st, v = with_watchdog(lambda: run_live(sess, prog, name, progress, paused), 20.0)
            if st == "hang":
                # the session is wedged: retry once on a new one before believing it
                sess.close()
                sess = Session(ctx.repo)
                progress = {}
                st, v = with_watchdog(lambda: run_live(sess, prog, name, progress, paused), 20.0)
                if st == "hang":
                    i, op = progress.get("op", (-1, ("?",)))
                    key = BLOCK_KEY if op[0] == "w" else "client-blocks:" + op[0]
                    ctx.fail(key, "operation %d %r of a program interleaving pipelined writes, prefetches and other "
                             "requests on one session never returns (watchdog 20 s, twice) although the server "
                             "answers every request" % (i, op),
                             case={"live_program": prog, "blocked_at": i, "operation": op,
                                   "prefetch_thread_paused_after_each_send": paused}, expected="completes",
                             observed="hang")
                    sess.close()
                    sess = Session(ctx.repo)
                    break           # one confirmed hang is enough; every further one costs two watchdog periods
            if st == "exc":
                ctx.fail("live-program-raises", "a fault-free program raised %r at %r" % (v, progress.get("op")),
                         case={"live_program": prog}, observed=repr(v))
            elif v is not True:
                ctx.fail("live-program-result", "a fault-free program misbehaved: %s" % (v,),
                         case={"live_program": prog}, observed=v)
            try:
                os.unlink(os.path.join(sess.root, "live%d.bin" % j))
            except OSError:
                pass
            if paused:
                sess.close()
                sess = Session(ctx.repo)
    finally:
        threading.excepthook = old_hook
        cls.open = orig_open
        SHRINK.clear()
        sess.close()


def cross_check_constants(ctx):
    """The numbers this harness writes by hand must be the ones of the working tree."""
    import paramiko.sftp as m
    for name, v in CMD.items():
        if getattr(m, "CMD_" + name, None) != v:
            ctx.disagree("harness packet-type table differs from paramiko.sftp", case={"name": "CMD_" + name},
                         model=v, impl=getattr(m, "CMD_" + name, None))
    if sorted(m.CMD_NAMES) != sorted(CMD.values()):
        ctx.disagree("CMD_NAMES key set differs from the harness table", model=sorted(CMD.values()),
                     impl=sorted(m.CMD_NAMES))


def run(ctx):
    scale = 4 if ctx.thorough else 1
    ctx.rule = ("seeded generator (random.Random('C30-<seed>')): server request streams of 4..15 requests over all "
                "packet types (named, unnamed, unhandled), ids incl. 0 and 2^32-1, valid / stale / wrong-table / "
                "malformed handles, every extended request, undecodable text, truncated and junk payloads, callback "
                "results of every kind incl. exceptions and out-of-range codes; client programs of 1..260 "
                "operations (pipelined / plain writes with scripted recv_ready, synchronous requests, set_pipelined, "
                "close with buffered chunks) with scripted replies incl. error statuses and wrong packet types; "
                "live programs interleaving pipelined writes with stat/listdir/read.  A case is non-trivial when "
                "distinct; client programs of fewer than 3 operations are counted trivial.")
    ctx.trusted += ["model coq/Model/C30.v is hand-written; tied to sftp_server.py / sftp_client.py / sftp_file.py by "
                    "this differential run (vm_compute of the model's own definitions)",
                    "the results of the handle.read calls _check_file makes are oracle inputs of the model (recorded from the run)"]
    ctx.assumptions += ["request numbers stay below 2^32", "the channel delivers packets in order (C17/C21)",
]
    try:
        ctx.prove(GENS)
    except Exception as e:  # noqa - proofs / translator broken: the oracles below still run
        ctx.disagree("proof build failed: %r" % (e,))
    cross_check_constants(ctx)
    for name, fn in (("server", lambda: server_part(ctx, 150 * scale)),
                     ("client", lambda: client_part(ctx, 60 * scale)),
                     ("reorder-reads", lambda: reorder_reads_part(ctx, 12 * scale)),
                     ("live", lambda: live_part(ctx, 4 * (3 if ctx.thorough else 1))),
                     ("channel-options", lambda: options_part(ctx))):
        t0 = time.time()
        try:
            fn()
        except Exception:  # noqa
            import traceback
            ctx.disagree("the %s part of the check raised" % name, impl=traceback.format_exc()[-1500:])
        ctx.log("timing: %s %.1fs" % (name, time.time() - t0))


def replay(ctx, rep):
    case = rep.get("case") or {}
    if "program" in case and case["program"] and isinstance(case["program"][0], list) and \
            case["program"][0][0] in ("OWrite", "OSync", "OSetPipe", "OClose"):
        def fix(op):
            if op[0] == "OWrite":
                return ("OWrite", op[1], tuple(op[2]))
            if op[0] == "OSync":
                return ("OSync", tuple(op[1]))
            if op[0] == "OSetPipe":
                return ("OSetPipe", op[1])
            return ("OClose", [(a, tuple(b)) for a, b in op[1]], tuple(op[2]))
        prog = [fix(op) for op in case["program"]]
        import random
        impl = run_program_impl(prog, reorder=random.Random(case["reorder_seed"]) if case.get("reorder") else None)
        ctx.count(("replay", repr(prog)))
        ctx.count(("replay2", repr(prog)))
        if 98 in impl:
            k = impl.index(98)
            ctx.fail(rep["key"], rep["what"], case=case, expected="returns or raises",
                     observed="blocked at operation %d" % k)
    elif case.get("live_program"):
        prog = [tuple(op) for op in case["live_program"]]
        live_part(ctx, 0, only=("paused", prog) if case.get("prefetch_thread_paused_after_each_send") else prog)
        ctx.count(("replay-live", 0))
    else:
        run(ctx)
