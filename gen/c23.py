"""Translator for C23: extracts the channel-id mask and checks the shape of the id allocation code.

generate(repo) -> {"C23_gen.v": text}.  Fail closed: any deviation from the recognised shape of
Transport._next_channel, or of the lock structure around the id allocation in open_channel /
_parse_channel_open, raises (the check then reports a broken obligation).
"""
import ast
import os

TEMPLATE = '''
def _next_channel(self):
    chanid = self._channel_counter
    while self._channels.get(chanid) is not None:
        self._channel_counter = (self._channel_counter + 1) & {mask}
        chanid = self._channel_counter
    self._channel_counter = (self._channel_counter + 1) & {mask}
    return chanid
'''

MAP_TEMPLATES = {
    "put": "self._map[chanid] = chan",
    "get": "return self._map.get(chanid, None)",
    "delete": "del self._map[chanid]",
}


def _strip_doc(fn):
    body = list(fn.body)
    if body and isinstance(body[0], ast.Expr) and isinstance(getattr(body[0], "value", None), ast.Constant) \
            and isinstance(body[0].value.value, str):
        body = body[1:]
    fn.body = body
    return fn


def _is_lock_acquire(stmt, attr="lock"):
    return (isinstance(stmt, ast.Expr) and isinstance(stmt.value, ast.Call)
            and ast.unparse(stmt.value) == "self.%s.acquire()" % attr)


def _locked_tries(fn):
    """Try nodes that directly follow `self.lock.acquire()` in some statement list."""
    out = []
    for node in ast.walk(fn):
        for field in ("body", "orelse", "finalbody"):
            stmts = getattr(node, field, None)
            if not isinstance(stmts, list):
                continue
            for a, b in zip(stmts, stmts[1:]):
                if _is_lock_acquire(a) and isinstance(b, ast.Try):
                    if not any(ast.unparse(s) == "self.lock.release()" for s in b.finalbody):
                        raise ValueError("locked try without release in finally (line %d)" % b.lineno)
                    out.append(b)
    return out


def _calls(node, text):
    return [n for n in ast.walk(node) if isinstance(n, ast.Call) and ast.unparse(n).startswith(text)]


def generate(repo):
    path = os.path.join(repo, "paramiko", "transport.py")
    tree = ast.parse(open(path).read())
    classes = {n.name: n for n in tree.body if isinstance(n, ast.ClassDef)}
    tr = {n.name: n for n in classes["Transport"].body if isinstance(n, ast.FunctionDef)}
    nc = _strip_doc(tr["_next_channel"])
    masks = [n.right.value for n in ast.walk(nc)
             if isinstance(n, ast.BinOp) and isinstance(n.op, ast.BitAnd) and isinstance(n.right, ast.Constant)]
    if len(masks) != 2 or masks[0] != masks[1] or not isinstance(masks[0], int):
        raise ValueError("_next_channel: expected two identical integer masks, got %r" % (masks,))
    mask = masks[0]
    bits = mask.bit_length()
    if mask <= 0 or mask != (1 << bits) - 1:
        raise ValueError("_next_channel: mask %#x is not of the form 2^n - 1" % mask)
    want = ast.unparse(ast.parse(TEMPLATE.format(mask=mask)).body[0])
    got = ast.unparse(nc)
    if got != want:
        raise ValueError("_next_channel has an unrecognised shape:\n%s\nexpected:\n%s" % (got, want))

    # ChannelMap: the three operations the model uses
    cm = {n.name: n for n in classes["ChannelMap"].body if isinstance(n, ast.FunctionDef)}
    for name, stmt in MAP_TEMPLATES.items():
        src = ast.unparse(cm[name])
        if stmt not in src:
            raise ValueError("ChannelMap.%s: expected `%s`" % (name, stmt))
    if ast.unparse(tr["_unlink_channel"].body[-1]) != "self._channels.delete(chanid)":
        raise ValueError("_unlink_channel has an unrecognised shape")

    # open_channel: id chosen and registered in ONE critical section
    oc = tr["open_channel"]
    tries = _locked_tries(oc)
    both = [t for t in tries if _calls(t, "self._next_channel(") and _calls(t, "self._channels.put(chanid")]
    if len(_calls(oc, "self._next_channel(")) != 1 or len(both) != 1:
        raise ValueError("open_channel: _next_channel() and _channels.put(chanid, ..) are not in one locked block")

    # _parse_channel_open: every reservation under the lock; registration under the lock, later
    pc = tr["_parse_channel_open"]
    tries = _locked_tries(pc)
    res_calls = _calls(pc, "self._next_channel(")
    in_locked = [c for t in tries for c in _calls(t, "self._next_channel(")]
    if not res_calls or len(in_locked) != len(res_calls):
        raise ValueError("_parse_channel_open: a _next_channel() call is not inside a locked block")
    puts = _calls(pc, "self._channels.put(my_chanid")
    put_tries = [t for t in tries if _calls(t, "self._channels.put(my_chanid")]
    if len(puts) != 1 or len(put_tries) != 1:
        raise ValueError("_parse_channel_open: _channels.put(my_chanid, ..) not in exactly one locked block")
    same = 1 if _calls(put_tries[0], "self._next_channel(") else 0

    # every site that changes the live map, pinned: (operation, enclosing function)
    sites = []
    for cls in classes.values():
        for fn in cls.body:
            if not isinstance(fn, ast.FunctionDef):
                continue
            for n in ast.walk(fn):
                if isinstance(n, ast.Call):
                    u = ast.unparse(n.func)
                    if u in ("self._channels.put", "self._channels.delete"):
                        sites.append((u.split(".")[-1], cls.name + "." + fn.name))
                if isinstance(n, ast.Attribute) and n.attr == "_map" and cls.name != "ChannelMap":
                    raise ValueError("%s.%s touches ChannelMap._map directly" % (cls.name, fn.name))
                if isinstance(n, (ast.Assign, ast.AugAssign, ast.Delete)):
                    tg = n.targets if not isinstance(n, ast.AugAssign) else [n.target]
                    for t in tg:
                        if ast.unparse(t).startswith("self._channels") and fn.name != "__init__":
                            raise ValueError("%s.%s rebinds / edits self._channels" % (cls.name, fn.name))
    want_sites = sorted([("put", "Transport.open_channel"), ("put", "Transport._parse_channel_open"),
                         ("delete", "Transport._unlink_channel"), ("delete", "Transport._parse_channel_open_failure")])
    if sorted(sites) != want_sites:
        raise ValueError("live-map mutation sites changed: %r (expected %r)" % (sorted(sites), want_sites))
    # the delete in _parse_channel_open_failure is guarded by `if chanid in self.channel_events`
    pf = tr["_parse_channel_open_failure"]
    guarded = [i for i in ast.walk(pf) if isinstance(i, ast.If)
               and ast.unparse(i.test) == "chanid in self.channel_events"
               and any(_calls(b_, "self._channels.delete(chanid") for b_ in i.body)]
    outside = [c for c in _calls(pf, "self._channels.delete(")
               if not any(c in list(ast.walk(g)) for g in guarded)]
    if not guarded or outside:
        raise ValueError("_parse_channel_open_failure: _channels.delete(chanid) is not guarded by "
                         "`if chanid in self.channel_events`")
    # callers of _unlink_channel, and no other module reaches into the map
    pdir = os.path.join(repo, "paramiko")
    callers = []
    for fname in sorted(os.listdir(pdir)):
        if not fname.endswith(".py"):
            continue
        src = open(os.path.join(pdir, fname)).read()
        if fname not in ("transport.py",) and "._channels" in src:
            raise ValueError("%s reaches into Transport._channels" % fname)
        if "_unlink_channel(" not in src:
            continue
        for cls in [n for n in ast.parse(src).body if isinstance(n, ast.ClassDef)]:
            for fn in cls.body:
                if isinstance(fn, ast.FunctionDef):
                    for c in ast.walk(fn):
                        if isinstance(c, ast.Call) and ast.unparse(c.func).endswith("._unlink_channel"):
                            callers.append("%s:%s.%s" % (fname, cls.name, fn.name))
    if sorted(callers) != ["channel.py:Channel._handle_close", "channel.py:Channel._unlink"]:
        raise ValueError("callers of _unlink_channel changed: %r" % sorted(callers))

    text = """(* GENERATED by gen/c23.py from paramiko/transport.py -- do not edit *)
From Coq Require Import ZArith.
Open Scope Z_scope.
(* (self._channel_counter + 1) & mask in Transport._next_channel *)
Definition chan_mask : Z := %d.
Definition chan_bits : Z := %d.
(* _parse_channel_open: number of reservation sites; 1 when the registration shares the
   reservation's critical section, 0 when it is a later critical section (a pending window) *)
Definition peer_reserve_sites : Z := %d.
Definition peer_register_same_section : Z := %d.
""" % (mask, bits, len(res_calls), same)
    return {"C23_gen.v": text}
