(* C36 — keys survive serialisation; new key files are private to the owner; equality / hash depend only
   on the public key material.
   Model of: asbytes of RSAKey / ECDSAKey / Ed25519Key (public blob encoders), their data= / msg= constructors
   with PKey._check_type_and_load_cert (decoders), _fields / __eq__ / __hash__, and
   PKey._write_private_key_file's os.open(filename, O_WRONLY|O_TRUNC|O_CREAT, 0o600) over a permission table.
   Library validations (RSAPublicNumbers.public_key, from_encoded_point, VerifyKey length) and UTF-8 decoding
   are oracles.  Definitions only. *)
From PV Require Import Bytes C39 C35.
Open Scope Z_scope.

(* ---- public key material ------------------------------------------------------------------------------ *)
Inductive pubmat :=
  | PRsa (e n : Z)
  | PEc (curve : Z) (x y : Z)          (* curve index 0/1/2, affine coordinates *)
  | PEd (pk : list Z).

Definition klen (c : Z) : nat := if c =? 0 then 32%nat else if c =? 1 then 48%nat else 66%nat.

(* x_bytes = deflate_long(x, add_sign_padding=False); b"\x00" * (key_size_bytes - len(x_bytes)) + x_bytes *)
Definition coord (c : Z) (v : Z) : list Z :=
  let d := deflate_long v false in repeat 0 (klen c - length d) ++ d.
Definition point (c x y : Z) : list Z := 4 :: coord c x ++ coord c y.

Definition asbytes (p : pubmat) : result (list Z) :=
  match p with
  | PRsa e n => encode_all [FString s_ssh_rsa; FMpint e; FMpint n]
  | PEc c x y => encode_all [FString (ecdsa_ident c); FString (curve_name c); FString (point c x y)]
  | PEd pk => encode_all [FString s_ed25519; FString pk]
  end.

Section Decoders.
  Variable utf8_ok : list Z -> bool.
  Variable rsa_numbers_ok : Z -> Z -> bool.        (* RSAPublicNumbers(e, n).public_key() accepts *)
  Variable on_curve : Z -> Z -> Z -> bool.         (* from_encoded_point accepts the (uncompressed) point *)

  Definition text (buf : list Z) (pos : nat) : result (list Z * nat) :=
    let '(s, p) := get_string buf pos in if utf8_ok s then Ok (s, p) else Raise UnicodeErr.

  (* _check_type_and_load_cert: position after the type (and, for a certificate, after the nonce);
     the flag says whether a certificate blob was stored *)
  Definition check_type (blob : list Z) (key_types cert_types : list (list Z)) : result (nat * bool) :=
    bind (text blob 0) (fun '(ty, p) =>
    if existsb (zlist_eqb ty) key_types then Ok (p, false)
    else if existsb (zlist_eqb ty) cert_types then
      let '(_, p2) := get_string blob p in Ok (p2, true)       (* load_certificate; msg.get_string() = nonce *)
    else Raise SSHExc).

  Definition from_blob_rsa (blob : list Z) : result (pubmat * bool) :=
    bind (check_type blob [s_ssh_rsa] [s_ssh_rsa ++ s_cert]) (fun '(p, cert) =>
    let '(eb, p1) := get_string blob p in
    let '(nb, _) := get_string blob p1 in
    let e := inflate_long eb false in
    let n := inflate_long nb false in
    if rsa_numbers_ok e n then Ok (PRsa e n, cert) else Raise ValueErr).

  Definition ec_idents : list (list Z) := [ecdsa_ident 0; ecdsa_ident 1; ecdsa_ident 2].

  Definition strip_cert_suffix (s : list Z) : list Z :=
    let n := (length s - length s_cert)%nat in
    if zlist_eqb (skipn n s) s_cert && (length s_cert <=? length s)%nat then firstn n s else s.

  Definition curve_of_ident (s : list Z) : option Z :=
    if zlist_eqb s (ecdsa_ident 0) then Some 0 else if zlist_eqb s (ecdsa_ident 1) then Some 1
    else if zlist_eqb s (ecdsa_ident 2) then Some 2 else None.

  Definition from_blob_ecdsa (blob : list Z) : result (pubmat * bool) :=
    bind (text blob 0) (fun '(ty, _) =>
    let curve := curve_of_ident (strip_cert_suffix ty) in
    bind (check_type blob ec_idents (map (fun i => i ++ s_cert) ec_idents)) (fun '(p, cert) =>
    bind (text blob p) (fun '(cname, p1) =>
    match curve with
    | None => Raise AttrErr                      (* unreachable: check_type rejected the type already *)
    | Some c =>
        if negb (zlist_eqb cname (curve_name c)) then Raise SSHExc
        else
          let '(pt, _) := get_string blob p1 in
          match pt with
          | 4 :: r =>
              if Nat.eqb (length r) (2 * klen c) then
                let x := be_decode (firstn (klen c) r) in
                let y := be_decode (skipn (klen c) r) in
                if on_curve c x y then Ok (PEc c x y, cert) else Raise SSHExc
              else Raise SSHExc                   (* from_encoded_point: ValueError -> SSHException *)
          | _ => Raise SSHExc                     (* compressed / infinity forms are outside this model *)
          end
    end))).

  Definition from_blob_ed (blob : list Z) : result (pubmat * bool) :=
    bind (check_type blob [s_ed25519] [s_ed25519 ++ s_cert]) (fun '(p, cert) =>
    let '(pk, _) := get_string blob p in
    if Nat.eqb (length pk) 32 then Ok (PEd pk, cert) else Raise ValueErr).   (* nacl: exactly 32 bytes *)

  Definition from_blob (cls : Z) (blob : list Z) : result (pubmat * bool) :=
    if cls =? 0 then from_blob_rsa blob else if cls =? 1 then from_blob_ecdsa blob else from_blob_ed blob.

  Definition cls_of (p : pubmat) : Z := match p with PRsa _ _ => 0 | PEc _ _ _ => 1 | PEd _ => 2 end.

  Definition pub_wf (p : pubmat) : Prop :=
    match p with
    | PRsa e n => rsa_numbers_ok e n = true
    | PEc c x y => (c = 0 \/ c = 1 \/ c = 2) /\ 0 <= x < 256 ^ Z.of_nat (klen c) /\
                   0 <= y < 256 ^ Z.of_nat (klen c) /\ on_curve c x y = true
    | PEd pk => bytes_ok pk = true /\ length pk = 32%nat
    end.
End Decoders.

(* ---- key objects, _fields, __eq__, __hash__ --------------------------------------------------------------- *)
Record keyobj := mk_key {
  k_pub : pubmat;
  k_priv : option Z;                 (* private half, if any *)
  k_cert : option (list Z);          (* public_blob (certificate) *)
  k_comment : option (list Z) }.

(* _fields: (get_name(), numbers...) resp. (name, VerifyKey) *)
Definition fields (k : keyobj) : list Z * list Z * list Z :=
  match k_pub k with
  | PRsa e n => (s_ssh_rsa, [e; n], [])
  | PEc c x y => (ecdsa_ident c, [x; y], [])
  | PEd pk => (s_ed25519, [], pk)
  end.

Definition fields_eqb (a b : list Z * list Z * list Z) : bool :=
  let '(n1, z1, b1) := a in let '(n2, z2, b2) := b in
  zlist_eqb n1 n2 && zlist_eqb z1 z2 && zlist_eqb b1 b2.

Definition key_eq (k1 k2 : keyobj) : bool := fields_eqb (fields k1) (fields k2).
Definition key_hash (h : list Z * list Z * list Z -> Z) (k : keyobj) : Z := h (fields k).

(* ---- file creation ------------------------------------------------------------------------------------------ *)
(* the part of the file system that matters: path -> (permission bits, content) *)
Definition fstab := list (Z * (Z * list Z)).

Fixpoint fs_get (fs : fstab) (path : Z) : option (Z * list Z) :=
  match fs with
  | [] => None
  | (p, v) :: r => if p =? path then Some v else fs_get r path
  end.

Fixpoint fs_set (fs : fstab) (path : Z) (v : Z * list Z) : fstab :=
  match fs with
  | [] => [(path, v)]
  | (p, w) :: r => if p =? path then (p, v) :: r else (p, w) :: fs_set r path v
  end.

Definition o600 : Z := 384.

(* os.open(path, O_WRONLY|O_TRUNC|O_CREAT, mode) then write: a new file gets mode & ~umask; an existing file is
   truncated and keeps its permission bits *)
Definition write_key_file (fs : fstab) (umask : Z) (path : Z) (mode : Z) (content : list Z) : fstab :=
  match fs_get fs path with
  | None => fs_set fs path (Z.land mode (Z.lnot umask), content)
  | Some (m, _) => fs_set fs path (m, content)
  end.

Definition write_private_key_file (fs : fstab) (umask : Z) (path : Z) (content : list Z) : fstab :=
  write_key_file fs umask path o600 content.

(* ---- correspondence runs -------------------------------------------------------------------------------------- *)
Definition canon_pub (p : pubmat) : list Z :=
  match p with
  | PRsa e n => 0 :: enc_z e ++ enc_z n
  | PEc c x y => 1 :: c :: enc_z x ++ enc_z y
  | PEd pk => 2 :: pk
  end.

Definition pub_of_case (c : Z * Z * Z * Z * list Z) : pubmat :=
  let '(cls, cv, a, b, pk) := c in
  if cls =? 0 then PRsa a b else if cls =? 1 then PEc cv a b else PEd pk.

(* (class, curve, e|x, n|y, pk) -> asbytes *)
Definition run_asbytes (c : Z * Z * Z * Z * list Z) : list Z := canon_result (asbytes (pub_of_case c)).

(* (class, blob, utf8 bit, library validation bit) -> decoded public material + certificate flag *)
Definition run_from_blob (c : Z * list Z * bool * bool) : list Z :=
  let '(cls, blob, u8, ok) := c in
  match from_blob (fun _ => u8) (fun _ _ => ok) (fun _ _ _ => ok) cls blob with
  | Ok (p, cert) => 0 :: (if cert then 1 else 0) :: canon_pub p
  | Raise e => [exn_code e]
  end.

(* (existing mode or -1, umask) -> resulting permission bits of the key file *)
Definition run_write (c : Z * Z) : list Z :=
  let '(existing, umask) := c in
  let fs := if existing <? 0 then [] else [(1, (existing, [111; 108; 100]))] in
  match fs_get (write_private_key_file fs umask 1 [107]) 1 with
  | Some (m, content) => m :: content
  | None => [-1]
  end.
