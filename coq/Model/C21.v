(* C21 — channel byte streams arrive intact, in order and on the right stream.
   Composition layer: a transport with any number of channels, the run() loop's dispatch of
   incoming channel messages by channel id (transport.py, "elif ptype in
   self._channel_handler_table"), the channel handlers Channel._feed / _feed_extended /
   _handle_request(exit-status) / _handle_eof / _handle_close, the user calls recv /
   recv_stderr / set_combine_stderr / recv_exit_status, and BufferedPipe as a plain list FIFO
   (feed = append, read n = take n; FIFO-ness of the real BufferedPipe is C26's subject).
   Definitions only; proofs are in Proofs/C21_proofs.v.

   Granularity.  In the repaired code every operation below is ONE atomic step with respect to
   the state it touches: BufferedPipe.feed/read/empty run under the pipe's lock, and
   _feed_extended (test of combine_stderr + feed) as well as set_combine_stderr (flag, empty,
   re-feed) run under the channel lock.  So an arbitrary interleaving of the transport thread
   with any number of user threads is an arbitrary list of [op]s, and the theorems quantify
   over all such lists.  The code before the repair did the three steps of
   set_combine_stderr and the two steps of _feed_extended without a common lock; that code is
   modelled at its real granularity in the second part of this file ([mstep]), where the order
   inversion is exhibited. *)
From PV Require Import Bytes.
Open Scope Z_scope.

(* ---- BufferedPipe as a list FIFO ------------------------------------------------ *)
Definition pipe_feed (p s : list Z) : list Z := p ++ s.
(* read(nbytes): everything when len <= nbytes, else the first nbytes (nbytes >= 0) *)
Definition pipe_read (p : list Z) (n : Z) : list Z * list Z :=
  let k := Z.to_nat (Z.min (Z.max n 0) (Z.of_nat (length p))) in (firstn k p, skipn k p).

(* ---- one Channel object ---------------------------------------------------------- *)
Record chan := mkChan {
  c_out : list Z;      (* in_buffer *)
  c_err : list Z;      (* in_stderr_buffer *)
  c_comb : bool;       (* combine_stderr *)
  c_exit : Z;          (* exit_status, initially -1 *)
  c_status : bool;     (* status_event.is_set() *)
  c_pclosed : bool;    (* both pipes closed (EOF or close) *)
  c_closed : bool      (* closed *)
}.
Definition chan0 : chan := mkChan [] [] false (-1) false false false.

(* incoming channel messages (the part after the recipient channel id) *)
Inductive msg :=
  | Data (s : list Z)                 (* MSG_CHANNEL_DATA *)
  | ExtData (code : Z) (s : list Z)   (* MSG_CHANNEL_EXTENDED_DATA *)
  | ExitStatus (n : Z)                (* MSG_CHANNEL_REQUEST "exit-status" *)
  | ReqOther                          (* MSG_CHANNEL_REQUEST "xon-xoff" (ignored) *)
  | WinAdj (n : Z)                    (* MSG_CHANNEL_WINDOW_ADJUST *)
  | Success                           (* MSG_CHANNEL_SUCCESS *)
  | Eof                               (* MSG_CHANNEL_EOF *)
  | Close.                            (* MSG_CHANNEL_CLOSE *)

(* _channel_handler_table[ptype](chan, m) *)
Definition handle (ch : chan) (m : msg) : chan :=
  match m with
  | Data s =>                                   (* _feed: in_buffer.feed(s) *)
      mkChan (pipe_feed (c_out ch) s) (c_err ch) (c_comb ch) (c_exit ch) (c_status ch) (c_pclosed ch) (c_closed ch)
  | ExtData code s =>                           (* _feed_extended *)
      if code =? 1 then
        if c_comb ch
        then mkChan (pipe_feed (c_out ch) s) (c_err ch) (c_comb ch) (c_exit ch) (c_status ch) (c_pclosed ch) (c_closed ch)
        else mkChan (c_out ch) (pipe_feed (c_err ch) s) (c_comb ch) (c_exit ch) (c_status ch) (c_pclosed ch) (c_closed ch)
      else ch                                   (* unknown extended_data type: discarded *)
  | ExitStatus n =>                             (* _handle_request, key == "exit-status" *)
      mkChan (c_out ch) (c_err ch) (c_comb ch) n true (c_pclosed ch) (c_closed ch)
  | ReqOther | WinAdj _ | Success => ch
  | Eof =>                                      (* _handle_eof *)
      mkChan (c_out ch) (c_err ch) (c_comb ch) (c_exit ch) (c_status ch) true (c_closed ch)
  | Close =>                                    (* _handle_close -> _close_internal -> _set_closed *)
      mkChan (c_out ch) (c_err ch) (c_comb ch) (c_exit ch) true true true
  end.

(* message number of each modelled message kind and the handler the table must route it to
   (codes as in Gen/C21_gen.v: 1 _request_success, 3 _feed, 4 _feed_extended, 5 _window_adjust,
   6 _handle_request, 7 _handle_eof, 8 _handle_close); [handle] above mirrors exactly these handlers.
   Tied to common.py / Transport._channel_handler_table by Proofs (gen_dispatch). *)
Definition msg_ptype (m : msg) : Z :=
  match m with
  | Data _ => 94 | ExtData _ _ => 95 | ExitStatus _ => 98 | ReqOther => 98
  | WinAdj _ => 93 | Success => 99 | Eof => 96 | Close => 97
  end.
Definition handler_code (m : msg) : Z :=
  match m with
  | Data _ => 3 | ExtData _ _ => 4 | ExitStatus _ => 6 | ReqOther => 6
  | WinAdj _ => 5 | Success => 1 | Eof => 7 | Close => 8
  end.
Definition stderr_code : Z := 1.          (* the extended-data code [handle] / [ext_of] test for *)
Definition packet_overhead : Z := 64.     (* the constant in [send_size] *)

(* ---- the run() loop's channel dispatch ------------------------------------------- *)
Record ctl := mkCtl {
  k_active : bool;       (* the loop has not hit "break" *)
  k_reg : list Z;        (* ids present in self._channels *)
  k_seen : list Z        (* ids in self.channels_seen *)
}.
Definition memz (x : Z) (l : list Z) : bool := existsb (Z.eqb x) l.
Definition removez (x : Z) (l : list Z) : list Z := filter (fun y => negb (y =? x)) l.
Definition is_close (m : msg) : bool := match m with Close => true | _ => false end.

(*   chanid = m.get_int(); chan = self._channels.get(chanid)
     if chan is not None: handler(chan, m)
     elif chanid in self.channels_seen: log "dead channel"
     else: log "unknown channel"; break
   The bool says whether the message was handed to a channel. *)
Definition dispatch (k : ctl) (cid : Z) (m : msg) : ctl * bool :=
  if negb (k_active k) then (k, false)
  else if memz cid (k_reg k) then
    ((if is_close m then mkCtl (k_active k) (removez cid (k_reg k)) (k_seen k) else k), true)
  else if memz cid (k_seen k) then (k, false)
  else (mkCtl false (k_reg k) (k_seen k), false).

Definition upd (f : Z -> chan) (c : Z) (v : chan) : Z -> chan :=
  fun x => if x =? c then v else f x.

(* transport state: control + the Channel objects by id (a Channel object outlives its
   registration: the user keeps reading from it after CLOSE) *)
Definition state : Type := ctl * (Z -> chan).

(* ---- operations: the interleaved history ------------------------------------------ *)
Inductive op :=
  | Msg (cid : Z) (m : msg)          (* transport thread: next incoming channel message *)
  | Recv (c : Z) (n : Z)             (* a user thread: chan.recv(n), non-blocking *)
  | RecvErr (c : Z) (n : Z)          (* chan.recv_stderr(n) *)
  | SetCombine (c : Z) (b : bool)    (* chan.set_combine_stderr(b) *)
  | PollExit (c : Z)                 (* exit_status_ready() / recv_exit_status() *)
  | LocalClose (c : Z).              (* chan.close(): _close_internal -> _set_closed; the channel STAYS in
                                        self._channels until the peer's CLOSE ("the remote side may still try
                                        to send meta-data (exit-status, etc)") *)

Inductive event :=
  | EvOut (c : Z) (s : list Z)       (* recv returned s *)
  | EvErr (c : Z) (s : list Z)       (* recv_stderr returned s *)
  | EvOutTimeout (c : Z)             (* recv raised socket.timeout (nothing buffered) *)
  | EvErrTimeout (c : Z)
  | EvComb (c : Z) (old : bool)      (* set_combine_stderr returned old *)
  | EvExit (c : Z) (ready : bool) (v : Z).

Definition recv_out (ch : chan) (n : Z) : chan * option (list Z) :=
  match c_out ch with
  | [] => (ch, if c_pclosed ch then Some [] else None)
  | _ => let '(a, b) := pipe_read (c_out ch) n in
         (mkChan b (c_err ch) (c_comb ch) (c_exit ch) (c_status ch) (c_pclosed ch) (c_closed ch), Some a)
  end.
Definition recv_err (ch : chan) (n : Z) : chan * option (list Z) :=
  match c_err ch with
  | [] => (ch, if c_pclosed ch then Some [] else None)
  | _ => let '(a, b) := pipe_read (c_err ch) n in
         (mkChan (c_out ch) b (c_comb ch) (c_exit ch) (c_status ch) (c_pclosed ch) (c_closed ch), Some a)
  end.

(* set_combine_stderr (repaired code: the whole body under the channel lock) *)
Definition set_combine (ch : chan) (b : bool) : chan * bool :=
  let old := c_comb ch in
  if b && negb old
  then (mkChan (pipe_feed (c_out ch) (c_err ch)) [] true (c_exit ch) (c_status ch) (c_pclosed ch) (c_closed ch), old)
  else (mkChan (c_out ch) (c_err ch) b (c_exit ch) (c_status ch) (c_pclosed ch) (c_closed ch), old).

(* recv_exit_status returns exit_status once status_event is set (else it blocks) *)
Definition exit_ready (ch : chan) : bool := c_closed ch || c_status ch.

Definition step (s : state) (o : op) : state * list event :=
  let '(k, ch) := s in
  match o with
  | Msg cid m =>
      let '(k', d) := dispatch k cid m in
      ((k', if d then upd ch cid (handle (ch cid) m) else ch), [])
  | Recv c n =>
      let '(x, r) := recv_out (ch c) n in
      ((k, upd ch c x), [match r with Some a => EvOut c a | None => EvOutTimeout c end])
  | RecvErr c n =>
      let '(x, r) := recv_err (ch c) n in
      ((k, upd ch c x), [match r with Some a => EvErr c a | None => EvErrTimeout c end])
  | SetCombine c b =>
      let '(x, old) := set_combine (ch c) b in ((k, upd ch c x), [EvComb c old])
  | PollExit c =>
      (s, [EvExit c (exit_ready (ch c)) (if exit_ready (ch c) then c_exit (ch c) else 0)])
  | LocalClose c =>
      ((k, upd ch c (mkChan (c_out (ch c)) (c_err (ch c)) (c_comb (ch c)) (c_exit (ch c)) true true true)), [])
  end.

Fixpoint run (s : state) (ops : list op) : state * list event :=
  match ops with
  | [] => (s, [])
  | o :: r => let '(s1, e1) := step s o in
              let '(s2, e2) := run s1 r in (s2, e1 ++ e2)
  end.

Definition final (s : state) (ops : list op) (c : Z) : chan := snd (fst (run s ops)) c.
Definition events (s : state) (ops : list op) : list event := snd (run s ops).

(* what the user read from channel c, concatenated in the order of the calls *)
Definition reads_out (c : Z) (evs : list event) : list Z :=
  flat_map (fun e => match e with EvOut c' s => if c' =? c then s else [] | _ => [] end) evs.
Definition reads_err (c : Z) (evs : list event) : list Z :=
  flat_map (fun e => match e with EvErr c' s => if c' =? c then s else [] | _ => [] end) evs.

(* the whole stream as seen by the reader: what was read so far plus what is still buffered *)
Definition OUT (c : Z) (s : state) (ops : list op) : list Z :=
  reads_out c (events s ops) ++ c_out (final s ops c).
Definition ERR (c : Z) (s : state) (ops : list op) : list Z :=
  reads_err c (events s ops) ++ c_err (final s ops c).

(* ---- specification side ------------------------------------------------------------ *)
(* the peer's message stream in wire order (C01 delivers it in order) *)
Fixpoint msgs_of (ops : list op) : list (Z * msg) :=
  match ops with
  | [] => []
  | Msg cid m :: r => (cid, m) :: msgs_of r
  | _ :: r => msgs_of r
  end.

(* the sub-stream that reaches a channel: control only, no data *)
Fixpoint delivered (k : ctl) (l : list (Z * msg)) : list (Z * msg) :=
  match l with
  | [] => []
  | (cid, m) :: r =>
      let '(k', d) := dispatch k cid m in
      if d then (cid, m) :: delivered k' r else delivered k' r
  end.

(* per-channel projections of a message stream *)
Definition data_of (c : Z) (l : list (Z * msg)) : list Z :=
  flat_map (fun x => match snd x with Data s => if fst x =? c then s else [] | _ => [] end) l.
Definition ext_of (c : Z) (l : list (Z * msg)) : list Z :=
  flat_map (fun x => match snd x with
                     | ExtData code s => if (fst x =? c) && (code =? 1) then s else []
                     | _ => [] end) l.
Definition statuses (c : Z) (l : list (Z * msg)) : list Z :=
  flat_map (fun x => match snd x with ExitStatus n => if fst x =? c then [n] else [] | _ => [] end) l.

(* order-preserving merge of two sequences *)
Inductive Merge {A : Type} : list A -> list A -> list A -> Prop :=
  | Merge_nil : Merge [] [] []
  | Merge_l : forall x a b l, Merge a b l -> Merge (x :: a) b (x :: l)
  | Merge_r : forall x a b l, Merge a b l -> Merge a (x :: b) (x :: l).

(* combining is never switched on for channel c during the history *)
Definition never_combined (c : Z) (ops : list op) : Prop :=
  forall c' b, In (SetCombine c' b) ops -> c' = c -> b = false.
(* the user never reads channel c's stderr during the history *)
Definition no_recv_err (c : Z) (ops : list op) : Prop :=
  forall c' n, In (RecvErr c' n) ops -> c' <> c.
(* every incoming message is addressed to a registered channel and none closes one *)
Definition well_addressed (k : ctl) (l : list (Z * msg)) : Prop :=
  k_active k = true /\ forall cid m, In (cid, m) l -> memz cid (k_reg k) = true /\ m <> Close.

(* ---- sender side: sendall's chunking -------------------------------------------------- *)
(* sendall: while s: sent = send(s); s = s[sent:].  [grants] are the sizes _wait_for_send_window
   allots (min of request, window, max packet), chosen by the environment; a grant of 0 means
   EOF/closed (send returns 0).  Returns the DATA payloads emitted and the unsent rest. *)
Fixpoint sendall (grants : list nat) (s : list Z) : list (list Z) * list Z :=
  match s, grants with
  | [], _ => ([], [])
  | _, [] => ([], s)
  | _, O :: _ => ([], s)
  | _, g :: gs => let '(l, rest) := sendall gs (skipn g s) in (firstn g s :: l, rest)
  end.

(* ---- the code before the repair, at its real granularity ------------------------------ *)
(* One channel; the transport thread T runs _feed_extended(s) as [TCheck; TFeed s]; a user
   thread U runs set_combine_stderr(True) as [UFlag; UEmpty; URefeed].  Neither path of T
   takes the channel lock, so every merge of the two programs is a possible execution. *)
Record mstate := mkM {
  m_out : list Z; m_err : list Z; m_comb : bool;
  m_told : bool;          (* T's local: the flag value it tested *)
  m_uold : bool;          (* U's local: old *)
  m_udata : list Z        (* U's local: data *)
}.
Inductive mact :=
  | TCheck                 (* T: if self.combine_stderr: *)
  | TFeed (s : list Z)     (* T: self._feed(s) / self.in_stderr_buffer.feed(s) *)
  | UFlag                  (* U: old = self.combine_stderr; self.combine_stderr = True *)
  | UEmpty                 (* U: if combine and not old: data = self.in_stderr_buffer.empty() *)
  | URefeed.               (* U: (lock released) if len(data) > 0: self._feed(data) *)

Definition mstep (s : mstate) (a : mact) : mstate :=
  match a with
  | TCheck => mkM (m_out s) (m_err s) (m_comb s) (m_comb s) (m_uold s) (m_udata s)
  | TFeed x => if m_told s
               then mkM (m_out s ++ x) (m_err s) (m_comb s) (m_told s) (m_uold s) (m_udata s)
               else mkM (m_out s) (m_err s ++ x) (m_comb s) (m_told s) (m_uold s) (m_udata s)
  | UFlag => mkM (m_out s) (m_err s) true (m_told s) (m_comb s) (m_udata s)
  | UEmpty => if negb (m_uold s)
              then mkM (m_out s) [] (m_comb s) (m_told s) (m_uold s) (m_err s)
              else s
  | URefeed => mkM (m_out s ++ m_udata s) (m_err s) (m_comb s) (m_told s) (m_uold s) []
  end.
Definition mrun (s : mstate) (l : list mact) : mstate := fold_left mstep l s.

(* merge of the two thread programs chosen by a schedule (true = T moves, false = U moves) *)
Fixpoint mmerge (sched : list bool) (t u : list mact) : list mact :=
  match sched with
  | [] => t ++ u
  | true :: r => match t with a :: t' => a :: mmerge r t' u | [] => mmerge r t u end
  | false :: r => match u with a :: u' => a :: mmerge r t u' | [] => mmerge r t u end
  end.
Definition prog_T (s : list Z) : list mact := [TCheck; TFeed s].
Definition prog_U : list mact := [UFlag; UEmpty; URefeed].

(* merge of two programs chosen by a schedule (true = first program moves) *)
Fixpoint mmerge_gen {A} (sched : list bool) (t u : list A) : list A :=
  match sched with
  | [] => t ++ u
  | true :: r => match t with a :: t' => a :: mmerge_gen r t' u | [] => mmerge_gen r t u end
  | false :: r => match u with a :: u' => a :: mmerge_gen r t u' | [] => mmerge_gen r t u end
  end.

(* ---- exit status at statement granularity ---------------------------------------------- *)
(* _handle_request("exit-status") is two statements on the transport thread,
       self.exit_status = m.get_int()      [XStore n]
       self.status_event.set()             [XSet]
   and recv_exit_status() on a user thread is
       self.status_event.wait()            [RWait: enabled only once the event is set]
       return self.exit_status             [RRead]
   with no lock in common.  [xstep] returns None when the action is not enabled (the reader is
   still blocked).  The main model's one-step ExitStatus handler is justified by the theorem
   that every merge of the two programs reports n (store before set). *)
Record xstate := mkX { x_exit : Z; x_set : bool; x_result : option Z }.
Inductive xact := XStore (n : Z) | XSet | RWait | RRead.
Definition xstep (s : xstate) (a : xact) : option xstate :=
  match a with
  | XStore n => Some (mkX n (x_set s) (x_result s))
  | XSet => Some (mkX (x_exit s) true (x_result s))
  | RWait => if x_set s then Some s else None
  | RRead => Some (mkX (x_exit s) (x_set s) (Some (x_exit s)))
  end.
Fixpoint xrun (s : xstate) (l : list xact) : option xstate :=
  match l with
  | [] => Some s
  | a :: r => match xstep s a with Some s' => xrun s' r | None => None end
  end.
Definition xinit (old : Z) : xstate := mkX old false None.
Definition prog_handler (n : Z) : list xact := [XStore n; XSet].          (* the code as it is *)
Definition prog_handler_swapped (n : Z) : list xact := [XSet; XStore n].  (* set before store *)
Definition prog_reader : list xact := [RWait; RRead].

(* ---- sender side with the window: _wait_for_send_window + sendall ------------------------- *)
(* one send(): size = min(len, window); size = min(size, max_packet - 64); window -= size.
   Returns (bytes sent, new window).  window = 0 means "would block". *)
Definition send_size (len w p : Z) : Z * Z :=
  let size := if w <? len then w else len in
  let size := if p - 64 <? size then p - 64 else size in
  (size, w - size).
(* sendall with the window not replenished meanwhile: stops when the window is used up.
   Returns payloads, unsent rest, final window. *)
Fixpoint sendall_win (fuel : nat) (w p : Z) (s : list Z) : list (list Z) * list Z * Z :=
  match fuel with
  | O => ([], s, w)
  | S f =>
      match s with
      | [] => ([], [], w)
      | _ =>
          if w <=? 0 then ([], s, w)
          else let '(size, w') := send_size (Z.of_nat (length s)) w p in
               if size <=? 0 then ([], s, w)
               else let k := Z.to_nat size in
                    let '(l, rest, wf) := sendall_win f w' p (skipn k s) in
                    (firstn k s :: l, rest, wf)
      end
  end.

(* ---- canonical encodings for the correspondence run ---------------------------------- *)
Definition b2z (b : bool) : Z := if b then 1 else 0.
Definition enc_event (e : event) : list Z :=
  match e with
  | EvOut c s => [1; c; Z.of_nat (length s)] ++ s
  | EvErr c s => [2; c; Z.of_nat (length s)] ++ s
  | EvOutTimeout c => [3; c]
  | EvErrTimeout c => [4; c]
  | EvComb c old => [5; c; b2z old]
  | EvExit c r v => [6; c; b2z r; v]
  end.
Definition enc_chan (k : ctl) (ch : Z -> chan) (c : Z) : list Z :=
  [100; c; b2z (memz c (k_reg k)); Z.of_nat (length (c_out (ch c)))] ++ c_out (ch c) ++
  [Z.of_nat (length (c_err (ch c)))] ++ c_err (ch c) ++
  [b2z (c_comb (ch c)); b2z (exit_ready (ch c)); c_exit (ch c); b2z (c_closed (ch c))].

(* a case: ids registered (and seen), ids seen but no longer registered, ids to dump, history *)
Definition run_case (x : list Z * list Z * list Z * list op) : list Z :=
  let '(reg, dead, ids, ops) := x in
  let s0 : state := (mkCtl true reg (reg ++ dead), fun _ => chan0) in
  let '((k, ch), evs) := run s0 ops in
  flat_map enc_event evs ++ [(-1); b2z (k_active k)] ++ flat_map (enc_chan k ch) ids.

Definition run_micro (x : list Z * list Z * list bool) : list Z :=
  let '(a, b, sched) := x in
  let s := mrun (mkM [] a false false false []) (mmerge sched (prog_T b) prog_U) in
  [Z.of_nat (length (m_out s))] ++ m_out s ++ [Z.of_nat (length (m_err s))] ++ m_err s ++ [b2z (m_comb s)].

Definition run_sendall (x : list Z * list Z) : list Z :=
  let '(grants, s) := x in
  let '(l, rest) := sendall (map (fun g => Z.to_nat (Z.min (Z.max g 0) (Z.of_nat (length s)))) grants) s in
  flat_map (fun p => Z.of_nat (length p) :: p) l ++ [(-1)] ++ rest.

(* exit status schedules: [who] true = the handler moves, false = the reader moves *)
Definition run_exit (x : Z * Z * list bool) : list Z :=
  let '(old, n, sched) := x in
  match xrun (xinit old) (mmerge_gen sched (prog_handler n) prog_reader) with
  | Some s => match x_result s with Some v => [1; v] | None => [2] end
  | None => [0]
  end.

Definition run_sendall_win (x : Z * Z * list Z) : list Z :=
  let '(w, p, s) := x in
  let '(l, rest, wf) := sendall_win (S (length s)) w p s in
  flat_map (fun q => Z.of_nat (length q) :: q) l ++ [(-1)] ++ rest ++ [(-2); wf].

Definition run_ptype (m : msg) : list Z := [msg_ptype m; handler_code m].

(* one entry point for the small correspondence families (evaluated in one coqc run) *)
Inductive anycase :=
  | APtype (m : msg)
  | AMicro (x : list Z * list Z * list bool)
  | AExit (x : Z * Z * list bool)
  | ASendall (x : list Z * list Z)
  | ASendWin (x : Z * Z * list Z)
  | ACase (x : list Z * list Z * list Z * list op).
Definition run_any (a : anycase) : list Z :=
  match a with
  | APtype m => run_ptype m
  | AMicro x => run_micro x
  | AExit x => run_exit x
  | ASendall x => run_sendall x
  | ASendWin x => run_sendall_win x
  | ACase x => run_case x
  end.
