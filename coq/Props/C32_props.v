(* C32 — SFTP check-file returns the correct hashes for the requested ranges and answers.
   Property statements only; every proof is `exact <lemma from Proofs/C32_proofs.v>`.

   `hash` is any function on byte strings (md5, sha1, ... are not paramiko's): hash objects are
   modelled by the bytes fed to update(), their digest being hash of the concatenation.
   `chunk` is the server's read size (65536 in the source): every theorem holds for every
   chunk > 0.  `eff_bs` is the block size after the source's `block_size == 0` / `length == 0`
   substitutions; requests whose effective block size is below 256 are answered with a failure
   status ("Block size too small"), as before. *)
From PV Require Import Bytes C32_gen C32 C32_proofs.
Open Scope Z_scope.

(* the answer is the concatenation, over the consecutive blocks
   [start + i*bs, min(start + (i+1)*bs, stop)), i < ceil((stop - start) / bs), of the hash of that
   block of the file, where stop = min(start + length, size), or size when length = 0 *)
Theorem C32_digests :
  forall (hash : list Z -> list Z) chunk file start length bs,
  0 < chunk -> 0 <= start ->
  256 <= eff_bs (Z.of_nat (List.length file)) start length bs ->
  check_file hash chunk file start length bs = Sums (spec_sums hash file start length bs).
Proof. exact digests. Qed.
Print Assumptions C32_digests.

(* same, at the level of the server's reads: one group of reads per digest, each group
   delivering exactly its block's bytes, no read asking for more than `chunk` bytes *)
Theorem C32_reads :
  forall chunk file start length bs,
  0 < chunk -> 0 <= start ->
  let size := Z.of_nat (List.length file) in
  256 <= eff_bs size start length bs ->
  exists T,
    check_trace chunk size start length bs = Digests T /\
    map (ext_data file) T
      = map (fun b => slice file (fst b) (snd b))
            (spec_blocks start (range_stop size start length) (eff_bs size start length bs)) /\
    Forall (Forall (read_ok chunk)) T.
Proof. exact trace_ok. Qed.
Print Assumptions C32_reads.

(* the fuel of the model always suffices: every request is answered (digests or status) *)
Theorem C32_terminates :
  forall (hash : list Z -> list Z) chunk file start length bs,
  0 < chunk -> 0 <= start -> check_file hash chunk file start length bs <> Diverges.
Proof. exact terminates. Qed.
Print Assumptions C32_terminates.

Theorem C32_small_block_rejected :
  forall (hash : list Z -> list Z) chunk file start length bs,
  eff_bs (Z.of_nat (List.length file)) start length bs < 256 ->
  check_file hash chunk file start length bs = Fail SFTP_FAILURE.
Proof. exact small_block_rejected. Qed.
Print Assumptions C32_small_block_rejected.

(* the blocks are consecutive and partition [start, stop) *)
Theorem C32_blocks_consecutive :
  forall start stop bs, 0 < bs -> start < stop ->
  spec_blocks start stop bs = (start, Z.min bs (stop - start)) :: spec_blocks (start + bs) stop bs.
Proof. exact spec_blocks_cons. Qed.
Print Assumptions C32_blocks_consecutive.

Theorem C32_blocks_end : forall start stop bs, stop <= start -> spec_blocks start stop bs = nil.
Proof. exact spec_blocks_nil. Qed.
Print Assumptions C32_blocks_end.

(* one digest per block *)
Theorem C32_answer_length :
  forall (hash : list Z -> list Z) dlen file start length bs,
  (forall x, List.length (hash x) = dlen) ->
  List.length (spec_sums hash file start length bs)
  = (Z.to_nat (nblocks start (range_stop (Z.of_nat (List.length file)) start length)
                       (eff_bs (Z.of_nat (List.length file)) start length bs)) * dlen)%nat.
Proof. exact sums_length. Qed.
Print Assumptions C32_answer_length.

(* check(alg) with the defaults hashes the whole file *)
Theorem C32_whole_file :
  forall (hash : list Z -> list Z) chunk file,
  0 < chunk -> 256 <= Z.of_nat (List.length file) ->
  check_file hash chunk file 0 0 0 = Sums (hash file).
Proof. exact whole_file. Qed.
Print Assumptions C32_whole_file.

(* tie to the source: the minimum block size regenerated from _check_file's AST on this run is the
   256 of the property, and the theorems apply to the read chunk size the source uses *)
Theorem C32_source_constants : MIN_BLOCK = 256 /\ 0 < SOURCE_CHUNK.
Proof. exact source_constants. Qed.
Print Assumptions C32_source_constants.

Theorem C32_digests_source :
  forall (hash : list Z -> list Z) file start length bs,
  0 <= start ->
  256 <= eff_bs (Z.of_nat (List.length file)) start length bs ->
  check_file hash SOURCE_CHUNK file start length bs = Sums (spec_sums hash file start length bs).
Proof. exact digests_source. Qed.
Print Assumptions C32_digests_source.

(* algorithm selection: the reply names the FIRST entry of the client's preference list that the
   server supports (the client's order wins, unsupported names are skipped); none supported = failure *)
Theorem C32_first_supported :
  forall sup req a, first_supported sup req = Some a ->
  exists l1 l2, req = l1 ++ a :: l2 /\ In a sup /\ (forall x, In x l1 -> ~ In x sup).
Proof. exact first_supported_some. Qed.
Print Assumptions C32_first_supported.

Theorem C32_none_supported :
  forall sup req, first_supported sup req = None <-> (forall x, In x req -> ~ In x sup).
Proof. exact first_supported_none. Qed.
Print Assumptions C32_none_supported.

(* what the repair removed: the old inner loop (fixed chunklen, offset += count, no EOF exit)
   never ends once the offset is at or past end of file with bytes still wanted *)
Theorem C32_old_loop_diverges :
  forall size fuel blocklen chunklen count offset reads,
  0 <= count < blocklen -> size <= offset ->
  old_inner size fuel blocklen chunklen count offset reads = None.
Proof. exact old_inner_diverges. Qed.
Print Assumptions C32_old_loop_diverges.

(* ... and, before that, skips file bytes as soon as a block needs a third read
   (here chunk 4, block 12: the third read is at 12 instead of 8) *)
Example C32_old_loop_skips :
  old_inner 100 10 12 4 0 0 nil = Some ([(0, 4); (4, 4); (12, 4)], 12, 24).
Proof. reflexivity. Qed.

(* non-vacuity: 10-byte chunks, a 700-byte file, range [5, 5+600) in blocks of 256, with the
   identity as "hash": the answer is the range itself; and a range past end of file *)
Example C32_example :
  let file := map Z.of_nat (seq 0 700) in
  check_file (fun x => x) 10 file 5 600 256 = Sums (slice file 5 600) /\
  check_file (fun x => x) 10 file 300 0 256 = Sums (slice file 300 400) /\
  check_file (fun x => [Z.of_nat (List.length x)]) 10 file 300 1000 256 = Sums [256; 144] /\
  check_file (fun x => x) 10 file 700 50 256 = Sums [] /\
  check_file (fun x => x) 10 file 0 100 0 = Fail 4.
Proof. vm_compute. repeat split. Qed.
