(* C44 -- lemmas about Model/C44.v *)
From Coq Require Import ZArith List Bool Lia.
From PV Require Import Bytes AuthShape C44_gen C44.
Import ListNotations.
Open Scope Z_scope.

Lemma all_raise_app a b : all_raise (a ++ b) <-> all_raise a /\ all_raise b.
Proof. unfold all_raise. rewrite forallb_app, andb_true_iff. tauto. Qed.

(* complete characterisation of the loop from any accumulated overall_result *)
Lemma auth_loop_spec srcs : forall acc,
  (exists pre s v post,
      srcs = pre ++ (s, Returns v) :: post /\ all_raise pre /\
      auth_loop srcs acc = Success (acc ++ pre ++ [(s, Returns v)])) \/
  (all_raise srcs /\ auth_loop srcs acc = AuthFailure (acc ++ srcs)) \/
  (exists pre s e post,
      srcs = pre ++ (s, Escapes e) :: post /\ all_raise pre /\
      auth_loop srcs acc = Propagated e (acc ++ pre) s).
Proof.
  induction srcs as [|[s o] rest IH]; intros acc.
  - right. left. split; [reflexivity|]. cbn. now rewrite app_nil_r.
  - destruct o as [v|e|e]; cbn [auth_loop].
    + left. exists [], s, v, rest. repeat split.
    + destruct (IH (acc ++ [(s, Raises e)])) as
          [(pre & s' & v & post & E & Hr & Hl)|[(Hr & Hl)|(pre & s' & e' & post & E & Hr & Hl)]].
      * left. exists ((s, Raises e) :: pre), s', v, post. subst rest. split; [reflexivity|].
        split; [exact Hr|]. rewrite Hl. now rewrite <- !app_assoc.
      * right. left. split; [exact Hr|]. rewrite Hl. now rewrite <- app_assoc.
      * right. right. exists ((s, Raises e) :: pre), s', e', post. subst rest. split; [reflexivity|].
        split; [exact Hr|]. rewrite Hl. now rewrite <- !app_assoc.
    + right. right. exists [], s, e, rest. repeat split. now rewrite app_nil_r.
Qed.

Lemma authenticate_spec srcs :
  (exists pre s v post,
      srcs = pre ++ (s, Returns v) :: post /\ all_raise pre /\
      authenticate srcs = Success (pre ++ [(s, Returns v)])) \/
  (all_raise srcs /\ authenticate srcs = AuthFailure srcs) \/
  (exists pre s e post,
      srcs = pre ++ (s, Escapes e) :: post /\ all_raise pre /\
      authenticate srcs = Propagated e pre s).
Proof. exact (auth_loop_spec srcs []). Qed.

(* the three outcomes are told apart by the shape of the source list *)
Lemma split_unique (pre1 pre2 : list source) x1 x2 post1 post2 :
  pre1 ++ x1 :: post1 = pre2 ++ x2 :: post2 ->
  all_raise pre1 -> all_raise pre2 -> is_raise x1 = false -> is_raise x2 = false ->
  pre1 = pre2 /\ x1 = x2 /\ post1 = post2.
Proof.
  revert pre2. induction pre1 as [|a p1 IH]; intros [|b p2] E H1 H2 N1 N2; cbn in E.
  - injection E as -> ->. auto.
  - injection E as -> _. unfold all_raise in H2. cbn in H2. rewrite N1 in H2. discriminate.
  - injection E as -> _. unfold all_raise in H1. cbn in H1. rewrite N2 in H1. discriminate.
  - injection E as -> E. unfold all_raise in *. cbn in H1, H2.
    apply andb_true_iff in H1 as [_ H1]. apply andb_true_iff in H2 as [_ H2].
    destruct (IH p2 E H1 H2 N1 N2) as (-> & -> & ->). auto.
Qed.

(* tries in order, stops at the first success *)
Lemma order_and_stop srcs ov :
  authenticate srcs = Success ov ->
  exists pre s v post,
    srcs = pre ++ (s, Returns v) :: post /\ all_raise pre /\
    called (authenticate srcs) = map fst pre ++ [s].
Proof.
  intros H. destruct (authenticate_spec srcs) as
      [(pre & s & v & post & E & Hr & Hl)|[(Hr & Hl)|(pre & s & e & post & E & Hr & Hl)]];
    rewrite Hl in H; try discriminate.
  exists pre, s, v, post. split; [exact E|]. split; [exact Hr|].
  rewrite Hl. cbn [called]. now rewrite map_app.
Qed.

(* whatever happens, the sources called are an initial segment of the produced order *)
Lemma called_prefix srcs : exists rest, map fst srcs = called (authenticate srcs) ++ rest.
Proof.
  destruct (authenticate_spec srcs) as
      [(pre & s & v & post & E & Hr & Hl)|[(Hr & Hl)|(pre & s & e & post & E & Hr & Hl)]]; rewrite Hl; cbn [called].
  - exists (map fst post). rewrite E, !map_app. cbn. now rewrite <- app_assoc.
  - exists []. now rewrite app_nil_r.
  - exists (map fst post). rewrite E, !map_app. cbn. now rewrite <- app_assoc.
Qed.

(* the result lists every attempted source with its outcome, in order *)
Lemma result_lists_all srcs ov :
  authenticate srcs = Success ov ->
  exists pre s v post,
    srcs = pre ++ (s, Returns v) :: post /\ all_raise pre /\ ov = pre ++ [(s, Returns v)].
Proof.
  intros H. destruct (authenticate_spec srcs) as
      [(pre & s & v & post & E & Hr & Hl)|[(Hr & Hl)|(pre & s & e & post & E & Hr & Hl)]];
    rewrite Hl in H; try discriminate.
  injection H as <-. exists pre, s, v, post. auto.
Qed.

(* AuthFailure exactly when every source raised; it then carries every source with its error *)
Lemma failure_carries_all srcs :
  (all_raise srcs -> authenticate srcs = AuthFailure srcs) /\
  (forall ov, authenticate srcs = AuthFailure ov -> all_raise srcs /\ ov = srcs).
Proof.
  destruct (authenticate_spec srcs) as
      [(pre & s & v & post & E & Hr & Hl)|[(Hr & Hl)|(pre & s & e & post & E & Hr & Hl)]].
  - split.
    + intros Ha. exfalso. rewrite E in Ha. apply all_raise_app in Ha as [_ Ha].
      unfold all_raise in Ha. cbn in Ha. discriminate.
    + intros ov H. rewrite Hl in H. discriminate.
  - split; [auto|]. intros ov H. rewrite Hl in H. injection H as <-. auto.
  - split.
    + intros Ha. exfalso. rewrite E in Ha. apply all_raise_app in Ha as [_ Ha].
      unfold all_raise in Ha. cbn in Ha. discriminate.
    + intros ov H. rewrite Hl in H. discriminate.
Qed.

(* a success is reported whenever some source returns after only caught failures *)
Lemma first_success_wins pre s v post :
  all_raise pre ->
  authenticate (pre ++ (s, Returns v) :: post) = Success (pre ++ [(s, Returns v)]).
Proof.
  intros Hr. destruct (authenticate_spec (pre ++ (s, Returns v) :: post)) as
      [(pre' & s' & v' & post' & E & Hr' & Hl)|[(Ha & Hl)|(pre' & s' & e' & post' & E & Hr' & Hl)]].
  - destruct (split_unique _ _ _ _ _ _ E Hr Hr' eq_refl eq_refl) as (-> & Ex & ->).
    injection Ex as -> ->. exact Hl.
  - exfalso. apply all_raise_app in Ha as [_ Ha]. unfold all_raise in Ha. cbn in Ha. discriminate.
  - destruct (split_unique _ _ _ _ _ _ E Hr Hr' eq_refl eq_refl) as (_ & Ex & _). discriminate.
Qed.

(* ---- the source has the shape the model assumes (Gen/C44_gen.v) ------------------------------ *)
Lemma source_shape :
  src_loop_shape = expected_loop_shape /\
  src_source_facts = expected_source_facts /\
  src_source_result_fields = expected_source_result_fields /\
  src_auth_result_bases = expected_auth_result_bases /\ src_auth_result_keeps_strategy = true /\
  src_auth_failure_bases = expected_auth_failure_bases /\ src_auth_failure_keeps_result = true /\
  src_client_glue = expected_client_glue.
Proof. repeat split; reflexivity. Qed.

Lemma auth_loop_g_expected srcs : forall acc,
  auth_loop_g expected_loop_shape srcs acc false = auth_loop srcs acc.
Proof.
  induction srcs as [|[s o] rest IH]; intros acc; [reflexivity|].
  destruct o as [v|e|e]; cbn; [reflexivity | apply IH | reflexivity].
Qed.

(* so the model the theorems are about is the loop of the source as it is now *)
Lemma authenticate_src_is_model srcs : authenticate_src srcs = authenticate srcs.
Proof.
  unfold authenticate_src, authenticate. destruct source_shape as [-> _]. apply auth_loop_g_expected.
Qed.
