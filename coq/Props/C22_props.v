(* C22 -- channel EOF and CLOSE are sent at most once and end data transmission.
   Property statements only; every proof is `exact <lemma from Proofs/C22_proofs.v>`.

   Reading guide.  [crun (init_cfg s progs) sch = Some c]: configuration [c] is reached from a
   fresh channel state [s] (nothing sent; any windows / active flag / map membership; blocking
   (timeout None) or non-blocking (timeout 0.0) sends) when the
   threads [progs] (any number of threads, any operations, including the peer's messages and
   _unlink) are run under the schedule [sch] (any list of thread numbers).  [wire c] is the order
   in which messages were handed to transport._send_user_message; [pending c] are the messages
   already produced under the channel lock whose _send_user_message call has not happened yet;
   [ltr c] is the order in which the messages were produced under the lock. *)
From PV Require Import Bytes Sched C22 C22_proofs.
Open Scope Z_scope.

(* at most one EOF, under every interleaving (also counting messages still to be emitted) *)
Theorem C22_eof_once :
  forall s progs sch c,
    init_st s -> crun (init_cfg s progs) sch = Some c ->
    (cnt isEof (wire c) + cnt isEof (pending c) <= 1)%nat.
Proof. exact eof_once. Qed.
Print Assumptions C22_eof_once.

(* at most one CLOSE *)
Theorem C22_close_once :
  forall s progs sch c,
    init_st s -> crun (init_cfg s progs) sch = Some c ->
    (cnt isClose (wire c) + cnt isClose (pending c) <= 1)%nat.
Proof. exact close_once. Qed.
Print Assumptions C22_close_once.

(* a peer CLOSE handled on an active channel that is in the transport's map is answered:
   from the moment its critical section has run there is exactly one CLOSE of ours sent or about
   to be sent -- the one we sent before, or the answer -- whatever happens afterwards; once every
   thread has emitted what it produced it is on the wire *)
Theorem C22_close_answered :
  forall s progs s1 c tid c' s2 c'',
    init_st s -> crun (init_cfg s progs) s1 = Some c ->
    at_op c tid KCloseH -> active (sh c) = true -> in_map (sh c) = true ->
    cstep c tid = Some c' -> crun c' s2 = Some c'' ->
    (cnt isClose (wire c'') + cnt isClose (pending c'') = 1)%nat /\
    (quiescent c'' -> cnt isClose (wire c'') = 1%nat).
Proof. exact close_answered. Qed.
Print Assumptions C22_close_answered.

(* after the peer's CLOSE has been handled the channel is out of the transport's map for ever;
   if it was an open channel (so both CLOSEs are now exchanged) it is closed and EOF'd for ever
   and NO operation of any thread produces a message any more: the lock-order trace is frozen
   and the wire only receives what was already pending *)
Theorem C22_released :
  forall s progs s1 c tid c' s2 c'',
    init_st s -> crun (init_cfg s progs) s1 = Some c ->
    at_op c tid KCloseH -> cstep c tid = Some c' -> crun c' s2 = Some c'' ->
    in_map (sh c'') = false /\
    (active (sh c) = true -> in_map (sh c) = true ->
       closed (sh c'') = true /\ eof_sent (sh c'') = true /\ ltr c'' = ltr c' /\
       forall p, (cnt p (wire c'') + cnt p (pending c'') = cnt p (wire c') + cnt p (pending c'))%nat).
Proof. exact released. Qed.
Print Assumptions C22_released.

(* ... and operations on such a channel fail instead of sending: in a closed and EOF'd state every
   operation produces no message, send / send_stderr raise socket.error, the state stays dead *)
Theorem C22_released_ops_fail :
  forall o s,
    closed s = true -> eof_sent s = true ->
    o_msgs (exec o s) = [] /\ closed (o_st (exec o s)) = true /\ eof_sent (o_st (exec o s)) = true /\
    (is_send_op o = true -> o_res (exec o s) = r_exn SocketErr).
Proof. exact exec_dead. Qed.
Print Assumptions C22_released_ops_fail.

(* what does hold about data: in the order of the critical sections no DATA / EXTENDED_DATA
   follows an EOF or CLOSE and no EOF follows the CLOSE, and the wire carries exactly the
   messages produced under the lock (as multisets) ... *)
Theorem C22_no_data_after_in_lock_order :
  forall s progs sch c,
    init_st s -> crun (init_cfg s progs) sch = Some c ->
    no_data_after (ltr c) = true /\ no_eof_after_close (ltr c) = true /\
    (forall p, (cnt p (wire c) + cnt p (pending c) = cnt p (ltr c))%nat).
Proof. exact lock_order. Qed.
Print Assumptions C22_no_data_after_in_lock_order.

(* ... and a data message is only ever produced in a state where neither EOF nor CLOSE has been
   produced (window reservation refuses afterwards).  [exec] ranges over every step of every
   operation, including [KBlocked]: the step of a writer that was blocked in
   out_buffer_cv.wait() on a zero window (timeout None), was notified, re-acquired the lock and
   re-tests closed / eof_sent inside and AFTER the wait loop before reserving *)
Theorem C22_data_reserved_before_end :
  forall o s, existsb isData (o_msgs (exec o s)) = true -> closed s = false /\ eof_sent s = false.
Proof. exact data_reserved_before. Qed.
Print Assumptions C22_data_reserved_before_end.

(* KNOWN FINDING.  The desired statement
     C22_no_data_after : forall s progs sch c, init_st s -> crun (init_cfg s progs) sch = Some c ->
                         no_data_after (wire c) = true
   is FALSE for the code as it is: _send releases the lock before calling _send_user_message, so
   thread 0 = send(5) reserves, thread 1 = close() runs completely, thread 0 emits.
   Schedule [0;1;1;1;0] puts EOF, CLOSE, DATA on the wire. *)
Theorem C22_no_data_after_refuted :
  exists s progs sch c,
    init_st s /\ crun (init_cfg s progs) sch = Some c /\ quiescent c /\
    wire c = [MEof; MClose; MData 5] /\ no_data_after (wire c) = false.
Proof. exact no_data_after_refuted. Qed.
Print Assumptions C22_no_data_after_refuted.

(* same root cause (shutdown_write emits outside the lock): EOF can follow CLOSE on the wire;
   not part of the property text, recorded for the maintainers *)
Theorem C22_eof_after_close_reachable :
  exists s progs sch c,
    init_st s /\ crun (init_cfg s progs) sch = Some c /\ quiescent c /\ wire c = [MClose; MEof].
Proof. exact eof_after_close_reachable. Qed.
Print Assumptions C22_eof_after_close_reachable.

(* non-vacuity: the hypotheses of C22_close_answered / C22_released are met by a reachable
   configuration (three threads, after the data-after-close schedule) *)
Example C22_closeh_reachable :
  exists s progs s1 c tid c',
    init_st s /\ crun (init_cfg s progs) s1 = Some c /\ at_op c tid KCloseH /\
    active (sh c) = true /\ in_map (sh c) = true /\ cstep c tid = Some c' /\
    wire c = [MEof; MClose; MData 5].
Proof. exact closeh_reachable. Qed.

(* the blocking path is exercised: blocked writer, shutdown_write, late WINDOW_ADJUST: the writer
   returns 0 and the wire is just [EOF]; before the WINDOW_ADJUST it cannot run at all *)
Example C22_blocked_writer_refused :
  exists c,
    crun (init_cfg blocked_init [[OSend 5]; [OShutdown 1; OPeerWa 7]]) [0; 1; 1; 1; 1; 0]%nat = Some c /\
    wire c = [MEof] /\ quiescent c /\
    map res (thr c) = [r_ok 0; r_ok 0 ++ r_ok 0] /\
    crun (init_cfg blocked_init [[OSend 5]; [OShutdown 1; OPeerWa 7]]) [0; 1; 1; 0]%nat = None.
Proof. exact blocked_writer_refused. Qed.

Example C22_dead_state_exists :
  exists s, closed s = true /\ eof_sent s = true /\ is_send_op (OSend 3) = true.
Proof. exists (set_closed (set_eof_sent witness_init)). repeat split. Qed.
