(* C16 -- a server pins one username per connection and caps failed attempts.
   Statements only.  Model: coq/Model/C14.v (shared), coq/Model/C16.v. *)
From PV Require Import Bytes C39 C14 C16 C16_proofs.
Open Scope Z_scope.

(* once a username is pinned, a request for a different one (whatever method, body, oracle, and
   whether or not a gssapi exchange is in progress) sends DISCONNECT(no more auth methods), closes
   the transport, consults no callback at all and authenticates nobody *)
Theorem C16_username_pinned :
  forall sig_ok sid st u0 u s b e st' outs,
    a_active st = true -> a_authed st = false -> a_user st = Some u0 ->
    beq u0 u = false -> beq s s_connection = true ->
    auth_step sig_ok sid st (Msg50 u s b) e = (st', outs) ->
    outs = [ODisconnect 14; OClose] /\ a_active st' = false /\ a_authed st' = false /\
    a_user st' = Some u0.
Proof. exact username_pinned. Qed.
Print Assumptions C16_username_pinned.

(* a service other than ssh-connection does the same with DISCONNECT(service not available) *)
Theorem C16_service :
  forall sig_ok sid st u s b e st' outs,
    a_active st = true -> a_authed st = false -> beq s s_connection = false ->
    auth_step sig_ok sid st (Msg50 u s b) e = (st', outs) ->
    outs = [ODisconnect 7; OClose] /\ a_active st' = false /\ a_authed st' = false.
Proof. exact wrong_service. Qed.
Print Assumptions C16_service.

(* a closed transport processes nothing: no callback, no message, no state change, ever *)
Theorem C16_closed_is_final :
  forall sig_ok sid steps st, a_active st = false -> run sig_ok sid st steps = (st, []).
Proof. exact closed_run. Qed.
Print Assumptions C16_closed_is_final.

(* the failure counter equals the number of USERAUTH_FAILURE(partial = false) messages sent *)
Theorem C16_counter_is_wire_failures :
  forall sig_ok sid steps st' outs,
    run sig_ok sid init steps = (st', outs) -> a_fails st' = counted_failures outs.
Proof. exact counter_is_wire_failures. Qed.
Print Assumptions C16_counter_is_wire_failures.

(* for every request list: once ten counted failures are on the wire the transport is closed, and
   whatever the client sends afterwards produces no output at all (no callback is invoked, no
   credentials are evaluated) -- the whole connection equals its prefix *)
Theorem C16_ten_failures :
  forall sig_ok sid pre post st1 o1,
    run sig_ok sid init pre = (st1, o1) ->
    fail_limit <= counted_failures o1 ->
    a_active st1 = false /\
    run sig_ok sid st1 post = (st1, []) /\
    run sig_ok sid init (pre ++ post) = (st1, o1).
Proof. exact ten_failures. Qed.
Print Assumptions C16_ten_failures.

(* the limit is not lower than ten: with fewer than nine failures so far a failed password
   attempt leaves the connection open *)
Theorem C16_not_before_ten :
  forall sig_ok sid st u e st' outs,
    a_active st = true -> a_authed st = false -> a_gss st = false -> a_fails st < fail_limit - 1 ->
    (match a_user st with Some u0 => beq u0 u = true | None => True end) ->
    auth_step sig_ok sid st (Msg50 u s_connection (BPassword false)) e = (st', outs) ->
    a_active st' = true.
Proof. exact nine_failures_open. Qed.
Print Assumptions C16_not_before_ten.

(* the constants the statements above use are the ones in the source today (regenerated each run) *)
Theorem C16_generated_constants : fail_limit = 10 /\ disc_svc = 7 /\ disc_nomore = 14.
Proof. exact generated_constants. Qed.
Print Assumptions C16_generated_constants.

(* non-vacuity: ten failed passwords close the connection, the eleventh is not evaluated *)
Definition failpw : amsg * env :=
  (Msg50 [97] s_connection (BPassword false), MkEnv RFailed false false [] true 1 true false false).
Example C16_example_ten :
  let '(st, outs) := run toy_sig_ok [] init (repeat failpw 12) in
  counted_failures outs = 10 /\ a_active st = false /\
  Z.of_nat (length (filter is_cb outs)) = 10.
Proof. vm_compute. repeat split. Qed.
Example C16_example_pinned :
  let '(st1, _) := auth_step toy_sig_ok [] init (fst failpw) (snd failpw) in
  a_user st1 = Some [97] /\ beq [97] [98] = false /\ a_active st1 = true.
Proof. vm_compute. repeat split. Qed.
