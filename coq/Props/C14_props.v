From PV Require Import Bytes C39 C14 C14_proofs.
Theorem C14_tmp : init = init. Proof. exact placeholder. Qed.
Print Assumptions C14_tmp.
