From PV Require Import Bytes C39 C14 C14_proofs C16.
Open Scope Z_scope.

Lemma username_pinned :
  forall sig_ok sid st u0 u s b e st' outs,
    a_active st = true -> a_authed st = false -> a_user st = Some u0 ->
    beq u0 u = false -> beq s s_connection = true ->
    auth_step sig_ok sid st (Msg50 u s b) e = (st', outs) ->
    outs = [ODisconnect 14; OClose] /\ a_active st' = false /\ a_authed st' = false /\
    a_user st' = Some u0.
Proof.
  intros sig_ok sid st u0 u s b e st' outs Hact Hau Hu Hne Hs H.
  destruct st as [act au us fl gs ex]. simpl in *. subst.
  unf H. simpl in H. rewrite Hs, Hne in H. simpl in H.
  destruct gs; simpl in H; inversion H; subst; simpl; repeat split.
Qed.

Lemma wrong_service :
  forall sig_ok sid st u s b e st' outs,
    a_active st = true -> a_authed st = false -> beq s s_connection = false ->
    auth_step sig_ok sid st (Msg50 u s b) e = (st', outs) ->
    outs = [ODisconnect 7; OClose] /\ a_active st' = false /\ a_authed st' = false.
Proof.
  intros sig_ok sid st u s b e st' outs Hact Hau Hs H.
  destruct st as [act au us fl gs ex]. simpl in *. subst.
  unf H. simpl in H. rewrite Hs in H. simpl in H.
  destruct gs; simpl in H; inversion H; subst; simpl; repeat split.
Qed.

Lemma closed_step :
  forall sig_ok sid st m e, a_active st = false -> auth_step sig_ok sid st m e = (st, []).
Proof. intros sig_ok sid st m e H. unfold auth_step. rewrite H. reflexivity. Qed.

Lemma closed_run :
  forall sig_ok sid steps st, a_active st = false -> run sig_ok sid st steps = (st, []).
Proof.
  intros sig_ok sid steps. induction steps as [|[m e] r IH]; intros st H; simpl; [reflexivity|].
  rewrite closed_step by exact H. rewrite IH by exact H. reflexivity.
Qed.

(* one step: the counter grows by exactly the counted failures sent, and the invariant holds *)
Lemma step_counts :
  forall sig_ok sid st m e st' outs,
    auth_step sig_ok sid st m e = (st', outs) ->
    a_fails st' = a_fails st + counted_failures outs /\ (fail_inv st -> fail_inv st').
Proof.
  intros sig_ok sid st m e st' outs H.
  destruct st as [act au us fl gs ex]. destruct e as [res g ko bits mo tk mi kc bn].
  unfold fail_inv, counted_failures, fail_limit, gen_fail_limit in *.
  unf H. unfold fail_limit, gen_fail_limit in H. simpl in *.
  brk H; inversion H; subst; clear H; simpl; split; try lia; intros [Hi|Hi];
    first [ left; lia | right; reflexivity | right; assumption | right; congruence | lia | congruence ].
Qed.

Lemma counted_app a b : counted_failures (a ++ b) = counted_failures a + counted_failures b.
Proof. unfold counted_failures. rewrite filter_app, app_length. lia. Qed.

Lemma run_counts :
  forall sig_ok sid steps st st' outs,
    run sig_ok sid st steps = (st', outs) ->
    a_fails st' = a_fails st + counted_failures outs /\ (fail_inv st -> fail_inv st').
Proof.
  intros sig_ok sid steps. induction steps as [|[m e] r IH]; intros st st' outs H.
  - simpl in H. inversion H; subst. unfold counted_failures. simpl. split; [lia|tauto].
  - simpl in H. destruct (auth_step sig_ok sid st m e) as [st1 o1] eqn:E1.
    destruct (run sig_ok sid st1 r) as [st2 o2] eqn:E2. inversion H; subst; clear H.
    destruct (step_counts _ _ _ _ _ _ _ E1) as [A1 B1]. destruct (IH _ _ _ E2) as [A2 B2].
    rewrite counted_app. split; [lia|tauto].
Qed.

Lemma run_app :
  forall sig_ok sid pre post st st1 o1 st2 o2,
    run sig_ok sid st pre = (st1, o1) -> run sig_ok sid st1 post = (st2, o2) ->
    run sig_ok sid st (pre ++ post) = (st2, o1 ++ o2).
Proof.
  intros sig_ok sid pre. induction pre as [|[m e] r IH]; intros post st st1 o1 st2 o2 H1 H2.
  - simpl in *. inversion H1; subst. exact H2.
  - simpl in *. destruct (auth_step sig_ok sid st m e) as [sa oa] eqn:Ea.
    destruct (run sig_ok sid sa r) as [sb ob] eqn:Eb. inversion H1; subst; clear H1.
    rewrite (IH _ _ _ _ _ _ Eb H2). rewrite app_assoc. reflexivity.
Qed.

Lemma ten_failures :
  forall sig_ok sid pre post st1 o1,
    run sig_ok sid init pre = (st1, o1) ->
    fail_limit <= counted_failures o1 ->
    a_active st1 = false /\
    run sig_ok sid st1 post = (st1, []) /\
    run sig_ok sid init (pre ++ post) = (st1, o1).
Proof.
  intros sig_ok sid pre post st1 o1 H Hc.
  destruct (run_counts _ _ _ _ _ _ H) as [A B].
  assert (I : fail_inv st1) by (apply B; left; unfold fail_limit, gen_fail_limit; simpl; lia).
  assert (Hin : a_active st1 = false).
  { destruct I as [I|I]; [|exact I]. simpl in A. lia. }
  split; [exact Hin|]. split; [apply closed_run; exact Hin|].
  rewrite (run_app _ _ _ _ _ _ _ _ _ H (closed_run _ _ post _ Hin)). rewrite app_nil_r. reflexivity.
Qed.

(* fewer than ten counted failures never close the connection by themselves: the limit is not
   lower than ten -- a connection that only saw nine failed passwords is still open *)
Lemma nine_failures_open :
  forall sig_ok sid st u e st' outs,
    a_active st = true -> a_authed st = false -> a_gss st = false -> a_fails st < fail_limit - 1 ->
    (match a_user st with Some u0 => beq u0 u = true | None => True end) ->
    auth_step sig_ok sid st (Msg50 u s_connection (BPassword false)) e = (st', outs) ->
    a_active st' = true.
Proof.
  intros sig_ok sid st u e st' outs Hact Hau Hg Hf Hu H.
  destruct st as [act au us fl gs ex]. destruct e as [res g ko bits mo tk mi kc bn].
  simpl in *. subst. unfold fail_limit, gen_fail_limit in *.
  unf H. unfold fail_limit, gen_fail_limit in H. simpl in H.
  change (beq s_connection s_connection) with true in H. simpl in H.
  destruct us as [u0|]; [rewrite Hu in H|]; simpl in H;
    brk H; inversion H; subst; clear H; simpl; try reflexivity; lia.
Qed.

Lemma counter_is_wire_failures :
  forall sig_ok sid steps st' outs,
    run sig_ok sid init steps = (st', outs) -> a_fails st' = counted_failures outs.
Proof. intros sig_ok sid steps st' outs H. exact (proj1 (run_counts _ _ _ _ _ _ H)). Qed.

Lemma generated_constants :
  fail_limit = 10 /\ disc_svc = 7 /\ disc_nomore = 14.
Proof. vm_compute. repeat split. Qed.
