(* C37 — malformed private key files fail with SSHException / PasswordRequiredException only.
   Model of the byte / line level parsers of paramiko/pkey.py (_read_private_key, _read_private_key_pem,
   _read_private_key_openssh, _uint32_cstruct_unpack, _unpad_openssh), rsakey.py / ecdsakey.py _decode_key
   and ed25519key.py _parse_signing_key_data, AFTER the repairs fixes/C37-1..7, as total functions into
   Ok | Raise SSHExc | Raise PasswordRequired | Raise other.  base64, UTF-8 decoding, bcrypt, the ciphers,
   DER loading, RSA number validation, EC derivation and Ed25519 key derivation are oracles (Section
   variables).  Text lines are lists of code points.  Definitions only. *)
From PV Require Import Bytes C39 C37_gen.
Open Scope Z_scope.

(* ---- characters ---------------------------------------------------------------------------------------- *)
(* Py_UNICODE_ISSPACE: regex \s on str patterns and str.strip() *)
Definition is_space (c : Z) : bool :=
  ((9 <=? c) && (c <=? 13)) || ((28 <=? c) && (c <=? 32)) || (c =? 133) || (c =? 160) || (c =? 5760)
  || ((8192 <=? c) && (c <=? 8202)) || (c =? 8232) || (c =? 8233) || (c =? 8239) || (c =? 8287)
  || (c =? 12288).

(* str.lower() as far as equality with an ASCII word is concerned: A-Z, and KELVIN SIGN -> k *)
Definition lower_cp (c : Z) : Z :=
  if (65 <=? c) && (c <=? 90) then c + 32 else if c =? 8490 then 107 else c.

Fixpoint strip_prefix (p s : list Z) : option (list Z) :=
  match p, s with
  | [], _ => Some s
  | a :: p', b :: s' => if a =? b then strip_prefix p' s' else None
  | _ :: _, [] => None
  end.

Fixpoint lstrip (s : list Z) : list Z :=
  match s with c :: r => if is_space c then lstrip r else s | [] => [] end.
Definition strip (s : list Z) : list Z := rev (lstrip (rev (lstrip s))).

(* ---- the BEGIN / END tag regular expressions ---------------------------------------------------------- *)
Inductive tag := TRSA | TEC | TOPENSSH.
Definition tag_eqb (a b : tag) : bool :=
  match a, b with TRSA, TRSA | TEC, TEC | TOPENSSH, TOPENSSH => true | _, _ => false end.
Definition tag_str (t : tag) : list Z :=
  match t with TRSA => gen_tag_0 | TEC => gen_tag_1 | TOPENSSH => gen_tag_2 end.   (* gen/c37.py *)
Definition s_dash5 : list Z := repeat 45 gen_dash_count.
Definition s_begin : list Z := gen_begin_kw.                       (* "BEGIN " *)
Definition s_end : list Z := gen_end_kw.                                (* "END " *)
Definition s_privkey : list Z := gen_privkey.    (* " PRIVATE KEY" *)

(* ^-{5}<kw>(RSA|EC|OPENSSH) PRIVATE KEY-{5}\s*$ *)
Definition match_tag (kw line : list Z) : option tag :=
  match strip_prefix (s_dash5 ++ kw) line with
  | None => None
  | Some r =>
      let try_ t := match strip_prefix (tag_str t ++ s_privkey ++ s_dash5) r with
                    | Some rest => forallb is_space rest
                    | None => false
                    end in
      if try_ TRSA then Some TRSA else if try_ TEC then Some TEC else if try_ TOPENSSH then Some TOPENSSH
      else None
  end.

(* index of the first line from position i on for which f answers, with the answer *)
Fixpoint first_match {A} (f : list Z -> option A) (ls : list (list Z)) (i : nat) : option (nat * A) :=
  match ls with
  | [] => None
  | l :: r => match f l with Some a => Some (i, a) | None => first_match f r (S i) end
  end.

(* ---- oracles --------------------------------------------------------------------------------------------- *)
Inductive dres := DOk (d : list Z) | DBad | DOther (k : Z).   (* decrypt: bytes / ValueError / anything else *)
Inductive derres := DerRsa | DerEc (curve : option Z) | DerOtherKey | DerBad | DerOther (k : Z).

(* what a successful load produced (enough to state which class / which key material) *)
Inductive loaded := LRsa | LEc (curve : Z) | LEd (seed : list Z).

Section Parsers.
  Variable b64 : list Z -> option (list Z).      (* decodebytes(b(text)); None = binascii.Error *)
  Variable utf8_ok : list Z -> bool.
  Variable pem_decrypt : list Z -> list Z -> list Z -> list Z -> dres.          (* type, salt text, password, data *)
  Variable ossh_decrypt : list Z -> list Z -> list Z -> Z -> list Z -> dres.    (* cipher, password, salt, rounds, blob *)
  Variable ed_cipher_known : list Z -> bool.                                    (* name in Transport._cipher_info *)
  Variable ed_decrypt : list Z -> list Z -> list Z -> Z -> list Z -> dres.
  Variable pk_of_seed : list Z -> list Z.                                       (* SigningKey(seed).verify_key.encode() *)
  Variable der_load : list Z -> derres.                                         (* load_der_private_key *)
  Variable rsa_numbers_ok : Z -> Z -> Z -> Z -> Z -> Z -> bool.                 (* RSAPrivateNumbers(...).private_key() *)
  Variable ec_derive_ok : list Z -> bool.                                       (* the try-block of ECDSAKey._decode_key *)

  Definition of_dres (r : dres) : result (list Z) :=
    match r with DOk d => Ok d | DBad => Raise SSHExc | DOther k => Raise (LibExc k) end.

  (* ---- _unpad_openssh (repaired: empty / short data) ---- *)
  Fixpoint count_up (i : Z) (n : nat) : list Z :=
    match n with O => [] | S k => i :: count_up (i + 1) k end.

  Definition unpad_openssh (data : list Z) : result (list Z) :=
    match rev data with
    | [] => Raise SSHExc
    | p :: _ =>
        let len := Z.of_nat (length data) in
        if (gen_unpad_printable_lo <=? p) && (p <? gen_unpad_printable_hi) then Ok data
        else if (gen_unpad_max <? p) || (len <? p) then Raise SSHExc
        else if negb (zlist_eqb (skipn (Z.to_nat (len - p)) data) (count_up 1 (Z.to_nat p))) then Raise SSHExc
        else Ok (if p =? 0 then [] else firstn (Z.to_nat (len - p)) data)      (* data[:-padding_length] *)
    end.

  (* ---- _uint32_cstruct_unpack, one format character at a time (any failure -> SSHException) ---- *)
  Definition take (n : Z) (d : list Z) : list Z := firstn (Z.to_nat (Z.min n (Z.of_nat (length d)))) d.
  Definition drop (n : Z) (d : list Z) : list Z := skipn (Z.to_nat (Z.min n (Z.of_nat (length d)))) d.

  Definition cs_u (d : list Z) : result (Z * list Z) :=
    match d with
    | a :: b :: c :: e :: r => Ok (be_decode [a; b; c; e], r)
    | _ => Raise SSHExc                                   (* struct.error, converted *)
    end.
  Definition cs_s (d : list Z) : result (list Z * list Z) :=
    bind (cs_u d) (fun '(n, r) => Ok (take n r, drop n r)).
  Definition cs_i (d : list Z) : result (Z * list Z) :=
    bind (cs_s d) (fun '(s, r) => Ok (inflate_long s true, r)).

  (* ---- _read_private_key_openssh ---- *)
  Definition s_magic : list Z := gen_magic.  (* openssh-key-v1\0 *)
  Definition s_bcrypt : list Z := gen_bcrypt.
  Definition s_none : list Z := gen_none.
  Definition s_aes256_cbc : list Z := gen_aes256_cbc.
  Definition s_aes256_ctr : list Z := gen_aes256_ctr.

  Definition join (ls : list (list Z)) : list Z := concat ls.

  Definition read_openssh (lines : list (list Z)) (password : option (list Z)) : result (list Z) :=
    match b64 (join lines) with
    | None => Raise SSHExc
    | Some data =>
        if negb (zlist_eqb (firstn 15 data) s_magic) then Raise SSHExc
        else
          bind (cs_s (skipn 15 data)) (fun '(cipher, d1) =>
          bind (cs_s d1) (fun '(kdfname, d2) =>
          bind (cs_s d2) (fun '(kdfopts, d3) =>
          bind (cs_u d3) (fun '(npub, remainder) =>
          if 1 <? npub then Raise SSHExc
          else
            bind (cs_s remainder) (fun '(pubkey, r1) =>
            bind (cs_s r1) (fun '(blob, _) =>
            bind (if zlist_eqb kdfname s_bcrypt then
                    if negb (zlist_eqb cipher s_aes256_cbc || zlist_eqb cipher s_aes256_ctr) then Raise SSHExc
                    else match password with
                         | None => Raise PasswordRequired
                         | Some pw =>
                             bind (cs_s kdfopts) (fun '(salt, k1) =>
                             bind (cs_u k1) (fun '(rounds, _) =>
                             of_dres (ossh_decrypt cipher pw salt rounds blob)))
                         end
                  else if zlist_eqb cipher s_none && zlist_eqb kdfname s_none then Ok blob
                  else Raise SSHExc) (fun dec =>
            bind (cs_u dec) (fun '(c1, e1) =>
            bind (cs_u e1) (fun '(c2, e2) =>
            bind (cs_s e2) (fun '(keytype, keydata) =>
            if negb (c1 =? c2) then Raise SSHExc else unpad_openssh keydata))))))))))
    end.

  (* ---- _read_private_key_pem ---- *)
  (* line.split(": "): None when the separator does not occur; else (first piece, second piece) *)
  Fixpoint until_sep (s : list Z) : list Z * option (list Z) :=
    match s with
    | 58 :: 32 :: r => ([], Some r)
    | c :: r => let '(a, b) := until_sep r in (c :: a, b)
    | [] => ([], None)
    end.
  Definition split_header (line : list Z) : option (list Z * list Z) :=
    match until_sep line with
    | (_, None) => None
    | (k, Some r) => Some (map lower_cp k, strip (fst (until_sep r)))
    end.

  (* the header loop: returns the headers (later entries first) and the index where it stopped *)
  Fixpoint header_loop (ls : list (list Z)) (i : nat) (acc : list (list Z * list Z))
    : list (list Z * list Z) * nat :=
    match ls with
    | [] => (acc, i)
    | l :: r => match split_header l with
                | None => (acc, i)
                | Some kv => header_loop r (S i) (kv :: acc)
                end
    end.

  Fixpoint hget (k : list Z) (h : list (list Z * list Z)) : option (list Z) :=
    match h with
    | [] => None
    | (k', v) :: r => if zlist_eqb k k' then Some v else hget k r
    end.

  Definition s_proc_type : list Z := gen_proc_type.
  Definition s_dek_info : list Z := gen_dek_info.
  Definition s_4enc : list Z := gen_encrypted.            (* "4,ENCRYPTED" *)
  Definition cipher_table : list (list Z) := gen_pem_ciphers.   (* PKey._CIPHER_TABLE keys *)

  Definition slice {A} (a b : nat) (l : list A) : list A := firstn (b - a) (skipn a l).   (* l[a:b] *)

  Definition read_pem (lines : list (list Z)) (end_ : nat) (password : option (list Z)) : result (list Z) :=
    let '(headers, start) := header_loop (skipn 1 lines) 1 [] in
    match b64 (join (slice start end_ lines)) with
    | None => Raise SSHExc
    | Some data =>
        match hget s_proc_type headers with
        | None => Ok data
        | Some pt =>
            if negb (zlist_eqb pt s_4enc) then Raise SSHExc
            else match hget s_dek_info headers with
                 | None => Raise SSHExc
                 | Some dek =>
                     match split_comma dek with
                     | [etype; salt] =>
                         if negb (existsb (zlist_eqb etype) cipher_table) then Raise SSHExc
                         else match password with
                              | None => Raise PasswordRequired
                              | Some pw => of_dres (pem_decrypt etype salt pw data)
                              end
                     | _ => Raise SSHExc
                     end
                 end
        end
    end.

  (* ---- _read_private_key ---- *)
  Inductive pkformat := FmtOriginal | FmtOpenssh.

  Definition read_private_key (t : tag) (lines : list (list Z)) (password : option (list Z))
    : result (pkformat * list Z) :=
    match lines with
    | [] => Raise SSHExc
    | _ =>
        match first_match (match_tag s_begin) lines 0 with
        | None => Raise SSHExc
        | Some (i, keytype) =>
            let start := S i in
            if (length lines <=? start)%nat then Raise SSHExc
            else
              let end_ := match first_match (match_tag s_end) (skipn start lines) start with
                          | Some (j, _) => j
                          | None => (length lines - 1)%nat
                          end in
              if tag_eqb keytype t then bind (read_pem lines end_ password) (fun d => Ok (FmtOriginal, d))
              else if tag_eqb keytype TOPENSSH
              then bind (read_openssh (slice start end_ lines) password) (fun d => Ok (FmtOpenssh, d))
              else Raise SSHExc
        end
    end.

  (* ---- RSAKey._decode_key / ECDSAKey._decode_key (repaired) ---- *)
  Definition rsa_decode (fd : pkformat * list Z) : result loaded :=
    match fd with
    | (FmtOriginal, data) =>
        match der_load data with
        | DerRsa => Ok LRsa
        | DerEc _ | DerOtherKey => Raise SSHExc            (* not an RSA private key *)
        | DerBad => Raise SSHExc
        | DerOther k => Raise (LibExc k)
        end
    | (FmtOpenssh, data) =>
        bind (cs_i data) (fun '(n, d1) => bind (cs_i d1) (fun '(e, d2) => bind (cs_i d2) (fun '(d, d3) =>
        bind (cs_i d3) (fun '(iqmp, d4) => bind (cs_i d4) (fun '(p, d5) => bind (cs_i d5) (fun '(q, _) =>
        if (p =? 1) || (q =? 1) then Raise SSHExc          (* d % (p - 1): ZeroDivisionError, converted *)
        else if rsa_numbers_ok n e d iqmp p q then Ok LRsa else Raise SSHExc))))))
    end.

  Definition ecdsa_decode (fd : pkformat * list Z) : result loaded :=
    match fd with
    | (FmtOriginal, data) =>
        match der_load data with
        | DerEc (Some c) => Ok (LEc c)
        | DerEc None => Raise SSHExc                       (* curve paramiko does not know *)
        | DerRsa | DerOtherKey => Raise SSHExc             (* not an EC private key *)
        | DerBad => Raise SSHExc
        | DerOther k => Raise (LibExc k)
        end
    | (FmtOpenssh, data) => if ec_derive_ok data then Ok (LEc 0) else Raise SSHExc   (* except Exception *)
    end.

  (* ---- Ed25519Key._parse_signing_key_data (repaired) ---- *)
  Definition s_ed25519 : list Z := gen_ed25519_name.

  Definition m_text (buf : list Z) (pos : nat) : result (list Z * nat) :=
    let '(s, p) := get_string buf pos in
    if utf8_ok s then Ok (s, p) else Raise SSHExc.         (* UnicodeDecodeError is a ValueError: converted *)

  (* for _ in range(num_keys): public_keys.append(...) *)
  Fixpoint ed_pub_loop (n : nat) (buf : list Z) (pos : nat) : result (list (list Z) * nat) :=
    match n with
    | O => Ok ([], pos)
    | S k =>
        let '(pkm, p1) := get_string buf pos in
        bind (m_text pkm 0) (fun '(nm, q) =>
        if negb (zlist_eqb nm s_ed25519) then Raise SSHExc
        else let '(pk, _) := get_string pkm q in
             bind (ed_pub_loop k buf p1) (fun '(l, pe) => Ok (pk :: l, pe)))
    end.

  Fixpoint ed_priv_loop (n : nat) (pubs : list (list Z)) (buf : list Z) (pos : nat) : result (list (list Z)) :=
    match n with
    | O => Ok []
    | S k =>
        bind (m_text buf pos) (fun '(nm, p1) =>
        if negb (zlist_eqb nm s_ed25519) then Raise SSHExc
        else
          let '(public, p2) := get_string buf p1 in
          let '(key_data, p3) := get_string buf p2 in
          let seed := firstn 32 key_data in
          if negb (Nat.eqb (length seed) 32) then Raise SSHExc       (* SigningKey: ValueError, converted *)
          else
            let vk := pk_of_seed seed in
            match pubs with
            | [] => Raise SSHExc                                      (* cannot happen: same count *)
            | pk0 :: pubs' =>
                if negb (zlist_eqb vk public && zlist_eqb public pk0 && zlist_eqb pk0 (skipn 32 key_data))
                then Raise SSHExc                                     (* was an assert *)
                else
                  let '(_, p4) := get_string buf p3 in
                  bind (ed_priv_loop k pubs' buf p4) (fun l => Ok (seed :: l))
            end)
    end.

  Definition ed_parse (data : list Z) (password : option (list Z)) : result loaded :=
    let '(magic, p0) := get_bytes data 0 15 in
    if negb (zlist_eqb magic s_magic) then Raise SSHExc
    else
      bind (m_text data p0) (fun '(ciphername, p1) =>
      bind (m_text data p1) (fun '(kdfname, p2) =>
      let '(kdfoptions, p3) := get_string data p2 in
      let '(num_keys, p4) := get_int data p3 in
      bind (if zlist_eqb kdfname s_none then
              if negb (match kdfoptions with [] => true | _ => false end) || negb (zlist_eqb ciphername s_none)
              then Raise SSHExc else Ok ([], 0)
            else if zlist_eqb kdfname s_bcrypt then
              match password with
              | None | Some [] => Raise PasswordRequired
              | Some _ => let '(salt, q) := get_string kdfoptions 0 in
                          let '(rounds, _) := get_int kdfoptions q in Ok (salt, rounds)
              end
            else Raise SSHExc) (fun '(salt, rounds) =>
      if negb (zlist_eqb ciphername s_none) && negb (ed_cipher_known ciphername) then Raise SSHExc
      else
        let n := Z.to_nat (Z.min num_keys (Z.of_nat (length data) + 1)) in
        bind (ed_pub_loop n data p4) (fun '(pubs, p5) =>
        let '(ciphertext, _) := get_string data p5 in
        bind (if zlist_eqb ciphername s_none then Ok ciphertext
              else of_dres (ed_decrypt ciphername (match password with Some pw => pw | None => [] end)
                                       salt rounds ciphertext)) (fun private_data =>
        bind (unpad_openssh private_data) (fun msg =>
        let '(c1, q1) := get_int msg 0 in
        let '(c2, q2) := get_int msg q1 in
        if negb (c1 =? c2) then Raise SSHExc
        else
          bind (ed_priv_loop n pubs msg q2) (fun seeds =>
          match seeds with
          | [seed] => Ok (LEd seed)
          | _ => Raise SSHExc
          end)))))))
      .

  (* ---- the three loaders: file bytes -> lines (Python's text layer, an oracle) -> key ---- *)
  Variable readlines : list Z -> option (list (list Z)).      (* None = UnicodeDecodeError *)

  Definition load_rsa (file : list Z) (password : option (list Z)) : result loaded :=
    match readlines file with
    | None => Raise SSHExc
    | Some lines => bind (read_private_key TRSA lines password) rsa_decode
    end.
  Definition load_ecdsa (file : list Z) (password : option (list Z)) : result loaded :=
    match readlines file with
    | None => Raise SSHExc
    | Some lines => bind (read_private_key TEC lines password) ecdsa_decode
    end.
  (* Ed25519Key reads with password=None and hands the password to the inner parser only *)
  Definition load_ed25519 (file : list Z) (password : option (list Z)) : result loaded :=
    match readlines file with
    | None => Raise SSHExc
    | Some lines => bind (read_private_key TOPENSSH lines None) (fun '(_, d) => ed_parse d password)
    end.
End Parsers.

(* ---- correspondence runs ------------------------------------------------------------------------------ *)
Definition res_code {A} (r : result A) : Z := match r with Ok _ => 0 | Raise e => exn_code e end.
Definition tag_of (z : Z) : tag := if z =? 0 then TRSA else if z =? 1 then TEC else TOPENSSH.
Definition dres_of (c : Z) (d : list Z) : dres := if c =? 0 then DOk d else if c =? 1 then DBad else DOther c.
Definition opt_pw (has : bool) : option (list Z) := if has then Some [120] else None.

Definition run_unpad (d : list Z) : list Z :=
  match unpad_openssh d with Ok r => 0 :: r | Raise e => [exn_code e] end.

(* the line scan and dispatch: which reader gets which slice; readers are stubbed out by oracles that fail,
   so the output is: [0; end] (pem reader called with that end) | 2 :: text of lines[start:end] (openssh
   reader called with that slice) | [1] (SSHException) *)
Definition run_scan (c : Z * list (list Z)) : list Z :=
  let '(tz, lines) := c in
  let t := tag_of tz in
  match lines with
  | [] => [1]
  | _ =>
      match first_match (match_tag s_begin) lines 0 with
      | None => [1]
      | Some (i, keytype) =>
          let start := S i in
          if (length lines <=? start)%nat then [1]
          else
            let end_ := match first_match (match_tag s_end) (skipn start lines) start with
                        | Some (j, _) => j
                        | None => (length lines - 1)%nat
                        end in
            if tag_eqb keytype t then [0; Z.of_nat end_]
            else if tag_eqb keytype TOPENSSH then 2 :: join (slice start end_ lines)
            else [1]
      end
  end.

(* pem reader: (lines, end, has password, base64 outcome by length of the joined text, decrypt outcome) *)
Definition run_pem (c : list (list Z) * Z * bool * list (Z * option (list Z)) * (Z * list Z)) : list Z :=
  let '(lines, e, haspw, tbl, (dc, dd)) := c in
  let b64 := fun txt : list Z =>
    match find (fun kv => fst kv =? Z.of_nat (length txt)) tbl with Some (_, r) => r | None => None end in
  match read_pem b64 (fun _ _ _ _ => dres_of dc dd) lines (Z.to_nat (Z.min e 100000)) (opt_pw haspw) with
  | Ok d => 0 :: d
  | Raise x => [exn_code x]
  end.

(* openssh container: (decoded bytes or none, has password, decrypt outcome) *)
Definition run_openssh (c : option (list Z) * bool * (Z * list Z)) : list Z :=
  let '(data, haspw, (dc, dd)) := c in
  match read_openssh (fun _ => data) (fun _ _ _ _ _ => dres_of dc dd) [] (opt_pw haspw) with
  | Ok d => 0 :: d
  | Raise x => [exn_code x]
  end.

(* Ed25519 inner parser: (data, password state 0 none / 1 empty / 2 given, strings that are not UTF-8,
   cipher known, decrypt outcome, (seed, public key) table) *)
Definition run_ed (c : list Z * Z * list (list Z) * bool * (Z * list Z) * list (list Z * list Z)) : list Z :=
  let '(data, pws, bad, known, (dc, dd), pkt) := c in
  let pw := if pws =? 0 then None else if pws =? 1 then Some [] else Some [120] in
  let utf8 := fun s => negb (existsb (zlist_eqb s) bad) in
  let pk := fun seed => match find (fun kv => zlist_eqb (fst kv) seed) pkt with Some (_, p) => p | None => [] end in
  match ed_parse utf8 (fun _ => known) (fun _ _ _ _ _ => dres_of dc dd) pk data pw with
  | Ok (LEd seed) => 0 :: seed
  | Ok _ => [-1]
  | Raise x => [exn_code x]
  end.

(* RSA openssh-format numbers: (data, library validation outcome) *)
Definition run_rsa_numbers (c : list Z * bool) : list Z :=
  let '(data, ok) := c in
  [res_code (rsa_decode (fun _ => DerBad) (fun _ _ _ _ _ _ => ok) (FmtOpenssh, data))].
