(* Shared concurrency library: interleavings of per-thread programs and the
   invariant rule.  Stdlib only; small and generic on purpose.

   A thread program is a list of atomic actions (type A).  [interleave ps l]
   holds when [l] is a merge of the programs [ps] that keeps every program's
   own order.  A system is a partial step function [step : S -> A -> option S]
   ([None] = the action is not enabled in that state, e.g. a blocked wait);
   [run] executes a schedule.  The rule [interleave_invariant]: an invariant
   preserved by every enabled atomic action of the programs holds after every
   interleaving of them. *)
From Coq Require Import List Permutation Bool.
Import ListNotations.

Section Interleave.
  Context {A : Type}.

  Inductive interleave : list (list A) -> list A -> Prop :=
  | interleave_done : forall ps, Forall (fun p => p = []) ps -> interleave ps []
  | interleave_step : forall ps1 a p ps2 l,
      interleave (ps1 ++ p :: ps2) l ->
      interleave (ps1 ++ (a :: p) :: ps2) (a :: l).

  Lemma concat_all_nil (ps : list (list A)) :
    Forall (fun p => p = []) ps -> concat ps = [].
  Proof.
    induction 1 as [|p ps Hp _ IH]; [reflexivity|]. subst p. exact IH.
  Qed.

  (* a merge contains exactly the actions of the programs *)
  Lemma interleave_perm ps l : interleave ps l -> Permutation l (concat ps).
  Proof.
    induction 1 as [ps Hnil | ps1 a p ps2 l _ IH].
    - rewrite concat_all_nil by assumption. constructor.
    - rewrite concat_app in *. cbn [concat] in *.
      change ((a :: p) ++ concat ps2) with (a :: (p ++ concat ps2)).
      apply Permutation_cons_app. exact IH.
  Qed.

  Lemma interleave_In ps l a : interleave ps l -> (In a l <-> In a (concat ps)).
  Proof.
    intros H. apply interleave_perm in H. split; intros Hin.
    - eapply Permutation_in; eauto.
    - eapply Permutation_in; [apply Permutation_sym|]; eauto.
  Qed.

  Lemma interleave_length ps l : interleave ps l -> length l = length (concat ps).
  Proof. intros H. apply Permutation_length, interleave_perm, H. Qed.

  Lemma interleave_single p : interleave [p] p.
  Proof.
    induction p as [|a p IH].
    - constructor. repeat constructor.
    - exact (interleave_step [] a p [] p IH).
  Qed.

  (* ---- schedules as lists of thread indices (executable) ------------------ *)
  (* [pop k ps]: take the next action of thread number k *)
  Fixpoint pop (k : nat) (ps : list (list A)) : option (A * list (list A)) :=
    match ps, k with
    | [], _ => None
    | p :: r, O => match p with [] => None | a :: p' => Some (a, p' :: r) end
    | p :: r, S k' => match pop k' r with
                      | Some (a, r') => Some (a, p :: r')
                      | None => None
                      end
    end.

  Definition is_nil {B} (l : list B) : bool := match l with [] => true | _ => false end.

  (* the merge chosen by the thread-index schedule [ks]; None when the schedule
     names a finished thread or leaves actions behind *)
  Fixpoint merge_by (ks : list nat) (ps : list (list A)) : option (list A) :=
    match ks with
    | [] => if forallb is_nil ps then Some [] else None
    | k :: ks' =>
        match pop k ps with
        | Some (a, ps') => match merge_by ks' ps' with
                           | Some l => Some (a :: l)
                           | None => None
                           end
        | None => None
        end
    end.

  Lemma pop_spec k ps a ps' :
    pop k ps = Some (a, ps') ->
    exists ps1 p ps2, ps = ps1 ++ (a :: p) :: ps2 /\ ps' = ps1 ++ p :: ps2.
  Proof.
    revert k a ps'. induction ps as [|p r IH]; intros k a ps' H.
    - destruct k; discriminate.
    - destruct k as [|k]; cbn in H.
      + destruct p as [|b p']; [discriminate|]. injection H as <- <-.
        exists [], p', r. split; reflexivity.
      + destruct (pop k r) as [[b r']|] eqn:E; [|discriminate].
        injection H as <- <-. destruct (IH _ _ _ E) as (ps1 & q & ps2 & -> & ->).
        exists (p :: ps1), q, ps2. split; reflexivity.
  Qed.

  Lemma merge_by_sound ks ps l : merge_by ks ps = Some l -> interleave ps l.
  Proof.
    revert ps l. induction ks as [|k ks IH]; intros ps l H; cbn in H.
    - destruct (forallb is_nil ps) eqn:E; [|discriminate]. injection H as <-.
      constructor. rewrite forallb_forall in E. apply Forall_forall.
      intros p Hp. specialize (E p Hp). destruct p; [reflexivity|discriminate].
    - destruct (pop k ps) as [[a ps']|] eqn:E; [|discriminate].
      destruct (merge_by ks ps') as [l'|] eqn:E2; [|discriminate]. injection H as <-.
      destruct (pop_spec _ _ _ _ E) as (ps1 & p & ps2 & -> & ->).
      constructor. apply IH. exact E2.
  Qed.
End Interleave.

Section Run.
  Context {S A : Type} (step : S -> A -> option S).

  (* run a schedule; None as soon as an action is not enabled *)
  Fixpoint run (s : S) (l : list A) : option S :=
    match l with
    | [] => Some s
    | a :: r => match step s a with Some s' => run s' r | None => None end
    end.

  Lemma run_app s l1 l2 :
    run s (l1 ++ l2) = match run s l1 with Some s1 => run s1 l2 | None => None end.
  Proof.
    revert s. induction l1 as [|a l1 IH]; intros s; cbn; [reflexivity|].
    destruct (step s a); [apply IH|reflexivity].
  Qed.

  (* every prefix of a successful run is a successful run; the next action is enabled *)
  Lemma run_split s pre a post s2 :
    run s (pre ++ a :: post) = Some s2 ->
    exists s0 s1, run s pre = Some s0 /\ step s0 a = Some s1 /\ run s1 post = Some s2.
  Proof.
    rewrite run_app. destruct (run s pre) as [s0|]; [|discriminate]. cbn.
    destruct (step s0 a) as [s1|] eqn:E; [|discriminate]. intros H.
    exists s0, s1. repeat split; assumption.
  Qed.

  Section Inv.
    Variable I : S -> Prop.

    (* invariant rule restricted to the actions that actually occur in [l] *)
    Lemma run_invariant_in l :
      (forall s a s', In a l -> I s -> step s a = Some s' -> I s') ->
      forall s s', I s -> run s l = Some s' -> I s'.
    Proof.
      induction l as [|a l IH]; intros Hpres s s' Hs H; cbn in H.
      - injection H as <-. exact Hs.
      - destruct (step s a) as [s1|] eqn:E; [|discriminate].
        apply (IH (fun s a' s' Hin => Hpres s a' s' (or_intror Hin)) s1 s'); [|exact H].
        apply (Hpres s a s1); [left; reflexivity|exact Hs|exact E].
    Qed.

    Lemma run_invariant :
      (forall s a s', I s -> step s a = Some s' -> I s') ->
      forall l s s', I s -> run s l = Some s' -> I s'.
    Proof. intros Hpres l. apply run_invariant_in. intros s a s' _. apply Hpres. Qed.

    (* THE RULE: an invariant preserved by every atomic action of the thread
       programs holds after every interleaving of them, from every initial
       state satisfying it *)
    Lemma interleave_invariant (ps : list (list A)) :
      (forall s a s', In a (concat ps) -> I s -> step s a = Some s' -> I s') ->
      forall l, interleave ps l ->
      forall s s', I s -> run s l = Some s' -> I s'.
    Proof.
      intros Hpres l Hil. apply run_invariant_in. intros s a s' Hin.
      apply Hpres. apply (interleave_In ps l a Hil). exact Hin.
    Qed.

    (* ... and in every intermediate state of the interleaving *)
    Lemma interleave_invariant_prefix (ps : list (list A)) :
      (forall s a s', In a (concat ps) -> I s -> step s a = Some s' -> I s') ->
      forall l pre post, interleave ps l -> l = pre ++ post ->
      forall s s', I s -> run s pre = Some s' -> I s'.
    Proof.
      intros Hpres l pre post Hil -> . apply run_invariant_in. intros s a s' Hin.
      apply Hpres. apply (interleave_In ps _ a Hil). apply in_or_app. left. exact Hin.
    Qed.
  End Inv.
End Run.
