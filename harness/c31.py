"""C31 — SFTP attribute changes have their local-filesystem meaning.

Proof: coq/Props/C31_props.v over coq/Model/C31.v (SFTPServer.set_file_attr over a modelled file).
Tie: real SFTPClient / SFTPFile -> real SFTPServer (tests/_stub_sftp.py, which serves a temp dir with
SFTPServer.set_file_attr) by path and by handle; os.stat + bytes afterwards compared with the model's
own definitions (vm_compute).
Search oracle: the os.* meaning stated directly in Python (prefix kept / zero padded, mode bits, ids,
times, everything not requested unchanged).
"""
import os
import shutil
import tempfile
import threading
import time

from common import coq

PID = "C31"
LEVEL_TEXT = ("Machine-checked proof (Coq, closed under the global context) over a modelled served file (bytes, "
              "permission bits, uid, gid, atime, mtime) that SFTPServer.set_file_attr, as reached by SETSTAT (by path) "
              "and FSETSTAT (by handle), has for chmod/chown/utime/truncate requests exactly the effect of os.chmod/"
              "os.chown/os.utime/os.truncate, that truncating keeps the leading bytes and extending pads with zeros, "
              "that steps not requested leave their fields unchanged (for any combination of flags), and that any sequence "
              "of such requests interleaved with arbitrary other changes to the file equals the same sequence of os.* "
              "calls, and that on every kind of target (regular file - also through a symlink -, directory, missing "
              "name) the new state and the status of each request equal those of the os.* call, success being reported "
              "only when every requested step was applied, and that in a session's handle table a new handle name is fresh "
              "and a live handle keeps naming the file it was opened on whatever is opened or closed meanwhile; flag "
              "bits, the handle-table code (per-instance counter and dicts) and the list of steps (flag tested, call, order, open mode) are regenerated from "
              "paramiko's AST each run (gen/c31.py) and proved equal to the modelled ones; the model is "
              "tied to sftp_server.py/sftp_client.py/sftp_file.py by running the real client against the real server "
              "on a temp dir - single requests and sequences of 2-4 requests on one open handle / path with writes in "
              "between - and comparing os.stat + file bytes with the model's definitions (vm_compute) every run.")
LEVEL_NOTE = ("Proof over a modelled file system: os.chmod/chown/utime/truncate and open('r+') are small Gallina "
              "re-implementations of their documented behaviour, validated only by the correspondence run; the "
              "modification time after a resize is an input taken from the implementation; permission errors, "
              "win32 and the kernel's clearing of set-id bits on chown / resize are outside the model "
              "(the latter is compared with the os.* call on a twin tree, full mode bits); symlinks are modelled as transparent (every os.* "
              "call used follows them), which the twin-tree comparison checks on the real file system.")
TECHNIQUE = ("Coq proof over a modelled file + AST translator for flag bits and step list + vm_compute differential "
             "correspondence (single requests, request sequences, every kind of target vs an os.* twin tree) through real "
             "client/server")

U32 = 2 ** 32


class Rig:
    """In-process SFTP client/server pair over tests/_loop.LoopSocket serving `root`."""

    def __init__(self, repo, root):
        import paramiko
        from _loop import LoopSocket
        from _stub_sftp import StubServer, StubSFTPServer
        StubSFTPServer.ROOT = root
        a, b = LoopSocket(), LoopSocket()
        a.link(b)
        self.tc = paramiko.Transport(a)
        self.ts = paramiko.Transport(b)
        self.ts.add_server_key(paramiko.RSAKey.from_private_key_file(
            os.path.join(repo, "tests", "_support", "rsa.key")))
        self.ts.set_subsystem_handler("sftp", paramiko.SFTPServer, StubSFTPServer)
        self.ts.start_server(threading.Event(), StubServer())
        self.tc.connect(username="slowdive", password="pygmalion")
        self.sftp = paramiko.SFTPClient.from_transport(self.tc)

    def close(self):
        for x in (self.sftp, self.tc, self.ts):
            try:
                x.close()
            except Exception:
                pass


def gen_data(rng, maxlen):
    n = rng.choice([0, 1, 2, maxlen] + [rng.randrange(0, maxlen + 1) for _ in range(6)])
    n = min(n, maxlen)
    if rng.random() < 0.2:
        return bytes([rng.randrange(1, 256)]) * n       # never zero: a lost prefix always shows
    return bytes(rng.randrange(1, 256) if rng.random() < 0.9 else 0 for _ in range(n))


def gen_time(rng):
    return rng.choice([0, 1, 2 ** 31 - 1, 2 ** 31, U32 - 1, rng.randrange(U32), rng.randrange(2 ** 31),
                       rng.randrange(1_000_000_000, 2_000_000_000)])


def gen_mode(rng, allbits):
    m = rng.choice([0o644, 0o600, 0o755, 0o777, 0o400, 0o000, rng.randrange(0o1000), rng.randrange(0o1000)])
    if allbits:
        m |= rng.choice([0, 0, 0o4000, 0o2000, 0o1000, 0o7000])
    return m


ID_PAIRS = [(1234, 5678), (5678, 1234), (1, 2), (65534, 100), (1000, 1001), (0, 7), (3, 0), (4000000000, 17)]


def gen_ids(rng):
    """Owner and group to chown to: always two DIFFERENT numbers when the server may chown at will
    (root); otherwise only the current ids are possible (noted in the evidence)."""
    if os.geteuid() == 0:
        return rng.choice(ID_PAIRS)
    return (os.getuid(), os.getgid())


def gen_size(rng, cur, maxlen):
    return min(maxlen, max(0, rng.choice([0, cur, cur, cur - 1, cur + 1, cur // 2, cur * 2, rng.randrange(0, cur + 1),
                                          cur + rng.randrange(0, 300), rng.randrange(0, maxlen + 1)])))


def gen_case(rng, maxlen, root_user):
    """A case: initial file + one request (op) + by path / by handle."""
    data = gen_data(rng, maxlen)
    op = rng.choice(["chmod", "chown", "utime", "truncate", "truncate", "truncate", "combined"])
    req = {"size": None, "ids": None, "mode": None, "times": None}
    if op == "chmod":
        req["mode"] = gen_mode(rng, root_user) | rng.choice([0, 0, 0o100000])
    elif op == "chown":
        req["ids"] = gen_ids(rng)
    elif op == "utime":
        req["times"] = (gen_time(rng), gen_time(rng))
    elif op == "truncate":
        req["size"] = gen_size(rng, len(data), maxlen)
    else:
        while not any(v is not None for v in req.values()) or sum(v is not None for v in req.values()) < 2:
            if rng.random() < 0.5:
                req["size"] = gen_size(rng, len(data), maxlen)
            if rng.random() < 0.3:
                req["ids"] = gen_ids(rng)
            if rng.random() < 0.5:
                req["mode"] = gen_mode(rng, False)
            if rng.random() < 0.5:
                req["times"] = (gen_time(rng), gen_time(rng))
    # set-id bits may be cleared by the kernel on chown / write: keep them out of those cases
    plain = req["size"] is not None or req["ids"] is not None
    mode0 = gen_mode(rng, root_user and not plain)
    if plain and req["mode"] is not None:
        req["mode"] &= 0o100777
    if not root_user:
        mode0 |= 0o600
        if req["mode"] is not None and (req["size"] is not None):
            req["mode"] |= 0o600
    return gen_where(rng, {"data": data, "mode0": mode0, "atime0": gen_time(rng), "mtime0": gen_time(rng), "op": op,
                           "by_handle": rng.random() < 0.5, "size": req["size"], "ids": req["ids"],
                           "mode": req["mode"], "times": req["times"]})


DECOY = {"data": b"decoy-" * 20, "mode": 0o640, "times": (111111, 222222)}


def place(rig, root, case, name):
    """Where the served file lives and how the client names it: absolute path without a cwd,
    relative path after SFTPClient.chdir(), or absolute path while a cwd is set.  A same-named
    decoy sits (or is absent) where a wrongly resolved name would land."""
    where = case.get("where", "root")
    sub = os.path.join(root, "sub")
    os.makedirs(sub, exist_ok=True)
    if where == "root":
        want_cwd, path, rpath, decoy = None, os.path.join(root, name), "/" + name, os.path.join(sub, name)
    elif where == "rel":
        want_cwd, path, rpath, decoy = "/sub", os.path.join(sub, name), name, os.path.join(root, name)
    else:   # "abs-cwd"
        want_cwd, path, rpath, decoy = "/sub", os.path.join(root, name), "/" + name, os.path.join(sub, name)
    if getattr(rig, "cwd", "?") != want_cwd:
        rig.sftp.chdir(want_cwd)
        rig.cwd = want_cwd
    for q in (path, decoy):
        if os.path.exists(q):
            os.remove(q)
    if case.get("decoy"):
        with open(decoy, "wb") as fh:
            fh.write(DECOY["data"])
        os.chmod(decoy, DECOY["mode"])
        os.utime(decoy, DECOY["times"])
    if case.get("bytes_path"):
        rpath = rpath.encode()
    return path, rpath, decoy


def decoy_state(case, decoy):
    """None when the decoy is as it was left (present and untouched, or absent)."""
    if not case.get("decoy"):
        return "created" if os.path.exists(decoy) else None
    if not os.path.exists(decoy):
        return "removed"
    st = os.stat(decoy)
    with open(decoy, "rb") as fh:
        data = fh.read()
    if (data != DECOY["data"] or st.st_mode & 0o7777 != DECOY["mode"]
            or (int(st.st_atime), int(st.st_mtime)) != DECOY["times"]):
        return {"size": len(data), "mode": st.st_mode & 0o7777, "atime": int(st.st_atime), "mtime": int(st.st_mtime)}
    return None


def gen_where(rng, case):
    case["where"] = rng.choice(["root", "root", "rel", "rel", "abs-cwd"])
    case["decoy"] = rng.random() < 0.5
    case["bytes_path"] = rng.random() < 0.15
    return case


def check_placement(ctx, case, obs):
    """The request reached the file the client named (and only it) and did not raise."""
    if obs.get("exc") is None and obs.get("decoy") is None:
        return True
    rel = case.get("where", "root") != "root"
    ctx.fail("path-not-resolved-against-cwd" if rel else "request-raised-or-wrong-file",
             "a chmod/chown/utime/truncate request on %s raised or changed another file than the one named "
             "(relative names must be resolved against SFTPClient.chdir()'s directory, absolute ones not)"
             % {"root": "an absolute path", "rel": "a relative path after chdir()",
                "abs-cwd": "an absolute path while a cwd is set"}[case.get("where", "root")],
             case=case, expected="request applied to the named file only",
             observed={"exception": obs.get("exc"), "same-named file elsewhere": obs.get("decoy")})
    return False


def execute(rig, root, case, name="f"):
    """Prepare the file locally, issue the request through the real client, observe with os.stat."""
    from paramiko import SFTPAttributes
    from paramiko.sftp import CMD_SETSTAT, CMD_FSETSTAT
    path, rpath, decoy = place(rig, root, case, name)
    with open(path, "wb") as fh:
        fh.write(case["data"])
    os.chmod(path, case["mode0"])
    os.utime(path, (case["atime0"], case["mtime0"]))
    st0 = os.stat(path)
    sftp = rig.sftp
    t_before = time.time()
    exc = None
    fobj = None
    try:
        fobj = sftp.open(rpath, "r+") if case["by_handle"] else None
        op = case["op"]
        if op == "chmod":
            fobj.chmod(case["mode"]) if fobj else sftp.chmod(rpath, case["mode"])
        elif op == "chown":
            fobj.chown(*case["ids"]) if fobj else sftp.chown(rpath, *case["ids"])
        elif op == "utime":
            fobj.utime(tuple(case["times"])) if fobj else sftp.utime(rpath, tuple(case["times"]))
        elif op == "truncate":
            fobj.truncate(case["size"]) if fobj else sftp.truncate(rpath, case["size"])
        else:
            attr = SFTPAttributes()
            if case["size"] is not None:
                attr.st_size = case["size"]
            if case["ids"] is not None:
                attr.st_uid, attr.st_gid = case["ids"]
            if case["mode"] is not None:
                attr.st_mode = case["mode"]
            if case["times"] is not None:
                attr.st_atime, attr.st_mtime = case["times"]
            if fobj:
                sftp._request(CMD_FSETSTAT, fobj.handle, attr)
            else:
                sftp._request(CMD_SETSTAT, sftp._adjust_cwd(rpath), attr)
    except Exception as e:  # noqa  (reported by check_placement)
        exc = repr(e)
    finally:
        st = os.stat(path)
        if fobj:
            try:
                fobj.close()
            except Exception:
                pass
    t_after = time.time()
    with open(path, "rb") as fh:
        after = fh.read()
    return {"mode": st.st_mode & 0o7777, "uid": st.st_uid, "gid": st.st_gid, "atime": int(st.st_atime),
            "mtime": int(st.st_mtime), "data": after, "uid0": st0.st_uid, "gid0": st0.st_gid,
            "t_before": t_before, "t_after": t_after, "exc": exc, "decoy": decoy_state(case, decoy)}


def oracle(ctx, case, obs):
    """The property stated directly over the observed file."""
    if not check_placement(ctx, case, obs):
        return
    d, n = case["data"], case["size"]
    show = {k: (v if k != "data" or len(v) <= 64 else {"len": len(v), "head": v[:16]}) for k, v in case.items()}
    if n is not None:
        want = d[:n] + bytes(max(0, n - len(d)))
        if obs["data"] != want:
            lost = obs["data"][:min(n, len(d))] != d[:min(n, len(d))]
            ctx.fail("truncate-loses-data" if lost else "truncate-wrong-size-or-padding",
                     "resizing a served file to n bytes does not keep its leading bytes / zero-pad (os.truncate)",
                     case=case, expected=want[:64], observed=obs["data"][:64])
        if not (obs["t_before"] - 3 <= obs["mtime"] <= obs["t_after"] + 3):
            ctx.fail("truncate-mtime", "mtime after a resize is not the time of the resize", case=show,
                     expected=int(obs["t_before"]), observed=obs["mtime"])
    elif obs["data"] != d:
        ctx.fail("contents-changed", "a request without a size changed the file contents", case=case,
                 expected=d[:64], observed=obs["data"][:64])
    want_mode = (case["mode"] & 0o7777) if case["mode"] is not None else case["mode0"]
    if obs["mode"] != want_mode:
        ctx.fail("chmod-wrong" if case["mode"] is not None else "mode-changed",
                 "permission bits differ from os.chmod's meaning / changed although not requested", case=show,
                 expected=want_mode, observed=obs["mode"])
    want_ids = tuple(case["ids"]) if case["ids"] is not None else (obs["uid0"], obs["gid0"])
    if (obs["uid"], obs["gid"]) != want_ids:
        ctx.fail("chown-wrong", "owner/group differ from os.chown's meaning", case=show, expected=want_ids,
                 observed=(obs["uid"], obs["gid"]))
    want_at = case["times"][0] if case["times"] is not None else case["atime0"]
    if obs["atime"] != want_at:
        ctx.fail("utime-wrong" if case["times"] is not None else "atime-changed",
                 "access time differs from os.utime's meaning / changed although not requested", case=show,
                 expected=want_at, observed=obs["atime"])
    if n is None:
        want_mt = case["times"][1] if case["times"] is not None else case["mtime0"]
        if obs["mtime"] != want_mt:
            ctx.fail("utime-wrong" if case["times"] is not None else "mtime-changed",
                     "modification time differs from os.utime's meaning / changed although not requested",
                     case=show, expected=want_mt, observed=obs["mtime"])


def opt(v):
    return None if v is None else ("Some", tuple(v) if isinstance(v, (list, tuple)) else v)


def model_case(case, obs):
    now = obs["mtime"] if case["size"] is not None else 0
    text = coq((now, (list(case["data"]), case["mode0"], obs["uid0"], obs["gid0"], case["atime0"], case["mtime0"]),
                (opt(case["size"]), opt(case["ids"]), opt(case["mode"]), opt(case["times"]))))
    expect = [obs["mode"], obs["uid"], obs["gid"], obs["atime"], obs["mtime"], len(obs["data"])] + list(obs["data"])
    return text, expect


# ---- sequences of requests on one file ------------------------------------------------------

def gen_seq_case(rng, root_user):
    """2-4 attribute requests on the same file (same open handle, or by path), with writes
    (through the handle or by another writer) and out-of-band os.utime calls in between."""
    data = gen_data(rng, 120)
    by_handle = rng.random() < 0.7
    kinds = ["chmod", "chown", "utime", "truncate"]
    n = rng.randrange(2, 5)
    ops = rng.sample(kinds, n) if rng.random() < 0.7 else [rng.choice(kinds) for _ in range(n)]
    if rng.random() < 0.5:        # the patterns where a repeated earlier field shows most clearly
        first = rng.choice(["truncate", "utime"])
        ops = [first] + [k for k in ops if k != first][:3] or [first, "chmod"]
        if len(ops) < 2:
            ops.append("chmod")
    steps = []
    size_now = len(data)
    for i, k in enumerate(ops):
        if k == "chmod":
            steps.append({"kind": "chmod", "mode": gen_mode(rng, False) | (0 if root_user else 0o600)})
        elif k == "chown":
            steps.append({"kind": "chown", "ids": gen_ids(rng)})
        elif k == "utime":
            steps.append({"kind": "utime", "times": (gen_time(rng), gen_time(rng))})
        else:
            size_now = gen_size(rng, size_now, 160)
            steps.append({"kind": "truncate", "size": size_now})
        if i < len(ops) - 1 and rng.random() < 0.85:
            r = rng.random()
            if r < 0.7:
                off = rng.choice([size_now, max(0, size_now - 3), size_now + rng.randrange(0, 20),
                                  rng.randrange(0, size_now + 1)])
                blob = bytes(rng.randrange(1, 256) for _ in range(rng.randrange(1, 40)))
                steps.append({"kind": "write", "off": off, "data": blob,
                              "via": "handle" if by_handle and rng.random() < 0.7 else "local"})
                size_now = max(size_now, off + len(blob))
            else:
                steps.append({"kind": "touch", "times": (gen_time(rng), gen_time(rng))})
    return gen_where(rng, {"seq": True, "data": data, "mode0": gen_mode(rng, False) | (0 if root_user else 0o600),
                           "atime0": gen_time(rng), "mtime0": gen_time(rng), "by_handle": by_handle, "steps": steps})


def execute_seq(rig, root, case, name="s"):
    """Run the steps; os.stat after each; final bytes."""
    path, rpath, decoy = place(rig, root, case, name)
    with open(path, "wb") as fh:
        fh.write(case["data"])
    os.chmod(path, case["mode0"])
    os.utime(path, (case["atime0"], case["mtime0"]))
    st0 = os.stat(path)
    sftp = rig.sftp
    stats = []
    exc = None
    fobj = None
    try:
        fobj = sftp.open(rpath, "r+") if case["by_handle"] else None
        for st in case["steps"]:
            t0 = time.time()
            k = st["kind"]
            if k == "chmod":
                fobj.chmod(st["mode"]) if fobj else sftp.chmod(rpath, st["mode"])
            elif k == "chown":
                fobj.chown(*st["ids"]) if fobj else sftp.chown(rpath, *st["ids"])
            elif k == "utime":
                fobj.utime(tuple(st["times"])) if fobj else sftp.utime(rpath, tuple(st["times"]))
            elif k == "truncate":
                fobj.truncate(st["size"]) if fobj else sftp.truncate(rpath, st["size"])
            elif k == "write":
                if st["via"] == "handle" and fobj:
                    fobj.seek(st["off"])
                    fobj.write(st["data"])
                    fobj.flush()
                else:
                    fd = os.open(path, os.O_WRONLY)
                    try:
                        os.pwrite(fd, st["data"], st["off"])
                    finally:
                        os.close(fd)
            elif k == "touch":
                os.utime(path, tuple(st["times"]))
            s = os.stat(path)
            stats.append({"mode": s.st_mode & 0o7777, "uid": s.st_uid, "gid": s.st_gid, "atime": int(s.st_atime),
                          "mtime": int(s.st_mtime), "size": s.st_size, "t0": t0, "t1": time.time()})
    except Exception as e:  # noqa  (reported by check_placement)
        exc = "step %d: %r" % (len(stats), e)
    finally:
        if fobj:
            try:
                fobj.close()
            except Exception:
                pass
    with open(path, "rb") as fh:
        after = fh.read()
    return {"stats": stats, "data": after, "uid0": st0.st_uid, "gid0": st0.st_gid, "exc": exc,
            "decoy": decoy_state(case, decoy)}


FIELDS = ("mode", "uid", "gid", "atime", "mtime", "size")


def oracle_seq(ctx, case, obs):
    """Same effect as the corresponding sequence of os.* calls (simulated on a Python file record)."""
    if not check_placement(ctx, case, obs):
        return False
    cur = {"mode": case["mode0"], "uid": obs["uid0"], "gid": obs["gid0"], "atime": case["atime0"],
           "mtime": case["mtime0"], "data": bytes(case["data"])}
    for i, (st, ob) in enumerate(zip(case["steps"], obs["stats"])):
        k = st["kind"]
        recent = ob["t0"] - 3 <= ob["mtime"] <= ob["t1"] + 3
        if k == "chmod":
            cur["mode"] = st["mode"] & 0o7777
        elif k == "chown":
            cur["uid"], cur["gid"] = st["ids"]
        elif k in ("utime", "touch"):
            cur["atime"], cur["mtime"] = st["times"]
        elif k == "truncate":
            n = st["size"]
            cur["data"] = cur["data"][:n] + bytes(max(0, n - len(cur["data"])))
            if recent:
                cur["mtime"] = ob["mtime"]          # the time of the resize: an input
        elif k == "write":
            d, off, blob = cur["data"], st["off"], st["data"]
            d = d + bytes(max(0, off - len(d)))
            cur["data"] = d[:off] + blob + d[off + len(blob):]
            if recent:
                cur["mtime"] = ob["mtime"]
            if ob["t0"] - 3 <= ob["atime"] <= ob["t1"] + 3:
                cur["atime"] = ob["atime"]
        want = dict(cur, size=len(cur["data"]))
        for fld in FIELDS:
            if ob[fld] != want[fld]:
                ctx.fail("seq-%s-after-%s" % (fld, k),
                         "in a sequence of requests on one file, step %d (%s, %s) left %s different from what the "
                         "corresponding os.* call sequence gives (a request must not repeat or undo earlier ones)"
                         % (i, k, "by handle" if case["by_handle"] else "by path", fld),
                         case=case, expected={f: want[f] for f in FIELDS}, observed={f: ob[f] for f in FIELDS})
                return False
    if obs["data"] != cur["data"]:
        ctx.fail("seq-final-contents", "file contents after a sequence of requests differ from the os.* call sequence",
                 case=case, expected=cur["data"][:96], observed=obs["data"][:96])
        return False
    return True


def model_seq_case(case, obs):
    steps = []
    for st, ob in zip(case["steps"], obs["stats"]):
        k = st["kind"]
        h = case["by_handle"]
        if k == "chmod":
            steps.append(("SAttr", h, 0, None, None, ("Some", st["mode"]), None))
        elif k == "chown":
            steps.append(("SAttr", h, 0, None, ("Some", tuple(st["ids"])), None, None))
        elif k == "utime":
            steps.append(("SAttr", h, 0, None, None, None, ("Some", tuple(st["times"]))))
        elif k == "truncate":
            steps.append(("SAttr", h, ob["mtime"], ("Some", st["size"]), None, None, None))
        elif k == "write":
            steps.append(("SWrite", ob["atime"], ob["mtime"], st["off"], list(st["data"])))
        else:
            steps.append(("STouch", st["times"][0], st["times"][1]))
    text = "((%s), %s)" % (
        ", ".join(coq(x) for x in (list(case["data"]), case["mode0"], obs["uid0"], obs["gid0"], case["atime0"],
                                   case["mtime0"])),
        "[" + ";".join(coq(x) for x in steps) + "]")
    expect = []
    for ob in obs["stats"]:
        expect += [ob[f] for f in FIELDS]
    return text, expect + list(obs["data"])


# ---- every kind of target, compared with the os.* call on a twin tree ---------------------------

import errno as _errno

KINDS = ["file", "link", "dir", "missing", "under-missing", "dangling-link", "removed-handle"]
LINK_TIMES = (1_500_000_001, 1_500_000_002)


def gen_kind_case(rng, root_user):
    kind = rng.choice(KINDS + ["link", "dir", "missing"])
    op = rng.choice(["chmod", "chown", "utime", "truncate", "truncate"])
    by_handle = kind == "removed-handle" or (kind in ("file", "link") and rng.random() < 0.5)
    data = gen_data(rng, 80)
    # full modes incl. setuid / setgid / sticky: what the kernel does to them on a chown (even to the
    # same owner), a resize or a chmod is whatever it does on the twin tree
    high = rng.choice([0, 0o4000, 0o2000, 0o6000, 0o1000, 0o7000])
    mode0 = rng.choice([0o755, 0o711, 0o750, 0o644, gen_mode(rng, False)]) | high
    if op == "chown" and kind in ("file", "link") and rng.random() < 0.6:
        mode0 = rng.choice([0o4755, 0o2755, 0o6711, 0o6755, 0o4711, 0o2711])
    c = {"kinds": True, "kind": kind, "op": op, "by_handle": by_handle, "data": data,
         "mode0": mode0 | (0o700 if kind == "dir" or not root_user else 0),
         "atime0": gen_time(rng), "mtime0": gen_time(rng),
         "mode": (gen_mode(rng, False) | rng.choice([0, 0, 0o4000, 0o2000, 0o1000, 0o6000])
                  | (0 if root_user else 0o700)),
         "ids": gen_ids(rng),
         "times": (gen_time(rng), gen_time(rng)), "size": gen_size(rng, len(data), 120)}
    # the target's owner before the request (two different ids); a third of the chowns ask for the
    # owner the file already has
    c["owner0"] = gen_ids(rng) if root_user and rng.random() < 0.6 else None
    if op == "chown" and c["owner0"] and rng.random() < 0.5:
        c["ids"] = c["owner0"]
    return c


def build_tree(base, case):
    """The same little tree under `base`; returns the name the request is aimed at."""
    shutil.rmtree(base, ignore_errors=True)
    os.makedirs(base)
    k = case["kind"]
    t = os.path.join(base, "t")
    if k in ("file", "link", "removed-handle"):
        with open(t, "wb") as fh:
            fh.write(case["data"])
        if case.get("owner0"):
            os.chown(t, *case["owner0"])
        os.chmod(t, case["mode0"])
        os.utime(t, (case["atime0"], case["mtime0"]))
    if k == "link":
        os.symlink("t", os.path.join(base, "l"))
        os.utime(os.path.join(base, "l"), LINK_TIMES, follow_symlinks=False)
        return "l"
    if k == "dangling-link":
        os.symlink("gone", os.path.join(base, "l"))
        os.utime(os.path.join(base, "l"), LINK_TIMES, follow_symlinks=False)
        return "l"
    if k == "dir":
        os.mkdir(os.path.join(base, "d"))
        if case.get("owner0"):
            os.chown(os.path.join(base, "d"), *case["owner0"])
        os.chmod(os.path.join(base, "d"), case["mode0"])
        os.utime(os.path.join(base, "d"), (case["atime0"], case["mtime0"]))
        return "d"
    if k == "missing":
        return "nothing"
    if k == "under-missing":
        return "nodir/x"
    return "t"


def snapshot(base):
    """Observable state of the tree: per entry kind, mode, ids, times (links: mtime only - following a
    link may touch its atime), size and bytes of regular files."""
    out = {}
    for name in ("t", "l", "d"):
        p = os.path.join(base, name)
        try:
            st = os.lstat(p)
        except OSError:
            out[name] = None
            continue
        import stat as _stat
        if _stat.S_ISLNK(st.st_mode):
            out[name] = {"kind": "link", "mtime": int(st.st_mtime), "to": os.readlink(p)}
        elif _stat.S_ISDIR(st.st_mode):
            out[name] = {"kind": "dir", "mode": st.st_mode & 0o7777, "uid": st.st_uid, "gid": st.st_gid,
                         "atime": int(st.st_atime), "mtime": int(st.st_mtime)}
        else:
            with open(p, "rb") as fh:
                data = fh.read()
            st = os.lstat(p) if False else st
            out[name] = {"kind": "file", "mode": st.st_mode & 0o7777, "uid": st.st_uid, "gid": st.st_gid,
                         "atime": int(st.st_atime), "mtime": int(st.st_mtime), "data": data}
    return out


def classify(exc):
    """Outcome classes of the property: what SFTPServer.convert_errno distinguishes."""
    if exc is None:
        return "ok"
    if isinstance(exc, OSError) and exc.errno in (_errno.ENOENT, _errno.ENOTDIR):
        return "no-such-file"
    if isinstance(exc, OSError) and exc.errno == _errno.EACCES:
        return "denied"
    return "failure"


def execute_kind(rig, root, case):
    """The request through the real client/server on root/k, the os.* call on the twin root/ktwin."""
    if getattr(rig, "cwd", "?") is not None:
        rig.sftp.chdir(None)
        rig.cwd = None
    served, twin = os.path.join(root, "k"), os.path.join(root, "ktwin")
    name = build_tree(served, case)
    build_tree(twin, case)
    sftp, rpath, tpath = rig.sftp, "/k/" + name, os.path.join(twin, name)
    op = case["op"]
    exc = texc = None
    fobj = None
    t0 = time.time()
    try:
        if case["by_handle"]:
            fobj = sftp.open(rpath, "r+")
            if case["kind"] == "removed-handle":
                os.remove(os.path.join(served, "t"))
                os.remove(os.path.join(twin, "t"))
        if op == "chmod":
            fobj.chmod(case["mode"]) if fobj else sftp.chmod(rpath, case["mode"])
        elif op == "chown":
            fobj.chown(*case["ids"]) if fobj else sftp.chown(rpath, *case["ids"])
        elif op == "utime":
            fobj.utime(tuple(case["times"])) if fobj else sftp.utime(rpath, tuple(case["times"]))
        else:
            fobj.truncate(case["size"]) if fobj else sftp.truncate(rpath, case["size"])
    except Exception as e:  # noqa
        exc = e
    finally:
        if fobj:
            try:
                fobj.close()
            except Exception:
                pass
    try:
        if op == "chmod":
            os.chmod(tpath, case["mode"])
        elif op == "chown":
            os.chown(tpath, *case["ids"])
        elif op == "utime":
            os.utime(tpath, tuple(case["times"]))
        else:
            os.truncate(tpath, case["size"])
    except OSError as e:
        texc = e
    t1 = time.time()
    return {"outcome": classify(exc), "exc": repr(exc) if exc else None, "twin_outcome": classify(texc),
            "twin_exc": repr(texc) if texc else None, "served": snapshot(served), "twin": snapshot(twin),
            "t0": t0, "t1": t1}


def oracle_kind(ctx, case, obs):
    key = "kind-%s-%s" % (case["kind"], case["op"])
    how = "by handle" if case["by_handle"] else "by path"
    if obs["outcome"] != obs["twin_outcome"]:
        ctx.fail(key, "%s %s on a target of kind '%s': the request's outcome differs from what os.%s does on a twin "
                      "tree (a failing os.* call must be answered with the matching error status, a succeeding one "
                      "with success)" % (case["op"], how, case["kind"], case["op"]),
                 case=case, expected={"outcome": obs["twin_outcome"], "os": obs["twin_exc"]},
                 observed={"outcome": obs["outcome"], "client": obs["exc"]})
        return False
    for name in ("t", "l", "d"):
        a, b = obs["served"][name], obs["twin"][name]
        if a is not None and b is not None and a.get("kind") == b.get("kind") and a != b:
            # a successful resize stamps "now" on both sides, a moment apart
            if (abs(a["mtime"] - b["mtime"]) <= 3 and obs["t0"] - 3 <= a["mtime"] <= obs["t1"] + 3
                    and obs["t0"] - 3 <= b["mtime"] <= obs["t1"] + 3):
                a = dict(a, mtime=b["mtime"])
        if a != b:
            ctx.fail(key, "%s %s on a target of kind '%s': entry '%s' of the served tree differs afterwards from the "
                          "twin tree on which os.%s was called (links are followed, nothing else is touched)"
                     % (case["op"], how, case["kind"], name, case["op"]),
                     case=case, expected={name: b}, observed={name: a})
            return False
    return True


def model_kind_case(case, obs):
    k = case["kind"]
    kind = 1 if k in ("file", "link") else 2 if k == "dir" else 3
    req = {"chmod": (None, None, ("Some", case["mode"]), None),
           "chown": (None, ("Some", tuple(case["ids"])), None, None),
           "utime": (None, None, None, ("Some", tuple(case["times"]))),
           "truncate": (("Some", case["size"]), None, None, None)}[case["op"]]
    ent = obs["served"]["d"] if kind == 2 else obs["served"]["t"]
    now = ent["mtime"] if (ent and case["op"] == "truncate") else 0
    uid0, gid0 = case.get("owner0") or (os.getuid(), os.getgid())
    text = coq((now, kind, (list(case["data"]) if kind == 1 else [], case["mode0"], uid0, gid0, case["atime0"],
                            case["mtime0"]), req))
    status = {"ok": 0, "no-such-file": 2, "denied": 3, "failure": 4}[obs["outcome"]]
    if kind == 1 and ent:
        canon = [1, ent["mode"], ent["uid"], ent["gid"], ent["atime"], ent["mtime"], len(ent["data"])] + list(ent["data"])
    elif kind == 2 and ent:
        canon = [2, ent["mode"], ent["uid"], ent["gid"], ent["atime"], ent["mtime"]]
    else:
        canon = [3]
    return text, [status] + canon


# ---- several handles and several sessions alive at once ----------------------------------------

NFILES = 4


def gen_multi_case(rng, root_user, forced=None):
    """Opens / closes (earlier handles first as often as later ones) / directory listings in two SFTP
    sessions on one transport and a third on its own transport, with attribute requests through
    handles that have been open for a while: a request through a handle must reach the file that
    handle was opened on, whatever was opened or closed since."""
    files = [{"data": gen_data(rng, 60) + bytes([i + 1]) * (i + 1), "mode0": gen_mode(rng, False) | 0o600,
              "atime0": gen_time(rng), "mtime0": gen_time(rng)} for i in range(NFILES)]
    steps = []
    if forced == "reuse":
        steps = [{"kind": "open", "h": 0, "file": 0, "session": 0}, {"kind": "open", "h": 1, "file": 1, "session": 0},
                 {"kind": "close", "h": 0}, {"kind": "open", "h": 2, "file": 2, "session": 0},
                 {"kind": "truncate", "h": 1, "size": 3}, {"kind": "chmod", "h": 1, "mode": 0o640}]
    elif forced in ("sessions", "transports"):
        other = 1 if forced == "sessions" else 2
        steps = [{"kind": "open", "h": 0, "file": 0, "session": 0}, {"kind": "open", "h": 1, "file": 1, "session": other},
                 {"kind": "utime", "h": 0, "times": (1111, 2222)}, {"kind": "truncate", "h": 0, "size": 2},
                 {"kind": "chmod", "h": 1, "mode": 0o604}, {"kind": "close", "h": 1},
                 {"kind": "chmod", "h": 0, "mode": 0o650}]
    else:
        live, nh = [], 0
        for _ in range(rng.randrange(6, 14)):
            r = rng.random()
            if not live or (r < 0.35 and len(live) < 5):
                steps.append({"kind": "open", "h": nh, "file": rng.randrange(NFILES),
                              "session": rng.choice([0, 0, 0, 1, 1, 2])})
                live.append(nh)
                nh += 1
            elif r < 0.5 and len(live) > 1:
                h = live.pop(rng.choice([0, 0, rng.randrange(len(live))]))
                steps.append({"kind": "close", "h": h})
            elif r < 0.58:
                steps.append({"kind": "listdir", "session": rng.choice([0, 1, 2])})
            else:
                h = rng.choice(live)
                k = rng.choice(["chmod", "utime", "truncate", "truncate", "chown"])
                st = {"kind": k, "h": h}
                if k == "chmod":
                    st["mode"] = gen_mode(rng, False) | 0o600
                elif k == "utime":
                    st["times"] = (gen_time(rng), gen_time(rng))
                elif k == "truncate":
                    st["size"] = rng.randrange(0, 90)
                else:
                    st["ids"] = gen_ids(rng)
                steps.append(st)
    return {"multi": True, "files": files, "steps": steps}


def multi_snapshot(base):
    out = []
    for i in range(NFILES):
        p = os.path.join(base, "n%d" % i)
        st = os.stat(p)
        fd = os.open(p, os.O_RDONLY | getattr(os, "O_NOATIME", 0))      # looking must not touch atime
        try:
            data = b""
            while True:
                blk = os.read(fd, 65536)
                if not blk:
                    break
                data += blk
        finally:
            os.close(fd)
        if not hasattr(os, "O_NOATIME"):
            os.utime(p, ns=(st.st_atime_ns, st.st_mtime_ns))
        out.append({"mode": st.st_mode & 0o7777, "uid": st.st_uid, "gid": st.st_gid, "atime": int(st.st_atime),
                    "mtime": int(st.st_mtime), "data": data})
    return out


def execute_multi(ctx, rigs, root, case):
    """Returns True when every attribute request reached exactly the file its handle was opened on."""
    base = os.path.join(root, "m")
    shutil.rmtree(base, ignore_errors=True)
    os.makedirs(base)
    for i, f in enumerate(case["files"]):
        p = os.path.join(base, "n%d" % i)
        with open(p, "wb") as fh:
            fh.write(f["data"])
        os.chmod(p, f["mode0"])
        os.utime(p, (f["atime0"], f["mtime0"]))
    want = multi_snapshot(base)
    handles = {}
    try:
        for si, st in enumerate(case["steps"]):
            k = st["kind"]
            t0 = time.time()
            exc = None
            try:
                if k == "open":
                    handles[st["h"]] = (rigs(st["session"]).open("/m/n%d" % st["file"], "r+"), st["file"])
                elif k == "close":
                    handles.pop(st["h"])[0].close()
                elif k == "listdir":
                    rigs(st["session"]).listdir("/m")
                else:
                    fobj, fi = handles[st["h"]]
                    if k == "chmod":
                        fobj.chmod(st["mode"])
                        want[fi]["mode"] = st["mode"] & 0o7777
                    elif k == "chown":
                        fobj.chown(*st["ids"])
                        want[fi]["uid"], want[fi]["gid"] = st["ids"]
                    elif k == "utime":
                        fobj.utime(tuple(st["times"]))
                        want[fi]["atime"], want[fi]["mtime"] = st["times"]
                    else:
                        fobj.truncate(st["size"])
                        d = want[fi]["data"]
                        want[fi]["data"] = d[:st["size"]] + bytes(max(0, st["size"] - len(d)))
                        want[fi]["mtime"] = None       # the time of the resize
            except Exception as e:  # noqa
                exc = repr(e)
            got = multi_snapshot(base)
            t1 = time.time()
            for i in range(NFILES):
                if want[i]["mtime"] is None and t0 - 3 <= got[i]["mtime"] <= t1 + 3:
                    want[i]["mtime"] = got[i]["mtime"]
            if exc is not None or got != want:
                bad = [i for i in range(NFILES) if got[i] != want[i]]
                ctx.fail("multi-handle-%s" % k,
                         "with several handles / sessions alive, step %d (%s) raised or changed a file other than "
                         "the one its handle was opened on (a request through a handle must reach that handle's "
                         "file whatever was opened or closed since)" % (si, k),
                         case=case,
                         expected={"n%d" % i: {f: want[i][f] for f in want[i]} for i in bad} or "no exception",
                         observed={"exception": exc, "files": {"n%d" % i: got[i] for i in bad}})
                return False
        return True
    finally:
        for fobj, _ in handles.values():
            try:
                fobj.close()
            except Exception:
                pass


def guarded_model(ctx, run_fn, case_type, cases, what, show):
    """Model calls never stop the implementation-level oracle from reporting."""
    try:
        bad = ctx.model_mismatches(run_fn, case_type, [c for c, _ in cases], shard=200)
    except Exception as e:  # noqa
        ctx.disagree("model evaluation failed (%s): %s" % (run_fn, str(e)[-600:]))
        return
    for i in bad[:3]:
        ctx.disagree(what, case=cases[i][1], impl=show(cases[i][1]))


def run(ctx):
    rng = ctx.rng
    scale = 5 if ctx.thorough else 1
    root_user = os.geteuid() == 0
    ctx.rule = ("seeded generator: served file = random bytes (0..600 for model cases, up to 300 KB for oracle-only "
                "cases), random permission bits and u32 times; (1) one request per case: chmod / chown / "
                "utime / truncate (targets smaller, equal, larger, 0) / combined flags; chown to two DIFFERENT ids when root, by path (SETSTAT) or by handle "
                "(FSETSTAT) through the real SFTPClient/SFTPFile, the file named by an absolute path, by a relative "
                "path after SFTPClient.chdir(), or by an absolute path while a cwd is set (str or bytes), with a "
                "same-named decoy present/absent where a wrongly resolved name would land; (2) sequences of 2-4 requests on the same open "
                "handle / path with writes (through the handle or by another writer) and out-of-band os.utime calls "
                "in between, os.stat after every step and the final bytes; (3) each of chmod/chown/utime/truncate aimed, by "
                "path and by handle, at every kind of target - regular file, symlink to a file, directory, missing name, "
                "name under a missing directory, dangling symlink, file removed since the handle was opened - and "
                "compared (outcome class incl. the error status, lstat of every entry, bytes) with the os.* call on an "
                "identical twin tree; (4) several handles alive at once in two sessions on one transport and a third on its "
                "own transport: opens, closes of earlier handles, directory listings, and attribute requests through "
                "long-open handles, every served file compared after each step; a case is non-trivial when distinct and "
                "at least one observable of the file changes")
    ctx.trusted += ["model coq/Model/C31.v is hand-written; os.chmod/chown/utime/truncate and open('r+') are Gallina "
                    "re-implementations of documented behaviour, tied to the real file system through the real "
                    "client and server by this differential run; flag bits and the order / calls of the steps of "
                    "set_file_attr are regenerated from the source (gen/c31.py) and checked by proof obligations",
                    "mtime after a resize / write is taken from the implementation (bounded by wall clock in the oracle)"]
    ctx.assumptions += ["served files are regular files the server process may modify; chown to arbitrary ids only when running as root (else current ids)"]
    if not root_user:
        ctx.notes.append("not running as root: chown cases use the current uid/gid only (owner/group swaps are "
                         "not observable in this run)")
    ctx.prove()
    root = tempfile.mkdtemp(prefix="verif-c31-")
    rig = None
    cases, seqs, kinds, extra = [], [], [], []
    try:
        rig = Rig(ctx.repo, root)
        for i in range(250 * scale):
            # Coq parses a few thousand numerals per second: most model cases are small files
            case = gen_case(rng, 600 if i % 10 == 0 else 120, root_user)
            obs = execute(rig, root, case)
            changes = (obs["data"] != case["data"] or obs["mode"] != case["mode0"] or obs["atime"] != case["atime0"]
                       or obs["mtime"] != case["mtime0"])
            ctx.count(tuple(sorted((k, repr(v)) for k, v in case.items())), nontrivial=changes,
                      kind=case["op"] + ("-handle" if case["by_handle"] else "-path"))
            oracle(ctx, case, obs)
            cases.append((model_case(case, obs), (case, obs)))
            if i < 2:
                ctx.sample({"case": case, "observed": {k: obs[k] for k in ("mode", "uid", "gid", "atime", "mtime")},
                            "observed_len": len(obs["data"])})
        # sequences on one file
        for i in range(120 * scale):
            case = gen_seq_case(rng, root_user)
            obs = execute_seq(rig, root, case)
            ctx.count(repr(sorted(case.items())), nontrivial=True,
                      kind="seq-handle" if case["by_handle"] else "seq-path")
            oracle_seq(ctx, case, obs)
            seqs.append((model_seq_case(case, obs), (case, obs)))
            if i < 1:
                ctx.sample({"sequence": case, "stats": [{f: o[f] for f in FIELDS} for o in obs["stats"]]})
        # every kind of target against the os.* call on a twin tree
        for i in range(120 * scale):
            case = gen_kind_case(rng, root_user)
            obs = execute_kind(rig, root, case)
            ctx.count(repr(sorted(case.items())), nontrivial=True,
                      kind="kind-%s-%s" % (case["kind"], "handle" if case["by_handle"] else "path"))
            oracle_kind(ctx, case, obs)
            # the model leaves the set-id bits to the kernel (it may clear them on chown / resize):
            # those cases are compared with the twin tree only
            if not (case["mode0"] & 0o6000 and (case["op"] == "chown" or (case["op"] == "truncate" and not root_user))):
                kinds.append((model_kind_case(case, obs), (case, obs)))
            if i < 1:
                ctx.sample({"kind_case": case, "outcome": obs["outcome"], "served": obs["served"]})
        # several handles / sessions alive at once (second session on the same transport, third on its own)
        rig2 = Rig(ctx.repo, root)
        extra.append(rig2)
        import paramiko

        for i in range(60 * scale):
            case = gen_multi_case(rng, root_user, forced={0: "reuse", 1: "sessions", 2: "transports"}.get(i))
            ctx.count(repr(case["steps"]) + repr([f["data"] for f in case["files"]]), nontrivial=True,
                      kind="multi-handle")
            # fresh sessions every time (their handle counters all start over): two channels on one
            # transport, a third on its own transport
            sessions = {0: paramiko.SFTPClient.from_transport(rig.tc), 1: paramiko.SFTPClient.from_transport(rig.tc),
                        2: paramiko.SFTPClient.from_transport(rig2.tc)}
            try:
                execute_multi(ctx, lambda n: sessions[n], root, case)
            finally:
                for c in sessions.values():
                    try:
                        c.close()
                    except Exception:
                        pass
            if i == 0:
                ctx.sample({"multi_handle_steps": case["steps"]})
        # larger files: oracle only
        for i in range(25 * scale):
            case = gen_case(rng, 300_000, root_user)
            if case["size"] is None and rng.random() < 0.7:
                case["op"], case["size"] = "truncate", gen_size(rng, len(case["data"]), 300_000)
                case["ids"] = case["mode"] = case["times"] = None
                case["mode0"] &= 0o777
            obs = execute(rig, root, case)
            ctx.count(("big", len(case["data"]), case["size"], case["op"], case["by_handle"], case["data"][:32]),
                      nontrivial=case["size"] is not None and case["size"] != len(case["data"]), kind="big-" + case["op"])
            oracle(ctx, case, obs)
    finally:
        for x in extra:
            try:
                x.close()
            except Exception:
                pass
        if rig:
            rig.close()
        shutil.rmtree(root, ignore_errors=True)
    guarded_model(ctx, "run_set_attr",
                  "(Z * (list Z * Z * Z * Z * Z * Z) * (option Z * option (Z * Z) * option Z * option (Z * Z)))",
                  cases, "set_file_attr through client/server differs from the model",
                  lambda co: {k: co[1][k] for k in ("mode", "uid", "gid", "atime", "mtime", "data")})
    guarded_model(ctx, "run_node",
                  "(Z * Z * (list Z * Z * Z * Z * Z * Z) * (option Z * option (Z * Z) * option Z * option (Z * Z)))",
                  kinds, "a request on a file / link / directory / missing name differs from the model (state or status)",
                  lambda co: {"outcome": co[1]["outcome"], "served": co[1]["served"]})
    guarded_model(ctx, "run_seq", "((list Z * Z * Z * Z * Z * Z) * list step)", seqs,
                  "a sequence of requests through client/server differs from the model folded over it",
                  lambda co: {"stats": [{f: o[f] for f in FIELDS} for o in co[1]["stats"]], "data": co[1]["data"]})


def _unhex(v):
    return bytes.fromhex(v["hex"]) if isinstance(v, dict) and "hex" in v else v


def _replay_seq(ctx, case):
    case["data"] = _unhex(case["data"])
    for st in case["steps"]:
        if "data" in st:
            st["data"] = _unhex(st["data"])
        for k in ("ids", "times"):
            if st.get(k) is not None:
                st[k] = tuple(st[k])
    root = tempfile.mkdtemp(prefix="verif-c31-")
    rig = None
    try:
        rig = Rig(ctx.repo, root)
        for j in range(2):
            obs = execute_seq(rig, root, case)
            ctx.count(("replay-seq", j, repr(sorted(case.items()))))
            oracle_seq(ctx, case, obs)
    finally:
        if rig:
            rig.close()
        shutil.rmtree(root, ignore_errors=True)


def replay(ctx, rep):
    case = dict(rep["case"])
    if case.get("seq"):
        return _replay_seq(ctx, case)
    if case.get("multi"):
        for f in case["files"]:
            f["data"] = _unhex(f["data"])
        for st in case["steps"]:
            for k in ("ids", "times"):
                if st.get(k) is not None:
                    st[k] = tuple(st[k])
        root = tempfile.mkdtemp(prefix="verif-c31-")
        rig = rig2 = None
        try:
            import paramiko
            rig, rig2 = Rig(ctx.repo, root), Rig(ctx.repo, root)
            sessions = {0: rig.sftp, 1: paramiko.SFTPClient.from_transport(rig.tc), 2: rig2.sftp}
            for j in range(2):
                ctx.count(("replay-multi", j, repr(case["steps"])))
                execute_multi(ctx, lambda n: sessions[n], root, case)
        finally:
            for r in (rig2, rig):
                if r:
                    r.close()
            shutil.rmtree(root, ignore_errors=True)
        return
    if case.get("kinds"):
        case["data"] = _unhex(case["data"])
        for k in ("ids", "times"):
            case[k] = tuple(case[k])
        if case.get("owner0"):
            case["owner0"] = tuple(case["owner0"])
        root = tempfile.mkdtemp(prefix="verif-c31-")
        rig = None
        try:
            rig = Rig(ctx.repo, root)
            for j in range(2):
                obs = execute_kind(rig, root, case)
                ctx.count(("replay-kind", j, repr(sorted(case.items()))))
                oracle_kind(ctx, case, obs)
        finally:
            if rig:
                rig.close()
            shutil.rmtree(root, ignore_errors=True)
        return
    if "data" not in case or not isinstance(case["data"], dict) or "hex" not in case["data"]:
        return run(ctx)
    case["data"] = _unhex(case["data"])
    for k in ("ids", "times"):
        if case.get(k) is not None:
            case[k] = tuple(case[k])
    root = tempfile.mkdtemp(prefix="verif-c31-")
    rig = None
    try:
        rig = Rig(ctx.repo, root)
        for j in range(2):
            obs = execute(rig, root, case)
            ctx.count(("replay", j, repr(sorted(case.items(), key=lambda kv: kv[0]))))
            oracle(ctx, case, obs)
    finally:
        if rig:
            rig.close()
        shutil.rmtree(root, ignore_errors=True)
