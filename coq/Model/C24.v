(* C24 -- a channel's pollable descriptor (Channel.fileno(), paramiko/pipe.py) is readable
   exactly when recv would not block.  Definitions only; proofs are in Proofs/C24_proofs.v.

   Two models:

   v1  the code as repaired (fixes/C24-*.diff): OrPipe.set/clear run under one lock shared by
       the two halves, PosixPipe.set/clear/set_forever under the pipe's own (re-entrant) lock,
       BufferedPipe.feed sets the event only when the buffer is non-empty.  Atomic actions =
       critical sections.  The positive theorem is proved over this model.
   v0  the code before the repair, at statement (source line) granularity, no locks inside
       pipe.py.  Kept as documentation: the property is refuted on it by witness schedules. *)
From PV Require Import Bytes.
Open Scope Z_scope.

(* ====================================================================================== *)
(* v1: lock granularity                                                                    *)
(* ====================================================================================== *)

Inductive pop := PSet | PClear.                    (* pending call on the wrapped PosixPipe *)
Inductive cpc := CIdle | CClose1 | CClose2 | CForever.   (* progress of _handle_eof / _set_closed *)

(* s1 s2   : OrPipe._set of the stdout / stderr half
   ps fv n : PosixPipe._set, PosixPipe._forever, bytes in the OS pipe
   ne_i    : buffer i non-empty;  cl_i : BufferedPipe._closed;  ch : eof_received or closed
   fl      : the OrPipe call in flight (it holds the shared OrPipe lock and the lock of its
             buffer): the PosixPipe call it still has to make, and whether the caller is the
             channel-lock holder (true) or an application / feeder thread (false)
   cp      : where the channel-lock holder is inside _handle_eof / _set_closed *)
Record st := mk {
  s1 : bool; s2 : bool; ps : bool; fv : bool; n : nat;
  ne1 : bool; cl1 : bool; ne2 : bool; cl2 : bool; ch : bool;
  fl : option (pop * bool); cp : cpc }.

(* select(): the descriptor is readable when the OS pipe holds a byte *)
Definition readable (s : st) : bool := (0 <? n s)%nat.
Definition quiescent (s : st) : bool :=
  match fl s, cp s with None, CIdle => true | _, _ => false end.
(* recv / recv_stderr would not block *)
Definition wanted (s : st) : bool := ne1 s || ne2 s || ch s.

(* PosixPipe.set (body under self._lock):
     if self._set or self._closed: return ; self._set = True ; os.write(self._wfd, b"*") *)
Definition pipe_set (s : st) : st :=
  if ps s then s
  else mk (s1 s) (s2 s) true (fv s) (S (n s)) (ne1 s) (cl1 s) (ne2 s) (cl2 s) (ch s) (fl s) (cp s).

(* PosixPipe.clear: if not self._set or self._forever: return ; os.read(self._rfd, 1) ;
   self._set = False.   None = os.read would block (no byte in the pipe) *)
Definition pipe_clear (s : st) : option st :=
  if negb (ps s) || fv s then Some s
  else match n s with
       | O => None
       | S k => Some (mk (s1 s) (s2 s) false (fv s) k (ne1 s) (cl1 s) (ne2 s) (cl2 s) (ch s) (fl s) (cp s))
       end.

(* PosixPipe.set_forever: self._forever = True ; self.set()  (one critical section) *)
Definition pipe_forever (s : st) : st :=
  pipe_set (mk (s1 s) (s2 s) (ps s) true (n s) (ne1 s) (cl1 s) (ne2 s) (cl2 s) (ch s) (fl s) (cp s)).

Definition do_pop (o : pop) (s : st) : option st :=
  match o with PSet => Some (pipe_set s) | PClear => pipe_clear s end.

Definition set_fl (s : st) (f : option (pop * bool)) : st :=
  mk (s1 s) (s2 s) (ps s) (fv s) (n s) (ne1 s) (cl1 s) (ne2 s) (cl2 s) (ch s) f (cp s).
Definition set_cp (s : st) (c : cpc) : st :=
  mk (s1 s) (s2 s) (ps s) (fv s) (n s) (ne1 s) (cl1 s) (ne2 s) (cl2 s) (ch s) (fl s) c.

(* first half of OrPipe.set / OrPipe.clear on half i (false = stdout half p1, true = p2),
   under the shared OrPipe lock:  self._set = v ; if not self._partner._set: <call pending> *)
Definition or_op (s : st) (i v owner : bool) : st :=
  let s1' := if i then s1 s else v in
  let s2' := if i then v else s2 s in
  let partner := if i then s1 s else s2 s in
  mk s1' s2' (ps s) (fv s) (n s) (ne1 s) (cl1 s) (ne2 s) (cl2 s) (ch s)
     (if partner then None else Some (if v then PSet else PClear, owner)) (cp s).

Definition ne (i : bool) (s : st) := if i then ne2 s else ne1 s.
Definition cl (i : bool) (s : st) := if i then cl2 s else cl1 s.
Definition set_ne (s : st) (i v : bool) : st :=
  mk (s1 s) (s2 s) (ps s) (fv s) (n s) (if i then ne1 s else v) (cl1 s) (if i then v else ne2 s) (cl2 s)
     (ch s) (fl s) (cp s).
Definition set_cl (s : st) (i : bool) : st :=
  mk (s1 s) (s2 s) (ps s) (fv s) (n s) (ne1 s) (if i then cl1 s else true) (ne2 s) (if i then true else cl2 s)
     (ch s) (fl s) (cp s).
Definition set_ch (s : st) : st :=
  mk (s1 s) (s2 s) (ps s) (fv s) (n s) (ne1 s) (cl1 s) (ne2 s) (cl2 s) true (fl s) (cp s).

Definition or_free (s : st) : bool := match fl s with None => true | Some _ => false end.

(* Atomic actions.  Updates of a buffer's own fields (len, _closed) are folded into the
   adjacent event step: they happen under that buffer's lock, which is held until the event
   call returns, so no other thread and no quiescent observation can see them separately. *)
Inductive label :=
  | Feed (i nonempty : bool)   (* BufferedPipe.feed: append; if len > 0: event.set() *)
  | ReadAll (i : bool)         (* read() that empties the buffer: if not closed: event.clear() *)
  | Empty (i : bool)           (* empty(): if not closed: event.clear() *)
  | Finish                     (* the pending PosixPipe call of a feeder / reader thread *)
  | ChanBegin                  (* _handle_eof / _set_closed: take channel lock, set the flag *)
  | ChanClose                  (* in_buffer.close() resp. in_stderr_buffer.close(): _closed = True; event.set() *)
  | ChanFinish                 (* its pending PosixPipe.set *)
  | ChanForever.               (* self._pipe.set_forever() *)

Definition next_cp (c : cpc) : cpc :=
  match c with CClose1 => CClose2 | CClose2 => CForever | _ => CIdle end.

Definition step (s : st) (l : label) : option st :=
  match l with
  | Feed i nonempty =>
      if or_free s then
        let v := ne i s || nonempty in
        let s' := set_ne s i v in
        Some (if v then or_op s' i true false else s')
      else None
  | ReadAll i =>
      if or_free s && ne i s then
        let s' := set_ne s i false in
        Some (if cl i s then s' else or_op s' i false false)
      else None
  | Empty i =>
      if or_free s then
        let s' := set_ne s i false in
        Some (if cl i s then s' else or_op s' i false false)
      else None
  | Finish =>
      match fl s with
      | Some (o, false) => match do_pop o s with Some s' => Some (set_fl s' None) | None => None end
      | _ => None
      end
  | ChanBegin =>
      match cp s with CIdle => Some (set_cp (set_ch s) CClose1) | _ => None end
  | ChanClose =>
      if or_free s then
        match cp s with
        | CClose1 => let s' := or_op (set_cl s false) false true true in
                     Some (if or_free s' then set_cp s' CClose2 else s')
        | CClose2 => let s' := or_op (set_cl s true) true true true in
                     Some (if or_free s' then set_cp s' CForever else s')
        | _ => None
        end
      else None
  | ChanFinish =>
      match fl s with
      | Some (o, true) =>
          match do_pop o s with Some s' => Some (set_cp (set_fl s' None) (next_cp (cp s))) | None => None end
      | _ => None
      end
  | ChanForever =>
      match cp s with CForever => Some (set_cp (pipe_forever s) CIdle) | _ => None end
  end.

(* the invariant (boolean so that preservation can be checked by evaluation) *)
Definition inv_b (s : st) : bool :=
  Nat.eqb (n s) (if ps s then 1 else 0)
  && implb (fv s) (ps s) && implb (fv s) (ch s)
  && eqb (s1 s) (ne1 s || cl1 s) && eqb (s2 s) (ne2 s || cl2 s)
  && implb (cl1 s) (ch s) && implb (cl2 s) (ch s)
  && match fl s with
     | None => implb (negb (fv s)) (eqb (ps s) (s1 s || s2 s))
     | Some (PSet, _) => s1 s || s2 s
     | Some (PClear, _) => negb (s1 s || s2 s)
     end
  && match fl s, cp s with
     | Some (_, true), CClose1 => cl1 s
     | Some (_, true), CClose2 => cl2 s
     | Some (_, true), _ => false
     | _, _ => true
     end
  && match cp s with
     | CIdle => implb (ch s) (cl1 s && cl2 s)
     | CClose1 => ch s
     | CClose2 => ch s && cl1 s
     | CForever => ch s && cl1 s && cl2 s
     end.

(* the state right after Channel.fileno(): make_pipe, make_or_pipe, set_event on both buffers
   (set_event sets the event iff closed or len > 0).  EOF / close before fileno() leaves
   _forever false; the buffers are closed then, so their events are never cleared again. *)
Definition fileno_state (d1 d2 closed : bool) : st :=
  let a := d1 || closed in let b := d2 || closed in
  mk a b (a || b) false (if a || b then 1 else 0)%nat d1 closed d2 closed closed None CIdle.

Inductive reachable (s0 : st) : st -> Prop :=
  | r_init : reachable s0 s0
  | r_step : forall s l s', reachable s0 s -> step s l = Some s' -> reachable s0 s'.

Fixpoint run_labels (s : st) (ls : list label) : option st :=
  match ls with
  | [] => Some s
  | l :: r => match step s l with Some s' => run_labels s' r | None => None end
  end.

(* What this model assumes about the source, in the encoding of the generated Gen/C24_gen.v (gen/c24.py
   derives `gen_shape` from the AST of pipe.py, buffered_pipe.py, channel.py on every run; Props proves
   gen_shape = assumed_shape):
   [ OrPipe.set/clear entirely inside the lock shared by both halves            = 1 ;
     PosixPipe set/clear/set_forever entirely inside the pipe's RLock           = 1 ;
     BufferedPipe.feed sets the event although the buffer stays empty           = 0 ;
     BufferedPipe event calls only at the modelled places/guards, under _lock   = 1 ;
     Channel fileno/_handle_eof/_set_closed order, under the channel lock       = 1 ] *)
Definition assumed_shape : list Z := [1; 1; 0; 1; 1].

(* ---- finite quantification helpers (used by the reflective preservation check) -------- *)
Definition fb (P : bool -> bool) : bool := P true && P false.
Definition all_fl (P : option (pop * bool) -> bool) : bool :=
  P None && fb (fun o => P (Some (PSet, o))) && fb (fun o => P (Some (PClear, o))).
Definition all_cp (P : cpc -> bool) : bool := P CIdle && P CClose1 && P CClose2 && P CForever.
Definition all_label (P : label -> bool) : bool :=
  fb (fun i => fb (fun e => P (Feed i e))) && fb (fun i => P (ReadAll i)) && fb (fun i => P (Empty i))
  && P Finish && P ChanBegin && P ChanClose && P ChanFinish && P ChanForever.

Definition canon (a b c d e f g h k : bool) (x : option (pop * bool)) (y : cpc) : st :=
  mk a b c d (if c then 1 else 0)%nat e f g h k x y.

Definition all_states (P : st -> bool) : bool :=
  fb (fun a => fb (fun b => fb (fun c => fb (fun d => fb (fun e => fb (fun f => fb (fun g =>
  fb (fun h => fb (fun k => all_fl (fun x => all_cp (fun y => P (canon a b c d e f g h k x y)))))))))))).

Definition step_keeps_inv (s : st) (l : label) : bool :=
  implb (inv_b s) (match step s l with Some s' => inv_b s' | None => true end).
Definition quiescent_ok (s : st) : bool :=
  implb (inv_b s && quiescent s) (eqb (readable s) (wanted s)).
(* progress: a state with a call in progress always has an enabled action *)
Definition can_move (s : st) : bool :=
  implb (inv_b s && negb (quiescent s))
        (match step s Finish, step s ChanFinish, step s ChanClose, step s ChanForever with
         | None, None, None, None => false | _, _, _, _ => true end).

(* ---- correspondence runs ------------------------------------------------------------- *)
Definition zb (b : bool) : Z := if b then 1 else 0.
Definition bz (z : Z) : bool := negb (z =? 0).

(* pipe level: start flags reached sequentially, then threads each making a list of calls
   0 = p1.set  1 = p1.clear  2 = p2.set  3 = p2.clear  4 = pipe.set_forever ;
   a schedule entry t = thread t performs its next critical section *)
Definition pipe_start (a b f : bool) : st :=
  let p := a || b || f in
  mk a b p f (if p then 1 else 0)%nat a false b false f None CIdle.

(* thread state: remaining calls, and whether it owns the call in flight *)
Definition tstate := (list Z * bool)%type.

Fixpoint upd {A} (l : list A) (k : nat) (x : A) : list A :=
  match l, k with
  | [], _ => []
  | _ :: r, O => x :: r
  | y :: r, S k' => y :: upd r k' x
  end.

Definition pipe_thread_step (s : st) (ts : tstate) : option (st * tstate) :=
  let '(calls, mid) := ts in
  if mid then
    match fl s with
    | Some (o, _) => match do_pop o s with Some s' => Some (set_fl s' None, (calls, false)) | None => None end
    | None => None
    end
  else
    match calls with
    | [] => None
    | c :: r =>
        if c =? 4 then Some (pipe_forever s, (r, false))
        else if or_free s then
          let s' := or_op s (2 <=? c) (Z.even c) false in
          Some (s', (r, negb (or_free s')))
        else None
    end.

Fixpoint pipe_exec (s : st) (ths : list tstate) (sched : list Z) : st * list tstate * bool :=
  match sched with
  | [] => (s, ths, true)
  | t :: r =>
      let k := Z.to_nat (Z.min (Z.max t 0) 64) in
      match nth_error ths k with
      | None => (s, ths, false)
      | Some ts =>
          match pipe_thread_step s ts with
          | None => (s, ths, false)
          | Some (s', ts') => pipe_exec s' (upd ths k ts') r
          end
      end
  end.

Definition thread_done (ts : tstate) : bool :=
  match ts with ([], false) => true | _ => false end.

Definition run_pipe (c : (list Z * list (list Z)) * list Z) : list Z :=
  let '((start, calls), sched) := c in
  let s0 := pipe_start (bz (nth 0 start 0)) (bz (nth 1 start 0)) (bz (nth 2 start 0)) in
  let '(s, ths, ok) := pipe_exec s0 (map (fun cs => (cs, false)) calls) sched in
  [zb (s1 s); zb (s2 s); zb (ps s); zb (fv s); Z.of_nat (n s); zb (readable s);
   zb (ok && forallb thread_done ths)].

(* channel level, sequential: every operation runs to completion
   0/1 feed stdout non-empty/empty   2/3 feed stderr non-empty/empty   4/5 read all of stdout/stderr
   6 partial read (no event call)    7/8 empty() on stdout/stderr      9 EOF or remote close
   10 set_combine_stderr(True) with stderr data: in_stderr_buffer.empty() then the data fed to stdout *)
Definition finish_pending (l : label) (s : st) : option st :=
  if or_free s then Some s else step s l.

Definition chan_op (s : st) (c : Z) : option st :=
  let app l := match step s l with Some s' => finish_pending Finish s' | None => None end in
  if c =? 0 then app (Feed false true) else if c =? 1 then app (Feed false false)
  else if c =? 2 then app (Feed true true) else if c =? 3 then app (Feed true false)
  else if c =? 4 then (if ne1 s then app (ReadAll false) else Some s)
  else if c =? 5 then (if ne2 s then app (ReadAll true) else Some s)
  else if c =? 6 then Some s
  else if c =? 7 then app (Empty false) else if c =? 8 then app (Empty true)
  else if c =? 10 then
    match app (Empty true) with
    | Some s' => match step s' (Feed false true) with Some s'' => finish_pending Finish s'' | None => None end
    | None => None
    end
  else
    match step s ChanBegin with
    | None => None
    | Some a =>
        match step a ChanClose with
        | None => None
        | Some b =>
            match finish_pending ChanFinish b with
            | None => None
            | Some c1 =>
                match step c1 ChanClose with
                | None => None
                | Some d => match finish_pending ChanFinish d with
                            | None => None
                            | Some e => step e ChanForever
                            end
                end
            end
        end
    end.

Fixpoint chan_exec (s : st) (ops : list Z) : list Z :=
  match ops with
  | [] => [zb (s1 s); zb (s2 s); zb (ps s); zb (fv s); Z.of_nat (n s)]
  | c :: r =>
      match chan_op s c with
      | None => [(-1)]
      | Some s' => zb (readable s') :: zb (quiescent s') :: chan_exec s' r
      end
  end.

Definition run_chan (c : list Z * list Z) : list Z :=
  let '(start, ops) := c in
  chan_exec (fileno_state (bz (nth 0 start 0)) (bz (nth 1 start 0)) (bz (nth 2 start 0))) ops.

(* ====================================================================================== *)
(* v0: the code before the repair, one action per source line, no locks in pipe.py         *)
(* ====================================================================================== *)

Record st0 := mk0 { a1 : bool; a2 : bool; pset : bool; fvr : bool; nb : nat }.

(* program counters = source lines of pipe.py (before the repair) *)
Inductive pc0 :=
  | Start (c : Z)                 (* thread created, call not entered yet *)
  | OrSetA (i : bool)             (* self._set = True *)
  | OrSetB (i : bool)             (* if not self._partner._set: *)
  | OrSetC                        (*     self._pipe.set() *)
  | OrClrA (i : bool) | OrClrB (i : bool) | OrClrC
  | PSetA                         (* if self._set or self._closed: *)
  | PSetR                         (*     return *)
  | PSetB                         (* self._set = True *)
  | PSetC                         (* os.write(self._wfd, b"*") *)
  | PClrA                         (* if not self._set or self._forever: *)
  | PClrR                         (*     return *)
  | PClrB                         (* os.read(self._rfd, 1)   -- blocks on an empty pipe *)
  | PClrC                         (* self._set = False *)
  | FvA                           (* self._forever = True *)
  | FvB                           (* self.set() *)
  | Done.

Definition step0 (s : st0) (p : pc0) : option (st0 * pc0) :=
  match p with
  | Start c => Some (s, if c =? 0 then OrSetA false else if c =? 1 then OrClrA false
                        else if c =? 2 then OrSetA true else if c =? 3 then OrClrA true else FvA)
  | OrSetA i => Some (mk0 (if i then a1 s else true) (if i then true else a2 s) (pset s) (fvr s) (nb s), OrSetB i)
  | OrSetB i => Some (s, if (if i then a1 s else a2 s) then Done else OrSetC)
  | OrSetC => Some (s, PSetA)
  | OrClrA i => Some (mk0 (if i then a1 s else false) (if i then false else a2 s) (pset s) (fvr s) (nb s), OrClrB i)
  | OrClrB i => Some (s, if (if i then a1 s else a2 s) then Done else OrClrC)
  | OrClrC => Some (s, PClrA)
  | PSetA => Some (s, if pset s then PSetR else PSetB)
  | PSetR => Some (s, Done)
  | PSetB => Some (mk0 (a1 s) (a2 s) true (fvr s) (nb s), PSetC)
  | PSetC => Some (mk0 (a1 s) (a2 s) (pset s) (fvr s) (S (nb s)), Done)
  | PClrA => Some (s, if negb (pset s) || fvr s then PClrR else PClrB)
  | PClrR => Some (s, Done)
  | PClrB => match nb s with O => None | S k => Some (mk0 (a1 s) (a2 s) (pset s) (fvr s) k, PClrC) end
  | PClrC => Some (mk0 (a1 s) (a2 s) false (fvr s) (nb s), Done)
  | FvA => Some (mk0 (a1 s) (a2 s) (pset s) true (nb s), FvB)
  | FvB => Some (s, PSetA)
  | Done => None
  end.

(* a schedule entry names the thread that executes one line; None = the entry named a thread
   that is finished or blocked *)
Fixpoint exec0 (s : st0) (pcs : list pc0) (sched : list nat) : option (st0 * list pc0) :=
  match sched with
  | [] => Some (s, pcs)
  | t :: r =>
      match nth_error pcs t with
      | None => None
      | Some p => match step0 s p with
                  | None => None
                  | Some (s', p') => exec0 s' (upd pcs t p') r
                  end
      end
  end.

Definition is_done (p : pc0) : bool := match p with Done => true | _ => false end.
Definition readable0 (s : st0) : bool := (0 <? nb s)%nat.
Definition wanted0 (s : st0) : bool := a1 s || a2 s || fvr s.
(* start states: what sequential use of the API produces *)
Definition start0 (a b f : bool) : st0 :=
  let p := a || b || f in mk0 a b p f (if p then 1 else 0)%nat.
(* a thread is stuck when it is not finished and its next line cannot execute *)
Definition stuck0 (s : st0) (p : pc0) : bool :=
  negb (is_done p) && match step0 s p with None => true | Some _ => false end.
