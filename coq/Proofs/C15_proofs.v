From PV Require Import Bytes C39 C14 C14_proofs C15.
Open Scope Z_scope.

Definition harmless (o : tout) : Prop :=
  match o with TReply _ | TRaise _ | TStop | TUnhandled => True | _ => False end.

(* one connection-layer packet at an unauthenticated server *)
Lemma no_app_preauth :
  forall sig_ok sid ts p e ts' outs,
    t_server ts = true -> a_authed (t_auth ts) = false -> t_chans ts = [] ->
    80 <= ptype_of p <= 100 ->
    loop_step sig_ok sid ts p e = (ts', outs) ->
    (forall o, In o outs -> harmless o) /\
    (forall o, In o outs -> reaches_service o = false) /\
    t_chans ts' = [] /\ t_seen ts' = t_seen ts /\ a_authed (t_auth ts') = false /\
    a_user (t_auth ts') = a_user (t_auth ts) /\ a_fails (t_auth ts') = a_fails (t_auth ts).
Proof.
  intros sig_ok sid ts p e ts' outs Hs Ha Hc Hr H.
  destruct ts as [srv a ch seen nx]. destruct a as [act au us fl gs ex]. simpl in *. subst.
  destruct p as [m|pt chanid ok ku].
  - destruct m; unfold ptype_of, gen_msg_service_request, gen_msg_userauth_request,
      gen_msg_userauth_info_response, gen_msg_userauth_gssapi_mic in Hr; lia.
  - simpl in Hr. unfold loop_step in H. simpl in H.
    unfold ensure_authed, is_authenticated, conn_handler, kill, set_auth, set_expected, set_active in H.
    simpl in H.
    assert (Hhi : (pt <=? highest_userauth) = false) by (unfold highest_userauth, gen_highest_userauth; apply Z.leb_gt; lia).
    rewrite Hhi in H. simpl in H.
    destruct act; simpl in H; [|inversion H; subst; simpl; repeat split; intros o [] ].
    brk H; inversion H; subst; clear H; simpl; repeat split;
      try (intros o Ho; simpl in Ho; repeat destruct Ho as [Ho|Ho]; subst; simpl; auto; contradiction).
Qed.

(* auth-layer packets never reach a connection-layer service and never create channels *)
Lemma auth_packet_outputs :
  forall sig_ok sid ts m e ts' outs,
    loop_step sig_ok sid ts (PAuth m) e = (ts', outs) ->
    (forall o, In o outs -> reaches_service o = false) /\
    t_chans ts' = t_chans ts /\ t_server ts' = t_server ts /\
    (a_authed (t_auth ts) = true -> a_authed (t_auth ts') = true).
Proof.
  intros sig_ok sid ts m e ts' outs H.
  unfold loop_step in H.
  destruct (negb (a_active (t_auth ts))); [inversion H; subst; simpl; repeat split; auto; intros o []|].
  destruct (match a_expected (t_auth ts) with [] => false | _ :: _ => negb (zmem (ptype_of (PAuth m)) (a_expected (t_auth ts))) end).
  - inversion H; subst; simpl. repeat split; auto.
    intros o [Ho|[]]; subst; reflexivity.
  - simpl in H. destruct (t_server ts) eqn:Es.
    + destruct (auth_step sig_ok sid (set_expected (t_auth ts) []) m e) as [a' o] eqn:E.
      inversion H; subst; simpl. repeat split; auto.
      * intros x Hx. apply in_map_iff in Hx. destruct Hx as [y [Hy _]]. subst. reflexivity.
      * intros Hau. eapply authed_mono; [exact E|]. destruct (t_auth ts); exact Hau.
    + inversion H; subst; simpl. repeat split; auto.
      intros o [Ho|[]]; subst; reflexivity.
Qed.

Lemma conn_packet_mono :
  forall sig_ok sid ts pt c ok ku e ts' outs,
    loop_step sig_ok sid ts (PConn pt c ok ku) e = (ts', outs) ->
    t_server ts' = t_server ts /\
    (a_authed (t_auth ts) = true -> a_authed (t_auth ts') = true).
Proof.
  intros sig_ok sid ts pt c ok ku e ts' outs H.
  destruct ts as [srv a ch seen nx]. destruct a as [act au us fl gs ex].
  unfold loop_step in H. simpl in H.
  unfold ensure_authed, is_authenticated, conn_handler, kill, set_auth, set_expected, set_active in H.
  simpl in H.
  brk H; inversion H; subst; clear H; simpl; split; auto.
Qed.

(* every history: as long as the server has not authenticated the client, no packet whatsoever
   (auth-layer or connection-layer, any order, any oracle) reached a connection-layer service,
   and no channel exists *)
Lemma preauth_history :
  forall sig_ok sid steps ts ts' outs,
    t_server ts = true -> t_chans ts = [] ->
    loop_run sig_ok sid ts steps = (ts', outs) ->
    (forall p e, In (p, e) steps -> (exists m, p = PAuth m) \/ 80 <= ptype_of p <= 100) ->
    a_authed (t_auth ts') = false ->
    (forall o, In o outs -> reaches_service o = false) /\ t_chans ts' = [].
Proof.
  intros sig_ok sid steps. induction steps as [|[p e] r IH]; intros ts ts' outs Hs Hc H Hk Hf.
  - simpl in H. inversion H; subst. split; [intros o []|exact Hc].
  - simpl in H. destruct (loop_step sig_ok sid ts p e) as [ts1 o1] eqn:E1.
    destruct (loop_run sig_ok sid ts1 r) as [ts2 o2] eqn:E2. inversion H; subst; clear H.
    assert (Hk' : forall p0 e0, In (p0, e0) r -> (exists m, p0 = PAuth m) \/ 80 <= ptype_of p0 <= 100)
      by (intros; apply (Hk p0 e0); right; assumption).
    (* the final state is unauthenticated, hence so are ts1 and ts *)
    assert (M : forall steps0 tsa tsb ob, loop_run sig_ok sid tsa steps0 = (tsb, ob) ->
                a_authed (t_auth tsa) = true -> a_authed (t_auth tsb) = true).
    { clear. intros steps0. induction steps0 as [|[p e] r IH]; intros tsa tsb ob H Ha.
      - simpl in H. inversion H; subst. exact Ha.
      - simpl in H. destruct (loop_step sig_ok sid tsa p e) as [t1 o1] eqn:E1.
        destruct (loop_run sig_ok sid t1 r) as [t2 o2] eqn:E2. inversion H; subst.
        apply (IH _ _ _ E2). destruct p as [m|pt c ok ku].
        + apply (proj2 (proj2 (proj2 (auth_packet_outputs _ _ _ _ _ _ _ E1)))). exact Ha.
        + apply (proj2 (conn_packet_mono _ _ _ _ _ _ _ _ _ _ E1)). exact Ha. }
    assert (F1 : a_authed (t_auth ts1) = false).
    { destruct (a_authed (t_auth ts1)) eqn:X; [|reflexivity].
      rewrite (M _ _ _ _ E2 X) in Hf. discriminate. }
    assert (F0 : a_authed (t_auth ts) = false).
    { destruct (a_authed (t_auth ts)) eqn:X; [|reflexivity]. destruct p as [m|pt c ok ku].
      - rewrite (proj2 (proj2 (proj2 (auth_packet_outputs _ _ _ _ _ _ _ E1))) X) in F1. discriminate.
      - rewrite (proj2 (conn_packet_mono _ _ _ _ _ _ _ _ _ _ E1) X) in F1. discriminate. }
    assert (S1 : (forall o, In o o1 -> reaches_service o = false) /\ t_chans ts1 = [] /\ t_server ts1 = true).
    { destruct p as [m|pt c ok ku].
      - destruct (auth_packet_outputs _ _ _ _ _ _ _ E1) as [A [B [C _]]].
        split; [exact A|]. split; congruence.
      - destruct (Hk (PConn pt c ok ku) e (or_introl eq_refl)) as [[m Hm]|Hr]; [discriminate|].
        destruct (no_app_preauth _ _ _ _ _ _ _ Hs F0 Hc Hr E1) as [_ [A [B _]]].
        split; [exact A|]. split; [exact B|].
        rewrite (proj1 (conn_packet_mono _ _ _ _ _ _ _ _ _ _ E1)). exact Hs. }
    destruct S1 as [A1 [C1 Sv1]].
    destruct (IH _ _ _ Sv1 C1 E2 Hk' Hf) as [A2 C2].
    split; [|exact C2].
    intros o Ho. apply in_app_or in Ho. destruct Ho; auto.
Qed.

Lemma generated_tables :
  filter (fun p => 80 <=? p) handler_types = [80; 81; 82; 90; 91; 92] /\
  channel_types = [93; 94; 95; 96; 97; 98; 99; 100] /\ highest_userauth = 79 /\
  forallb (fun p => (highest_userauth <? p) && (p <=? 100)) (filter (fun p => 80 <=? p) handler_types ++ channel_types) = true.
Proof. vm_compute. repeat split. Qed.
