#!/usr/bin/env python3
"""tryseed.py <worktree> <outdir>  — for every <ID>-<k> dir in outdir: apply patch in the worktree, run the demo
(expect 1), run ./check <ID> against the worktree (expect VIOLATION), undo, run the demo (expect 0); keep confirmed
changes under /verif/seeded/<ID>-<tag><k>/ with the result recorded in meta.json.  Optional extra ids after '--also'."""
import json, os, shutil, subprocess, sys
wt, out = sys.argv[1], sys.argv[2]
tag = os.path.basename(wt).replace("seed-", "")
subprocess.run(["git", "-C", wt, "checkout", "-q", "--", "."], check=True)
head = subprocess.check_output(["git", "-C", "/repo", "rev-parse", "HEAD"], text=True).strip()
subprocess.run(["git", "-C", wt, "checkout", "-q", "--detach", head], check=True)
res = []
for d in sorted(os.listdir(out)):
    p = os.path.join(out, d)
    if not (os.path.isdir(p) and os.path.exists(os.path.join(p, "patch.diff"))):
        continue
    pid = d.split("-")[0]
    subprocess.run(["git", "-C", wt, "checkout", "-q", "--", "."], check=True)
    a = subprocess.run(["git", "-C", wt, "apply", os.path.join(p, "patch.diff")], capture_output=True, text=True)
    if a.returncode != 0:
        res.append((d, "PATCH-DOES-NOT-APPLY", a.stderr[-200:])); continue
    try:
        d1 = subprocess.run(["/venv/bin/python", os.path.join(p, "demo.py"), wt], capture_output=True, text=True, timeout=180).returncode
    except subprocess.TimeoutExpired:
        d1 = "timeout"
    env = dict(os.environ, VERIF_REPO=wt, VERIF_JOBS="6")
    c = subprocess.run(["./check", pid], cwd="/verif", env=env, capture_output=True, text=True)
    viol = [l for l in c.stdout.split("\n") if l.startswith("VIOLATION")]
    nofail = all("no-failing-input-found" in l for l in viol) if viol else False
    subprocess.run(["git", "-C", wt, "checkout", "-q", "--", "."], check=True)
    try:
        d0 = subprocess.run(["/venv/bin/python", os.path.join(p, "demo.py"), wt], capture_output=True, text=True, timeout=180).returncode
    except subprocess.TimeoutExpired:
        d0 = "timeout"
    confirmed = (d1 == 1 and d0 == 0)
    status = ("CAUGHT" if viol and not nofail else "CAUGHT-NO-INPUT" if viol else "MISSED")
    res.append((d, "demo with=%s without=%s" % (d1, d0), status, len(viol)))
    if confirmed:
        dst = os.path.join("/verif/seeded", "%s-%s%s" % (pid, tag, d.split("-")[1]))
        os.makedirs(dst, exist_ok=True)
        for f in os.listdir(p):
            if os.path.isfile(os.path.join(p, f)):
                shutil.copy(os.path.join(p, f), os.path.join(dst, f))
        mp = os.path.join(dst, "meta.json")
        try:
            meta = json.load(open(mp))
        except Exception:
            meta = {}
        meta["property"] = pid
        meta["confirmed_by_me"] = "patch applied in a scratch worktree: demo exits 1 with it and 0 without; the author ran the full test suite with the patch (see tests_run)"
        meta["check_result"] = "%s: VERIF_REPO=<worktree> ./check %s -> %d VIOLATION line(s)%s" % (
            status, pid, len(viol), "; first: " + viol[0].split("replay=")[0] if viol else "")
        # keep the replay summary for the record
        keys = []
        for l in viol[:4]:
            rp = l.split("replay=")[1].split()[0]
            try:
                r = json.load(open(rp)); keys.append(r.get("key") or r.get("kind"))
            except Exception:
                pass
        meta["violation_keys"] = keys
        json.dump(meta, open(mp, "w"), indent=1)
for r in res:
    print(*r)
