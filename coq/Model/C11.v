(* C11 - key re-exchange and in-flight traffic.  Definitions only.

   LTS of one transport (paramiko/transport.py): the transport thread (run loop, handlers), any number
   of user threads going through _send_user_message, the clear_to_send flag, and the own-side phases of a
   key exchange.  The reply discipline of every inbound connection-layer handler is NOT written here: it
   is read from Gen/C11_gen.v, which gen/c11.py regenerates from the source (AST call-graph walk).

   Atomic steps = critical sections under clear_to_send_lock:
     _send_user_message : test the flag and (if set) emit          -> UserSend / UserWake (one step each)
     _send_kex_init     : clear the flag, then emit KEXINIT        -> one step (nothing gated can be emitted
                                                                      between the clear and the emission)
     _parse_newkeys     : set the flag                             -> Recv 21
   A handler that replies through the gate while the flag is clear leaves the transport thread blocked
   (ttw = Some msgs); from then on no transport-thread event is enabled.  The environment event Timeout
   stands for clear_to_send_timeout passing (SSHException "Key-exchange timed out", the transport dies).

   Locks: a user thread that performs a gated send while holding `self.lock` of a Channel / Transport parks at
   the gate WITH the lock (lk); a handler that needs that lock then blocks the transport thread behind it
   (ttl), and the flag can never be set.  Whether such a code path exists is a generated fact
   (locked_send_count, from the AST of every critical section); the event UserSendLocked behaves that way
   only in step_gen true.  The model has one lock (all channels / the transport lock are conflated). *)
From Coq Require Import ZArith List Bool.
From PV Require Import Bytes C11_gen.
Import ListNotations.
Open Scope Z_scope.

(* ---- generated table ---------------------------------------------------------------- *)
Fixpoint lookup (p : Z) (t : list (Z * (disc * list Z))) : option (disc * list Z) :=
  match t with
  | [] => None
  | (q, x) :: r => if q =? p then Some x else lookup p r
  end.

(* types without a connection-layer handler (kex, auth, unknown) never produce a message >= 50 here:
   the run loop answers unknown types with UNIMPLEMENTED (3) *)
Definition disc_of (p : Z) : disc :=
  match lookup p handler_table with Some (d, _) => d | None => NoReply end.
Definition reply_types (p : Z) : list Z :=
  match lookup p handler_table with Some (_, l) => l | None => [] end.

Fixpoint lookupb (p : Z) (t : list (Z * bool)) : bool :=
  match t with
  | [] => false
  | (q, x) :: r => if q =? p then x else lookupb p r
  end.
Definition needs_lock (p : Z) : bool := lookupb p handler_locks.
(* does the code contain a send performed while self.lock is held? *)
Definition code_locked : bool := negb (locked_send_count =? 0).

Definition disc_eqb (a b : disc) : bool :=
  match a, b with NoReply, NoReply | Ungated, Ungated | Gated, Gated => true | _, _ => false end.

(* ---- traces ------------------------------------------------------------------------- *)
Inductive origin := OUser | OReply (p : Z) | OKex | OKeepalive.
Definition item := (Z * origin)%type.

(* own-side "between KEXINIT and NEWKEYS" flag, derived from the emitted types alone *)
Definition kstep (k : bool) (it : item) : bool :=
  if fst it =? 20 then true else if fst it =? 21 then false else k.
Fixpoint kf (k : bool) (tr : list item) : bool :=
  match tr with [] => k | it :: r => kf (kstep k it) r end.

(* messages >= 50 emitted between own KEXINIT and own NEWKEYS *)
Fixpoint offenders (k : bool) (tr : list item) : list item :=
  match tr with
  | [] => []
  | it :: r =>
      if (fst it =? 20) || (fst it =? 21) then offenders (kstep k it) r
      else if k && (50 <=? fst it) then it :: offenders k r
      else offenders k r
  end.

(* ---- state -------------------------------------------------------------------------- *)
Inductive phase := Idle | SentKexinit | InKex | SentNewkeys.
Definition is_idle (p : phase) : bool := match p with Idle => true | _ => false end.
Definition phase_kex (p : phase) : bool := match p with SentKexinit | InKex => true | _ => false end.

Record st := mkst {
  ph : phase;                 (* own side of the exchange *)
  cts : bool;                 (* clear_to_send *)
  need : bool;                (* packetizer need_rekey *)
  ka : bool;                  (* keepalive enabled *)
  ttw : option (list item);   (* transport thread blocked in _send_user_message with these messages *)
  uq : list Z;                (* user messages waiting at the gate, in arrival order *)
  dead : bool;
  out : list item;            (* emitted messages, oldest first *)
  lk : bool;                  (* a user thread waits at the gate holding self.lock *)
  ttl : bool;                 (* transport thread blocked on that lock inside a handler *)
  pend : bool                 (* v0 only: _parse_newkeys has signalled completion_event but not yet run
                                 `in_kex = False; clear_to_send.set()` *)
}.

Definition init_st (keep : bool) : st := mkst Idle true false keep None [] false [] false false false.

Definition emit (s : st) (its : list item) : st :=
  mkst (ph s) (cts s) (need s) (ka s) (ttw s) (uq s) (dead s) (out s ++ its) (lk s) (ttl s) (pend s).
Definition set_uq (s : st) (q : list Z) : st :=
  mkst (ph s) (cts s) (need s) (ka s) (ttw s) q (dead s) (out s) (lk s) (ttl s) (pend s).
Definition set_phase (s : st) (p : phase) (c : bool) : st :=
  mkst p c (need s) (ka s) (ttw s) (uq s) (dead s) (out s) (lk s) (ttl s) (pend s).
Definition set_need (s : st) (n : bool) : st :=
  mkst (ph s) (cts s) n (ka s) (ttw s) (uq s) (dead s) (out s) (lk s) (ttl s) (pend s).
Definition block (s : st) (its : list item) : st :=
  mkst (ph s) (cts s) (need s) (ka s) (Some its) (uq s) (dead s) (out s) (lk s) (ttl s) (pend s).
Definition kill (s : st) : st :=
  mkst (ph s) (cts s) (need s) (ka s) (ttw s) (uq s) true (out s) (lk s) (ttl s) (pend s).
Definition set_lk (s : st) (l : bool) : st :=
  mkst (ph s) (cts s) (need s) (ka s) (ttw s) (uq s) (dead s) (out s) l (ttl s) (pend s).
Definition set_pend (s : st) (b : bool) : st :=
  mkst (ph s) (cts s) (need s) (ka s) (ttw s) (uq s) (dead s) (out s) (lk s) (ttl s) b.
Definition block_lock (s : st) : st :=
  mkst (ph s) (cts s) (need s) (ka s) (ttw s) (uq s) (dead s) (out s) (lk s) true (pend s).

(* _send_kex_init: clear the flag, in_kex, emit KEXINIT *)
Definition kexinit (s : st) : st := emit (set_phase s SentKexinit false) [(20, OKex)].

Definition replies (p : Z) : list item := map (fun t => (t, OReply p)) (reply_types p).
Definition keepalive_msg : list item := map (fun t => (t, OKeepalive)) keepalive_types.

(* _send_user_message on the transport thread *)
Definition gate_tt (s : st) (its : list item) : st := if cts s then emit s its else block s its.

Definition is_nil {A} (l : list A) : bool := match l with [] => true | _ => false end.
Definition user_ok (t : Z) : bool := negb ((t =? 20) || (t =? 21)).
Definition tt_free (s : st) : bool :=
  match ttw s with None => negb (ttl s) && negb (pend s) | Some _ => false end.

Inductive ev :=
| UserSend (t : Z)        (* a user thread calls _send_user_message with a message of type t *)
| UserSendLocked (t : Z)  (* the same while holding self.lock (only where the code has such a path) *)
| UserWake                (* the oldest waiting user thread re-tests the flag *)
| UserRekey               (* renegotiate_keys from a user thread *)
| Threshold               (* the packetizer raises need_rekey *)
| TtIter                  (* top of the run loop: need_rekey and not in_kex -> _send_kex_init *)
| Recv (p : Z) (w : bool) (* the transport thread reads a message of type p; w = the handler takes its reply path *)
| KeepTick                (* read timeout in the run loop: _check_keepalive *)
| TtLate                  (* v0 only: the transport thread runs the tail of _parse_newkeys *)
| Timeout.                (* clear_to_send_timeout passes for the blocked transport thread *)

(* nka = "_parse_newkeys releases the gate atomically": in_kex := False and clear_to_send.set() in one
   clear_to_send_lock section, completion_event signalled only after it (generated fact nk_atomic).
   In the other variant (v0) completion is signalled first: renegotiate_keys returns, the application may start
   the next exchange, and the transport thread's late clear_to_send.set() undoes that exchange's clear(). *)
Definition recv (nka : bool) (s : st) (p : Z) (w : bool) : st :=
  if p =? 20 then                                   (* _negotiate_keys *)
    match ph s with
    | Idle => emit (set_phase s InKex false) [(20, OKex); (30, OKex)]
    | SentKexinit => emit (set_phase s InKex false) [(30, OKex)]
    | _ => s
    end
  else if (30 <=? p) && (p <=? 49) then             (* kex_engine.parse_next ... _activate_outbound *)
    match ph s with
    | InKex => emit (set_phase s SentNewkeys false) [(21, OKex)]
    | _ => s
    end
  else if p =? 21 then                              (* _parse_newkeys *)
    match ph s with
    | SentNewkeys =>
        if nka then set_need (set_phase s Idle true) false
        else set_pend (set_need (set_phase s Idle false) false) true
    | _ => s
    end
  else if needs_lock p && lk s then block_lock s     (* the handler's self.lock.acquire() *)
  else if w then
    match disc_of p with
    | NoReply => s
    | Ungated => emit s (replies p)
    | Gated => gate_tt s (replies p)
    end
  else s.

Definition step_gen (locked nka : bool) (s : st) (e : ev) : st :=
  if dead s then s else
  match e with
  | UserSend t =>
      if user_ok t then (if cts s then emit s [(t, OUser)] else set_uq s (uq s ++ [t])) else s
  | UserSendLocked t =>
      if user_ok t then
        (if cts s then emit s [(t, OUser)]
         else if locked then set_lk (set_uq s (uq s ++ [t])) true else set_uq s (uq s ++ [t]))
      else s
  | UserWake =>
      match uq s with
      | t :: r =>
          if cts s then emit (set_lk (set_uq s r) (lk s && negb (is_nil r))) [(t, OUser)] else s
      | [] => s
      end
  | UserRekey => if is_idle (ph s) then kexinit s else s
  | Threshold => set_need s true
  | Timeout => match ttw s with Some _ => kill s | None => s end
  | TtIter => if tt_free s then (if need s && is_idle (ph s) then kexinit s else s) else s
  | Recv p w => if tt_free s then recv nka s p w else s
  | TtLate => if pend s then set_pend (set_phase s (ph s) true) false else s
  | KeepTick =>
      if tt_free s then
        (* _check_keepalive: `if not interval or not encrypting or need_rekey: return` - the last term as found
           in the source (keepalive_need_guard) *)
        (if ka s && negb (keepalive_need_guard && need s) then
           match keepalive_disc with
           | Gated => gate_tt s keepalive_msg
           | Ungated => emit s keepalive_msg
           | NoReply => s
           end
         else s)
      else s
  end.

(* v1: locked sends exist iff the translator found one; _parse_newkeys releases the gate atomically *)
Definition step (s : st) (e : ev) : st := step_gen code_locked true s e.
Definition run (s : st) (evs : list ev) : st := fold_left step evs s.
Definition run_gen (locked nka : bool) (s : st) (evs : list ev) : st := fold_left (step_gen locked nka) evs s.
(* the working tree as the translator sees it *)
Definition step_tree (s : st) (e : ev) : st := step_gen code_locked nk_atomic s e.
Definition run_tree (s : st) (evs : list ev) : st := fold_left step_tree evs s.

(* the peer's half of an exchange, as seen by the transport thread, from each phase *)
Definition complete (p : phase) : list ev :=
  match p with
  | Idle => []
  | SentKexinit => [Recv 20 false; Recv 31 false; Recv 21 false]
  | InKex => [Recv 31 false; Recv 21 false]
  | SentNewkeys => [Recv 21 false]
  end.
Definition kexpart (p : phase) : list item :=
  match p with
  | Idle => []
  | SentKexinit => [(30, OKex); (21, OKex)]
  | InKex => [(21, OKex)]
  | SentNewkeys => []
  end.

(* events that cannot disturb an exchange: no reply path taken, or a handler that does not reply *)
Definition quiet (e : ev) : bool :=
  match e with
  | Recv p w => negb w || disc_eqb (disc_of p) NoReply
  | KeepTick => false
  | _ => true
  end.

(* ---- the cell the harness runs on the real code ------------------------------------- *)
(* (initiation 0 = renegotiate_keys from a user thread / 1 = threshold picked up by the run loop / 2 = two
    renegotiate_keys back to back, the second landing inside the first one's _parse_newkeys,
    in-flight type (0 = none), reply path taken, keepalive enabled and ticking during the exchange,
    the user operation performs its gated send while holding self.lock)
   -> [code; delivered]   code 3 = transport thread waits on a lock held by a user thread parked at the gate,
   2 = transport thread waits on the flag, 1 = a message >= 50 went out
   between KEXINIT and NEWKEYS, 0 = transparent; delivered = the queued user data went out after NEWKEYS *)
Definition run_cell (c : Z * Z * bool * bool * bool * bool) : list Z :=
  let '(ini, p, w, keep, ul, nka) := c in
  let stp := step_gen ul nka in
  let s0 := init_st keep in
  let s1 :=
    if ini =? 0 then stp s0 UserRekey
    else if ini =? 1 then stp (stp s0 Threshold) TtIter
    else (* 2: a whole exchange, then renegotiate_keys again as soon as the first call returns, i.e. after
            completion was signalled, and only then the tail of _parse_newkeys *)
      stp (stp (run_gen ul nka (stp s0 UserRekey) (complete SentKexinit)) UserRekey) TtLate in
  let s2 := stp s1 (if ul then UserSendLocked 94 else UserSend 94) in
  let s3 := if keep then stp s2 KeepTick else s2 in
  let s4 := if p =? 0 then s3 else stp s3 (Recv p w) in
  if ttl s4 then [3; 0] else
  match ttw s4 with
  | Some _ => [2; 0]
  | None =>
      if negb (is_nil (offenders false (out s4))) then [1; 0]
      else
        let s5 := run_gen ul nka s4 (complete (ph s4) ++ [TtLate; UserWake]) in
        [0; if is_idle (ph s5) && cts s5 && is_nil (uq s5) && existsb (fun it => fst it =? 94) (out s5)
            then 1 else 0]
  end.
