(* C33 — SFTP file attributes survive encoding and decoding.
   Property statements only; every proof is `exact <lemma from Proofs/C33_proofs.v>`.

   "Same extended attributes" is meant observably: the extended map is compared as the ordered
   list of (key bytes, value bytes) pairs, i.e. what add_string writes (str is UTF-8 encoded) and
   what get_string returns (bytes); _unpack never turns them back into str.  The hypothesis
   NoDup (map fst (a_ext a)) says the dict's keys are distinct as bytes (a dict holding both 'k'
   and b'k' writes the same key twice and cannot round-trip). *)
From PV Require Import Bytes C39 C33_gen C33 C33_proofs.
Open Scope Z_scope.

(* Whatever follows the attribute block in the message: decoding the encoding of `a` consumes
   exactly the encoding, stores flags = flags_of a, and yields `normalize a` — every field
   that is present comes back with its value (64-bit size, 32-bit mode, uid/gid and
   atime/mtime as pairs, the extended pairs in order), every absent field comes back absent,
   and a uid without gid / an atime without mtime (which _pack does not write: not representable
   on the wire) comes back absent. *)
Theorem C33_roundtrip :
  forall (a : attrs) (bs rest : list Z),
    NoDup (map fst (a_ext a)) -> pack a = Ok bs ->
    unpack (bs ++ rest) 0 = Ok (flags_of a, normalize a, length bs).
Proof. exact roundtrip. Qed.
Print Assumptions C33_roundtrip.

(* for an attribute set whose ids and times come in pairs the decoded object is the original *)
Theorem C33_roundtrip_paired :
  forall (a : attrs) (bs rest : list Z),
    paired a = true -> NoDup (map fst (a_ext a)) -> pack a = Ok bs ->
    unpack (bs ++ rest) 0 = Ok (flags_of a, a, length bs).
Proof. exact roundtrip_paired. Qed.
Print Assumptions C33_roundtrip_paired.

(* what normalize does, field by field: absent stays absent, unpaired becomes absent,
   everything else is unchanged *)
Theorem C33_absent_stays_absent :
  forall a : attrs,
  a_size (normalize a) = a_size a /\ a_mode (normalize a) = a_mode a /\ a_ext (normalize a) = a_ext a /\
  (a_uid a = None \/ a_gid a = None -> a_uid (normalize a) = None /\ a_gid (normalize a) = None) /\
  (a_atime a = None \/ a_mtime a = None -> a_atime (normalize a) = None /\ a_mtime (normalize a) = None) /\
  (a_uid a <> None -> a_gid a <> None ->
     a_uid (normalize a) = a_uid a /\ a_gid (normalize a) = a_gid a) /\
  (a_atime a <> None -> a_mtime a <> None ->
     a_atime (normalize a) = a_atime a /\ a_mtime (normalize a) = a_mtime a).
Proof. exact normalize_fields. Qed.
Print Assumptions C33_absent_stays_absent.

(* the flags word is exactly the set of fields that are written *)
Theorem C33_flags_exact :
  forall a : attrs,
  flags_of a =
  (if is_some (a_size a) then FLAG_SIZE else 0) +
  (if is_some (a_uid a) && is_some (a_gid a) then FLAG_UIDGID else 0) +
  (if is_some (a_mode a) then FLAG_PERMISSIONS else 0) +
  (if is_some (a_atime a) && is_some (a_mtime a) then FLAG_AMTIME else 0) +
  (if nonempty (a_ext a) then FLAG_EXTENDED else 0).
Proof. exact flags_exact. Qed.
Print Assumptions C33_flags_exact.

(* FLAG_* are regenerated from paramiko/sftp_attr.py on every run (Gen/C33_gen.v); they are the
   five distinct bits of the SFTP draft (editing one in the source breaks this and the sum above) *)
Theorem C33_flag_values :
  FLAG_SIZE = 1 /\ FLAG_UIDGID = 2 /\ FLAG_PERMISSIONS = 4 /\ FLAG_AMTIME = 8 /\ FLAG_EXTENDED = 2147483648.
Proof. exact flag_values. Qed.
Print Assumptions C33_flag_values.

(* and the decoder's tests `flags & FLAG` recover exactly that set *)
Theorem C33_flags_tests :
  forall a : attrs,
  has (flags_of a) FLAG_SIZE = is_some (a_size a) /\
  has (flags_of a) FLAG_UIDGID = is_some (a_uid a) && is_some (a_gid a) /\
  has (flags_of a) FLAG_PERMISSIONS = is_some (a_mode a) /\
  has (flags_of a) FLAG_AMTIME = is_some (a_atime a) && is_some (a_mtime a) /\
  has (flags_of a) FLAG_EXTENDED = nonempty (a_ext a).
Proof. exact flags_has. Qed.
Print Assumptions C33_flags_tests.

(* the hypothesis `pack a = Ok bs` of the round trip is met by every attribute set whose written
   values fit their wire widths (64-bit size, 32-bit ids / mode / times, string lengths) *)
Theorem C33_pack_total :
  forall a : attrs, in_range a = true -> exists bs, pack a = Ok bs.
Proof. exact pack_total. Qed.
Print Assumptions C33_pack_total.

(* The object keeps _flags between calls.  _pack is a function of the attribute fields only: the
   bytes written and the flags held afterwards do not depend on the flags held before *)
Theorem C33_pack_ignores_prior_flags :
  forall (p1 p2 : Z) (a : attrs),
    pack_obj p1 a = pack_obj p2 a /\ pack_obj p1 a = (pack a, flags_of a).
Proof. exact pack_obj_ignores_prior. Qed.
Print Assumptions C33_pack_ignores_prior_flags.

(* nor on whether the object was rendered (str / repr / asbytes, a listing entry's longname) before *)
Theorem C33_pack_after_render :
  forall (prior : Z) (a : attrs),
    pack_obj (fst (render_obj (prior, a))) (snd (render_obj (prior, a))) = (pack a, flags_of a).
Proof. exact pack_after_render. Qed.
Print Assumptions C33_pack_after_render.

(* hence the round trip for an object with any history (decoded or encoded before, then edited) *)
Theorem C33_roundtrip_any_history :
  forall (prior : Z) (a : attrs) (bs rest : list Z),
    NoDup (map fst (a_ext a)) -> fst (pack_obj prior a) = Ok bs ->
    unpack (bs ++ rest) 0 = Ok (snd (pack_obj prior a), normalize a, length bs).
Proof. exact roundtrip_any_history. Qed.
Print Assumptions C33_roundtrip_any_history.

(* decode anything, replace the fields, encode, decode: the new fields and exactly their flags *)
Theorem C33_decode_edit_encode :
  forall (buf : list Z) (pos : nat) (fl : Z) (a : attrs) (p : nat) (a' : attrs) (bs rest : list Z),
    unpack buf pos = Ok (fl, a, p) ->
    NoDup (map fst (a_ext a')) ->
    fst (pack_obj fl a') = Ok bs ->
    unpack (bs ++ rest) 0 = Ok (flags_of a', normalize a', length bs).
Proof. exact decode_edit_encode. Qed.
Print Assumptions C33_decode_edit_encode.

(* a _pack that does not start with self._flags = 0 leaks the prior flags *)
Theorem C33_noreset_refuted :
  let empty := MkAttrs None None None None None None [] in
  pack_obj FLAG_EXTENDED empty = (Ok [0; 0; 0; 0], 0) /\
  pack_obj_noreset FLAG_EXTENDED empty = (Ok [128; 0; 0; 0; 0; 0; 0; 0], FLAG_EXTENDED) /\
  pack_obj_noreset FLAG_AMTIME empty = (Raise TypeErr, FLAG_AMTIME) /\
  exists prior a, pack_obj_noreset prior a <> pack_obj prior a.
Proof. exact noreset_leaks. Qed.
Print Assumptions C33_noreset_refuted.

(* the code before the repair (self.attr[msg.get_string()] = msg.get_string(), right-hand side
   evaluated first) returns every extended pair with key and value exchanged *)
Theorem C33_v0_swap_refuted :
  exists a bs a', pack a = Ok bs /\ NoDup (map fst (a_ext a)) /\ paired a = true /\
    unpack_v0 bs 0 = Ok (flags_of a, a', length bs) /\ a' <> a /\
    a_ext a' = map (fun kv => (snd kv, fst kv)) (a_ext a).
Proof. exact v0_swaps. Qed.
Print Assumptions C33_v0_swap_refuted.

(* the guarded _unpack (if count > len(msg.get_remainder()) // 8: raise SSHException) refuses a pair
   count the message cannot hold before the loop runs; `unpack` is this code exactly when gen/c33.py
   finds the guard in the source (G_COUNT_BOUNDED), and the round trip above holds either way *)
Theorem C33_count_guard :
  forall (buf : list Z) (pos : nat),
  let '(fl, p0) := get_int buf pos in
  let '(_, p1) := dec_size fl buf p0 in
  let '(_, _, p2) := dec_pair fl FLAG_UIDGID buf p1 in
  let '(_, p3) := dec_mode fl buf p2 in
  let '(_, _, p4) := dec_pair fl FLAG_AMTIME buf p3 in
  has fl FLAG_EXTENDED = true ->
  fst (get_int buf p4) > Z.of_nat (length (skipn (snd (get_int buf p4)) buf)) / 8 ->
  unpack_gen true false buf pos = Raise SSHExc.
Proof. exact count_guard. Qed.
Print Assumptions C33_count_guard.

(* non-vacuity: a concrete attribute set with every field present, boundary values and two
   extended pairs meets the hypotheses *)
Example C33_example :
  let a := MkAttrs (Some (2 ^ 64 - 1)) (Some 0) (Some (2 ^ 32 - 1)) (Some 33188) (Some 1) (Some (2 ^ 31))
                   [([107; 49], [118; 49]); ([], [0; 255])] in
  in_range a = true /\ paired a = true /\ NoDup (map fst (a_ext a)) /\ exists bs, pack a = Ok bs.
Proof.
  cbv zeta. split; [reflexivity|]. split; [reflexivity|]. split.
  - cbn. constructor; [intros [H|[]]; discriminate H|]. constructor; [intros []|constructor].
  - eexists. vm_compute. reflexivity.
Qed.
