"""C10 - long-lived sessions are re-keyed and peers that refuse re-keying are dropped.

Proof: coq/Props/C10_props.v over coq/Model/C10.v (thresholds from coq/Gen/C10_gen.v, produced by
gen/c10.py which also checks the shape of the accounting code and fails closed).
Tie 1: real `Packetizer` objects (subclass with scaled-down threshold class attributes, in-memory
socket, null cipher or an identity cipher with a real HMAC) driven by random operation sequences
(send / receive / set_outbound_cipher / set_inbound_cipher / idle read); after every operation
`need_rekey()` and the exception class are compared with the model's own definitions run inside Coq.
Tie 2: real loopback Transport sessions with small thresholds set on the packetizer instances.
Oracle: the property stated directly on those observables (shadow counters kept by the harness).
"""
import hashlib
import os
import socket
import threading
import time

from common import coq, with_watchdog

PID = "C10"
LEVEL_TEXT = ("Machine-checked proof (Coq, closed under the global context), for arbitrary thresholds and by induction "
              "over operation sequences, that in the model of Packetizer's re-key accounting the request flag is up "
              "whenever a sent/received packet or byte counter reaches its threshold (and only then, once), that the "
              "transport run loop then emits exactly one KEXINIT in its next iteration even when that iteration reads "
              "nothing, that switching both cipher directions zeroes all counters and clears the flag, that a peer "
              "which keeps sending without switching keys is refused exactly when the overflow allowance is used up "
              "(SSHException, transport dead), and that any number of such rounds each return to the initial "
              "accounting state with one KEXINIT per round; the model is tied to packet.py/transport.py by a shape-"
              "checking translator, a differential run against real Packetizer objects and real loopback sessions.")
LEVEL_NOTE = ("Trusted: Coq kernel + vm_compute; hand-written model coq/Model/C10.v validated by the correspondence "
              "run; gen/c10.py (AST shape check + thresholds); the transport-level model (titer) abstracts the key "
              "exchange itself to three peer messages and is checked only by loopback sessions (several threshold "
              "crossings per session, each must produce a KEXINIT; every compression setting incl. delayed zlib, "
              "either role initiating; after each re-key: data both ways on the open channel, a new channel, a "
              "granted global request, both ends still authenticated - this transparency part is testing, not proof); wire length of a packet is measured, not "
              "modelled (C01/C03 own framing); the implementation-level oracles (direct drive and sessions) run "
              "independently of the translator and of the model.")
TECHNIQUE = "Coq proof (induction over op / event sequences) + translator + vm_compute differential correspondence"

BIG = 1 << 40
TYPES = [1, 2, 3, 4, 5, 6, 7, 20, 21, 30, 31, 49, 50, 52, 80, 81, 82, 90, 93, 94, 95, 98, 100, 192, 255]
TIMEOUT = object()


class Blocked(Exception):
    """The in-memory socket has nothing more: a real read would keep waiting."""


class FakeSock:
    def __init__(self):
        self.inq = []
        self.out = bytearray()

    def send(self, data):
        self.out += data
        return len(data)

    def recv(self, n):
        if not self.inq:
            raise Blocked()
        h = self.inq[0]
        if h is TIMEOUT:
            self.inq.pop(0)
            raise socket.timeout()
        chunk, rest = h[:n], h[n:]
        if rest:
            self.inq[0] = rest
        else:
            self.inq.pop(0)
        return bytes(chunk)

    def close(self):
        pass

    def settimeout(self, t):
        pass


class Ident:
    """Block engine that leaves the bytes alone (the accounting does not depend on the cipher)."""

    def update(self, data):
        return data


MAC_KEY = b"\x1f" * 20


def apply_cipher(p, direction, kind):
    if kind[0] == "null":
        args = (None, 8, None, 0, b"")
    else:
        args = (Ident(), kind[1], hashlib.sha1, kind[2], MAC_KEY)
    if direction == "out":
        p.set_outbound_cipher(*args, sdctr=True)
    else:
        p.set_inbound_cipher(*args)


def make_classes(cfg):
    from paramiko.packet import Packetizer

    class Small(Packetizer):
        REKEY_PACKETS, REKEY_BYTES, REKEY_PACKETS_OVERFLOW_MAX, REKEY_BYTES_OVERFLOW_MAX = cfg

    class Peer(Packetizer):
        REKEY_PACKETS = REKEY_BYTES = REKEY_PACKETS_OVERFLOW_MAX = REKEY_BYTES_OVERFLOW_MAX = BIG

    return Small, Peer


def msg_of(n, t=94):
    from paramiko.message import Message
    m = Message()
    m.add_byte(bytes([t]))
    m.add_bytes(bytes((i * 7 + n) & 0xFF for i in range(n)))
    return m


def drive(cfg, script):
    """Run a script on a real Packetizer.  script items: ("send", n) ("recv", n) ("setout", kind)
    ("setin", kind) ("idle",).  Returns (ops_for_model, trace) where ops carry measured wire
    lengths and trace is [(code, need_rekey)] per op."""
    from paramiko.packet import NeedRekeyException
    from paramiko.ssh_exception import SSHException
    Small, Peer = make_classes(cfg)
    sock, psock = FakeSock(), FakeSock()
    p, peer = Small(sock), Peer(psock)
    ops, trace = [], []
    for it in script:
        code = 0
        try:
            if it[0] == "send":
                before = len(sock.out)
                p.send_message(msg_of(it[1], it[2] if len(it) > 2 else 94))
                ops.append(("Send", len(sock.out) - before))
            elif it[0] == "recv":
                del psock.out[:]
                peer.send_message(msg_of(it[1], it[2] if len(it) > 2 else 94))
                wire = bytes(psock.out)
                ops.append(("Recv", len(wire)))
                sock.inq.append(wire)
                p.read_message()
            elif it[0] == "setout":
                ops.append(("SetOut",))
                apply_cipher(p, "out", it[1])
            elif it[0] == "setin":
                ops.append(("SetIn",))
                apply_cipher(p, "in", it[1])
                apply_cipher(peer, "out", it[1])
            else:
                ops.append(("Idle",))
                sock.inq.append(TIMEOUT)
                p.read_message()
        except NeedRekeyException:
            code = 50
        except Blocked:
            code = 0
        except SSHException:
            code = 1
        except Exception as e:  # noqa
            code = 900
            trace.append((code, 1 if p.need_rekey() else 0, repr(e)))
            break
        if sock.inq:
            # an unread remainder would desynchronise the stream
            trace.append((901, 1 if p.need_rekey() else 0, "unread input left"))
            break
        trace.append((code, 1 if p.need_rekey() else 0))
    return ops, trace


def oracle(cfg, ops, trace):
    """The property stated on the observables.  Returns (key, what, index) of the first failure or None."""
    RP, RB, OP, OB = cfg
    sp = sb = rp = rb = 0          # packets / bytes under the current keys, per direction
    ovp = ovb = 0                  # received since the request went up
    bits = 0                       # directions switched in the exchange under way
    flag = False
    for i, (o, tr) in enumerate(zip(ops, trace)):
        code, now = tr[0], bool(tr[1])
        if code >= 900:
            return ("unexpected-exception", "operation raised an unexpected exception: %s" % (tr[2],), i)
        if o[0] == "Send":
            sp += 1
            sb += o[1]
            crossed = sp >= RP or sb >= RB
            if code != 0:
                return ("send-raised", "send_message raised", i)
            if crossed and not now:
                return ("trigger-missed-send", "sent counter reached its threshold but need_rekey() is False", i)
            if now and not flag and not crossed:
                return ("spurious-request", "need_rekey() became True without a threshold crossing", i)
            if flag and not now:
                return ("flag-lost", "need_rekey() went back to False without new keys", i)
            if now and not flag:
                ovp = ovb = 0
        elif o[0] == "Recv":
            rp += 1
            rb += o[1]
            if flag:
                ovp += 1
                ovb += o[1]
                want = 1 if (ovp >= OP or ovb >= OB) else 0
                if want and code != 1:
                    return ("refuser-not-dropped", "overflow allowance used up after the re-key request but "
                            "read_message did not raise SSHException", i)
                if code == 1 and not want:
                    return ("dropped-early", "SSHException before the overflow allowance was used up", i)
                if not now:
                    return ("flag-lost", "need_rekey() went back to False without new keys", i)
            else:
                crossed = rp >= RP or rb >= RB
                if code != 0:
                    return ("dropped-early", "read_message raised although no re-key was requested", i)
                if crossed and not now:
                    return ("trigger-missed-recv", "received counter reached its threshold but need_rekey() is False", i)
                if now and not crossed:
                    return ("spurious-request", "need_rekey() became True without a threshold crossing", i)
                if now:
                    ovp = ovb = 0
        elif o[0] in ("SetOut", "SetIn"):
            if o[0] == "SetOut":
                sp = sb = 0
                bits |= 1
            else:
                rp = rb = ovp = ovb = 0
                bits |= 2
            if bits == 3:
                bits = 0
                if now:
                    return ("flag-not-cleared-after-rekey", "both directions switched to new keys but need_rekey() "
                            "is still True", i)
            elif now != flag:
                return ("flag-changed-by-half-switch", "need_rekey() changed after switching one direction only", i)
        else:
            if flag and code != 50:
                return ("idle-read-no-needrekey", "idle read with a pending re-key request did not raise "
                        "NeedRekeyException", i)
            if not flag and code != 0:
                return ("idle-read-spurious", "idle read raised although no re-key was requested", i)
            if now != flag:
                return ("flag-changed-by-idle", "need_rekey() changed during an idle read", i)
        flag = now
    return None


def gen_cfg(rng):
    mode = rng.randrange(6)
    rp = rng.randrange(2, 40)
    rb = 8 * rng.randrange(4, 250)
    op = rng.randrange(1, 12)
    ob = 8 * rng.randrange(2, 100)
    if mode == 0:
        rb = ob = BIG                    # packets decide
    elif mode == 1:
        rp = op = BIG                    # bytes decide
    elif mode == 2:
        op = ob = BIG                    # never dropped
    elif mode == 3:
        rp, ob = BIG, BIG
    # modes 4, 5: everything small
    return (rp, rb, op, ob)


def gen_kind(rng):
    if rng.random() < 0.4:
        return ("null",)
    return ("ident", rng.choice([8, 16]), rng.choice([12, 20]))


def gen_script(rng, cfg):
    profile = rng.choice(["send", "recv", "mixed", "idle", "cycle", "cycle"])
    w = {"send": (8, 1, 1, 0.3), "recv": (1, 8, 1, 0.3), "mixed": (4, 4, 1, 0.4), "idle": (2, 2, 5, 0.3),
         "cycle": (4, 4, 1, 2.0)}[profile]
    n = rng.randrange(10, 70)
    script = []
    # what kind of message carries the bytes: IGNORE, DEBUG, UNIMPLEMENTED, kex-range, service/auth,
    # global request, channel data, unknown high type, or a mix (the accounting must not care)
    tprof = rng.choice([[2], [4], [3], [2, 4], [80], [94], [94, 93, 98], [30, 31, 21], [5, 6, 50], [49], [50], [192],
                        TYPES, TYPES, TYPES])

    if rng.random() < 0.7:
        # the initial key exchange
        first = [("setout", gen_kind(rng)), ("setin", gen_kind(rng))]
        rng.shuffle(first)
        script += first
    for _ in range(n):
        x = rng.random() * (w[0] + w[1] + w[2] + w[3])
        size = rng.choice([0, 1, 3, 7, 8, 11, 19, 27, rng.randrange(0, 60), rng.randrange(0, 300)])
        if x < w[0]:
            script.append(("send", size, rng.choice(tprof)))
        elif x < w[0] + w[1]:
            script.append(("recv", size, rng.choice(tprof)))
        elif x < w[0] + w[1] + w[2]:
            script.append(("idle",))
        else:
            if profile == "cycle" and rng.random() < 0.7:
                pair = [("setout", gen_kind(rng)), ("setin", gen_kind(rng))]
                rng.shuffle(pair)
                mid = [rng.choice([("send", size, rng.choice(tprof)), ("recv", size, rng.choice(tprof)), ("idle",)]) for _ in range(rng.randrange(0, 3))]
                script += [pair[0]] + mid + [pair[1]]
            else:
                script.append((rng.choice(["setout", "setin"]), gen_kind(rng)))
    return profile, script


def coq_case(cfg, ops):
    def one(o):
        return "(%s %d)" % (o[0], o[1]) if len(o) == 2 else o[0]
    return "((%d, %d, %d, %d), [%s])" % (cfg + (";".join(one(o) for o in ops),))


def flat(trace):
    out = []
    for t in trace:
        out += [t[0], t[1]]
    return out


def check_direct(ctx, cfg, script, kind):
    ops, trace = drive(cfg, script)
    bad = oracle(cfg, ops, trace)
    if bad:
        key, what, i = bad
        ctx.fail(key, what, case={"cfg": list(cfg), "script": [list(s) for s in script], "failing_op": i,
                                  "ops_with_wire_lengths": [list(o) for o in ops[:i + 1]]},
                 expected="see property", observed=[list(t) for t in trace[:i + 1]])
    ups = sum(1 for a, b in zip([(0, 0)] + trace, trace) if b[1] and not a[1])
    ctx.count((cfg, tuple(ops)), nontrivial=ups > 0, kind=kind)
    return ops, trace


# ---------------------------------------------------------------------------------------------
# real loopback sessions

class HoldSock:
    """Wraps the server's socket: while `hold` is set, everything the server sends is collected and
    then delivered in one piece, so the receiver sees a gap-free stream (never idle between packets)."""

    def __init__(self, inner):
        self.inner = inner
        self.hold = False
        self.buf = bytearray()
        self.lock = threading.Lock()

    def send(self, data):
        with self.lock:
            if self.hold:
                self.buf += data
                return len(data)
        return self.inner.send(data)

    def release(self):
        with self.lock:
            self.hold = False
            data = bytes(self.buf)
            del self.buf[:]
        if data:
            self.inner.send(data)

    def __getattr__(self, name):
        return getattr(self.inner, name)


def raw_msg(kind, i, schan):
    """A message of the given kind as the server can send it to the client at any time."""
    from paramiko.message import Message
    m = Message()
    if kind == "ignore":
        m.add_byte(bytes([2]))
        m.add_string(bytes((i + j) & 0xFF for j in range(i % 23)))
    elif kind == "debug":
        m.add_byte(bytes([4]))
        m.add_boolean(False)
        m.add_string("note %d" % i)
        m.add_string("")
    elif kind == "unimplemented":
        m.add_byte(bytes([3]))
        m.add_int(i)
    elif kind == "global":
        m.add_byte(bytes([80]))
        m.add_string("c10-noise-%d@verif" % i)
        m.add_boolean(False)
    else:  # channel data
        m.add_byte(bytes([94]))
        m.add_int(schan.remote_chanid)
        m.add_string(bytes((i * 3 + j) & 0xFF for j in range(40)))
    return m


KINDS = ["ignore", "debug", "unimplemented", "global", "data"]


def _session(ctx, server_ignores_kexinit=False, compression=None):
    import paramiko
    from paramiko.packet import Packetizer
    from paramiko.common import MSG_KEXINIT
    from _loop import LoopSocket

    class Srv(paramiko.ServerInterface):
        def check_auth_password(self, u, p):
            return paramiko.AUTH_SUCCESSFUL

        def get_allowed_auths(self, u):
            return "password"

        def check_channel_request(self, kind, chanid):
            return paramiko.OPEN_SUCCEEDED

        def check_channel_exec_request(self, channel, command):
            return True

        def check_global_request(self, kind, msg):
            return kind == "c10-probe@verif"

    import logging
    lg = logging.getLogger("paramiko")
    if not lg.handlers:
        lg.addHandler(logging.NullHandler())   # the expected "ignoring rekey" traceback is not news
    lg.propagate = False
    log = []

    def mk(name):
        class P(Packetizer):
            def send_message(self, data):
                b = data.asbytes()
                log.append((name, "out", b[0]))
                return super().send_message(data)

            def read_message(self):
                t, m = super().read_message()
                log.append((name, "in", t))
                return t, m
        return P

    a, b = LoopSocket(), LoopSocket()
    a.link(b)
    tc = paramiko.Transport(a, packetizer_class=mk("c"))
    hold = HoldSock(b)
    ts = paramiko.Transport(hold, packetizer_class=mk("s"))
    ts.c10_hold = hold
    ts.add_server_key(paramiko.RSAKey.from_private_key_file(os.path.join(ctx.repo, "tests", "_support", "rsa.key")))
    if compression is not None:
        tc.get_security_options().compression = (compression,)
        ts.get_security_options().compression = (compression,)
    if server_ignores_kexinit:
        orig = ts._handler_table[MSG_KEXINIT]
        state = {"first": True}

        def handler(*args):
            # the initial exchange is honoured; later re-key requests are ignored
            if state["first"]:
                state["first"] = False
                return orig(*args)
            return None
        ts._handler_table = dict(ts._handler_table)
        ts._handler_table[MSG_KEXINIT] = handler
    ev = threading.Event()
    ts.start_server(ev, Srv())
    tc.connect(username="u", password="p")
    ev.wait(3)
    chan = tc.open_session()
    chan.exec_command("x")
    schan = ts.accept(3)
    if schan is None:
        raise RuntimeError("loopback session could not be set up")
    chan.settimeout(5)
    schan.settimeout(5)
    return tc, ts, chan, schan, log


def _count(log, who, direction, t):
    return sum(1 for e in list(log) if e == (who, direction, t))


def _wait(pred, timeout=8.0):
    end = time.time() + timeout
    while time.time() < end:
        if pred():
            return True
        time.sleep(0.01)
    return pred()


def _recv_exact(ch, n):
    buf = b""
    while len(buf) < n:
        x = ch.recv(n - len(buf))
        if not x:
            break
        buf += x
    return buf


def use_everything(ctx, case, tc, ts, chan, schan, tag):
    """After a re-key the session must still do everything it could do before: data on the open
    channel in both directions, a NEW channel (with data both ways), a global request that the server
    grants, and both ends still consider the session authenticated.  Returns False after a failure."""
    def both_ways(c, s, label):
        for src, dst, d in ((c, s, "up"), (s, c, "down")):
            data = bytes((len(label) * 5 + i * 3) & 0xFF for i in range(90)) + label.encode()
            try:
                src.sendall(data)
                got = _recv_exact(dst, len(data))
            except Exception as e:  # noqa
                ctx.fail("post-rekey-traffic-failed", "%s: sending/receiving %s data on %s raised %s" % (
                    tag, d, label, type(e).__name__), case=case, observed=repr(e))
                return False
            if got != data:
                ctx.fail("post-rekey-traffic-failed", "%s: %s data on %s not delivered intact (session alive: %s/%s)"
                         % (tag, d, label, tc.is_active(), ts.is_active()), case=case, expected=data, observed=got)
                return False
        return True

    if not both_ways(chan, schan, "existing channel"):
        return False
    if not (tc.is_authenticated() and ts.is_authenticated() and ts.get_username() == "u"):
        ctx.fail("post-rekey-auth-lost", "%s: the session is no longer authenticated" % tag, case=case,
                 expected=[True, True, "u"],
                 observed=[tc.is_authenticated(), ts.is_authenticated(), ts.get_username()])
        return False
    try:
        c2 = tc.open_session(timeout=5)
        c2.exec_command("y")
        s2 = ts.accept(5)
    except Exception as e:  # noqa
        ctx.fail("post-rekey-new-channel-refused", "%s: opening a new channel failed: %s" % (tag, e), case=case,
                 observed=repr(e))
        return False
    if s2 is None:
        ctx.fail("post-rekey-new-channel-refused", "%s: the server never saw the new channel" % tag, case=case)
        return False
    c2.settimeout(5)
    s2.settimeout(5)
    if not both_ways(c2, s2, "new channel"):
        return False
    c2.close()
    s2.close()
    try:
        r = tc.global_request("c10-probe@verif", wait=True)
    except Exception as e:  # noqa
        r = e
    if r is None or isinstance(r, Exception):
        ctx.fail("post-rekey-global-request-refused", "%s: a global request the server grants was refused / failed"
                 % tag, case=case, observed=repr(r))
        return False
    if not (tc.is_active() and ts.is_active()):
        ctx.fail("session-died", "%s: transport died" % tag, case=case,
                 observed=repr(tc.get_exception() or ts.get_exception()))
        return False
    return True


def session_rekey(ctx, side, attr, value, rounds, direction, compression=None):
    """The transport `side` ('c'/'s') gets a small threshold; traffic flows client->server
    ('up') or server->client ('down'); every crossing must produce one KEXINIT from `side`, a
    completed exchange (new session key material, flag clear) and intact traffic afterwards."""
    from paramiko.common import MSG_KEXINIT, MSG_NEWKEYS
    history = []
    case = {"session": "rekey", "side": side, "attr": attr, "value": value, "rounds": rounds, "direction": direction,
            "compression": compression}
    tc, ts, chan, schan, log = _session(ctx, compression=compression)
    try:
        t = tc if side == "c" else ts
        if compression is not None and (tc.local_compression != compression or ts.local_compression != compression):
            ctx.fail("compression-not-negotiated", "requested compression was not negotiated", case=case,
                     observed=[tc.local_compression, ts.local_compression])
            return
        # the session works before any re-key (so that a later failure is attributable to the re-key)
        if not use_everything(ctx, case, tc, ts, chan, schan, "before any re-key"):
            return
        setattr(t.packetizer, attr, value)
        src, dst = (chan, schan) if direction == "up" else (schan, chan)
        seq = 0
        for r in range(rounds):
            before = _count(log, side, "out", MSG_KEXINIT)
            nk_c, nk_s = _count(log, "c", "in", MSG_NEWKEYS), _count(log, "s", "in", MSG_NEWKEYS)
            h_before = t.H
            sent = 0
            # paced traffic until the packetizer asks for new keys
            while not t.packetizer.need_rekey() and _count(log, side, "out", MSG_KEXINIT) == before:
                data = bytes((seq + i) & 0xFF for i in range(256))
                seq += 1
                try:
                    src.sendall(data)
                    got = _recv_exact(dst, len(data))
                except Exception as e:  # noqa
                    ctx.fail("traffic-failed", "round %d: paced channel data raised %s (transport exceptions: %r / %r)"
                             % (r + 1, type(e).__name__, tc.get_exception(), ts.get_exception()),
                             case=case, observed=repr(e))
                    return
                if got != data:
                    ctx.fail("traffic-corrupted", "data delivered differs from data sent", case=case,
                             expected=data, observed=got)
                    return
                sent += 1
                if sent > 4 * 4096:
                    ctx.fail("session-no-request", "threshold crossed many times over but need_rekey() stays False",
                             case=case, observed=sent)
                    return
            history.append({"round": r, "packets_until_request": sent})
            case["history"] = history
            if not _wait(lambda: _count(log, side, "out", MSG_KEXINIT) == before + 1):
                if r == 0:
                    ctx.fail("kexinit-not-sent", "re-key requested by the packetizer but the transport sent no "
                             "KEXINIT within 8 s (idle or busy)", case=case, expected=before + 1,
                             observed=_count(log, side, "out", MSG_KEXINIT))
                else:
                    ctx.fail("second-crossing-no-kexinit", "crossing number %d of the same session (after %d completed "
                             "threshold-triggered re-keys): need_rekey() is True but the run loop sent no KEXINIT "
                             "within 8 s" % (r + 1, r), case=case, expected=before + 1,
                             observed={"kexinits_sent": _count(log, side, "out", MSG_KEXINIT),
                                       "need_rekey": t.packetizer.need_rekey()})
                return
            if not _wait(lambda: (not t.packetizer.need_rekey()) and t.H != h_before
                         and _count(log, "c", "in", MSG_NEWKEYS) == nk_c + 1
                         and _count(log, "s", "in", MSG_NEWKEYS) == nk_s + 1):
                ctx.fail("rekey-not-completed", "KEXINIT sent but the exchange did not complete / flag not cleared "
                         "within 8 s", case=case, observed={"need_rekey": t.packetizer.need_rekey(),
                                                            "newkeys_in": [_count(log, "c", "in", MSG_NEWKEYS),
                                                                           _count(log, "s", "in", MSG_NEWKEYS)]})
                return
            # traffic continues intact under the new keys, without another request right away
            for _ in range(3):
                data = bytes((seq * 3 + i) & 0xFF for i in range(100))
                seq += 1
                try:
                    src.sendall(data)
                    got = _recv_exact(dst, len(data))
                except Exception as e:  # noqa
                    ctx.fail("post-rekey-traffic-failed", "after re-key %d: the first data on the open channel "
                             "raised %s (transport exceptions: %r / %r)" % (r + 1, type(e).__name__,
                                                                            tc.get_exception(), ts.get_exception()),
                             case=case, observed=repr(e))
                    return
                if got != data:
                    ctx.fail("traffic-corrupted", "data delivered after the re-key differs from data sent",
                             case=case, expected=data, observed=got)
                    return
            if not (tc.is_active() and ts.is_active()):
                ctx.fail("session-died", "transport died during a compliant re-key", case=case,
                         observed=repr(tc.get_exception() or ts.get_exception()))
                return
            if not use_everything(ctx, case, tc, ts, chan, schan, "after re-key %d" % (r + 1)):
                return
        time.sleep(0.15)
        n = _count(log, side, "out", MSG_KEXINIT)
        # the post-re-key use of the session (< 40 packets, < 3 KB) stays below the thresholds used here
        if n != 1 + rounds:
            ctx.fail("kexinit-count", "number of KEXINITs differs from 1 + number of threshold crossings "
                     "(counters not restarted?)", case=case, expected=1 + rounds, observed=n)
        ctx.count(("session", side, attr, value, rounds, direction, compression),
                  kind="session-rekey-%s-%s-%s" % (side, direction, compression or "default"))
    finally:
        tc.close()
        ts.close()


def session_flood(ctx, kinds, k, op, seed):
    """Receive-heavy, never-idle link: the (complying) server delivers one gap-free burst of messages of
    the given kinds; the k-th of them makes the client's received-packet counter reach REKEY_PACKETS.
    The client must emit KEXINIT in the very next run-loop iteration (before it reads burst packet
    k + 1), must not drop the peer (the burst stays 6 packets below the allowance), the exchange must
    complete and the session must stay fully usable."""
    import random
    from paramiko.common import MSG_KEXINIT, MSG_NEWKEYS
    case = {"session": "flood", "kinds": kinds, "k": k, "op": op, "seed": seed}
    rnd = random.Random(seed)
    tc, ts, chan, schan, log = _session(ctx)
    try:
        time.sleep(0.05)

        evs0 = [e for e in list(log) if e[0] == "c"]
        base = max(i for i, e in enumerate(evs0) if e[1] == "in" and e[2] == MSG_NEWKEYS) + 1

        def c_in():
            # the client's events since the NEWKEYS of the initial exchange
            return [e for e in list(log) if e[0] == "c"][base:]

        def stable():
            a = len(c_in())
            time.sleep(0.05)
            return a == len(c_in())
        _wait(stable, 3.0)
        n0 = sum(1 for e in c_in() if e[1] == "in")
        before = _count(log, "c", "out", MSG_KEXINIT)
        h_before = tc.H
        tc.packetizer.REKEY_PACKETS = n0 + k
        tc.packetizer.REKEY_PACKETS_OVERFLOW_MAX = op
        burst = k + op - 6
        ts.c10_hold.hold = True
        sent_kinds = []
        for i in range(burst):
            kind = rnd.choice(kinds)
            sent_kinds.append(kind)
            ts._send_message(raw_msg(kind, i, schan))
        case["burst"] = burst
        ts.c10_hold.release()
        ok = _wait(lambda: _count(log, "c", "out", MSG_KEXINIT) == before + 1 or not tc.is_active())
        evs = c_in()
        ins = [i for i, e in enumerate(evs) if e[1] == "in"]
        kx = [i for i, e in enumerate(evs) if e[1] == "out" and e[2] == MSG_KEXINIT]
        if not tc.is_active():
            ctx.fail("busy-link-compliant-peer-dropped", "a gap-free stream of %s crossed the threshold; the peer "
                     "would have complied but the transport ended: %r" % ("/".join(kinds), tc.get_exception()),
                     case=case, observed={"kexinits_sent_after_crossing": len(kx), "packets_read": len(ins) - n0})
            return
        if not ok or not kx:
            ctx.fail("busy-link-no-kexinit", "threshold crossed on a never-idle link of %s but no KEXINIT within 8 s"
                     % "/".join(kinds), case=case, observed={"packets_read": len(ins) - n0})
            return
        # position of the crossing packet and of the one after it in the client's own event order
        cross, nxt = ins[n0 + k - 1], (ins[n0 + k] if len(ins) > n0 + k else len(evs))
        if not (cross < kx[0] < nxt):
            ctx.fail("busy-link-kexinit-late", "threshold crossed by packet %d of a gap-free stream of %s, but "
                     "KEXINIT was not sent in the next run-loop iteration: %d more packet(s) were read first"
                     % (k, "/".join(kinds), sum(1 for i in ins if cross < i < kx[0])), case=case,
                     expected="KEXINIT between burst packets %d and %d" % (k, k + 1),
                     observed={"crossing_kind": sent_kinds[k - 1],
                               "packets_read_before_kexinit": sum(1 for i in ins if i < kx[0]) - n0})
            return
        if not _wait(lambda: (not tc.packetizer.need_rekey()) and tc.H != h_before and not tc.in_kex
                     and not ts.in_kex):
            ctx.fail("rekey-not-completed", "KEXINIT sent on a busy link but the exchange did not complete within "
                     "8 s", case=case, observed={"need_rekey": tc.packetizer.need_rekey(),
                                                 "exc": repr(tc.get_exception() or ts.get_exception())})
            return
        tc.packetizer.REKEY_PACKETS = BIG
        chan.settimeout(0.5)
        try:
            while chan.recv_ready():
                chan.recv(65536)          # channel data of the burst
        except Exception:  # noqa
            pass
        chan.settimeout(5)
        if not use_everything(ctx, case, tc, ts, chan, schan, "after busy-link re-key"):
            return
        ctx.count(("flood", tuple(kinds), k, op, seed), kind="session-flood-" + "+".join(kinds))
    finally:
        tc.close()
        ts.close()


def session_refuser(ctx, rp, op, comply, kinds=None):
    """Client asks for new keys after rp received packets and tolerates op more.  The server either
    ignores the KEXINIT and keeps sending (must be dropped after exactly op - 1 further packets)
    or complies (must not be dropped; traffic is paced so that nothing is in flight)."""
    from paramiko.common import MSG_KEXINIT, MSG_NEWKEYS
    from paramiko.ssh_exception import SSHException
    case = {"session": "refuser", "rp": rp, "op": op, "comply": comply, "kinds": kinds}
    tc, ts, chan, schan, log = _session(ctx, server_ignores_kexinit=not comply)
    try:
        tc.packetizer.REKEY_PACKETS = rp
        tc.packetizer.REKEY_PACKETS_OVERFLOW_MAX = op
        total = rp + op + 12
        delivered = 0
        for i in range(total):
            data = bytes((i + j) & 0xFF for j in range(64))
            try:
                if kinds and not comply:
                    ts._send_message(raw_msg(kinds[i % len(kinds)], i, schan))
                else:
                    schan.sendall(data)
            except Exception:  # noqa  (peer already gone)
                break
            if comply:
                got = _recv_exact(chan, len(data))
                if got != data:
                    ctx.fail("traffic-corrupted", "data delivered differs from data sent", case=case,
                             expected=data, observed=got)
                    return
                delivered += 1
                if tc.packetizer.need_rekey() or tc.in_kex:
                    _wait(lambda: not tc.packetizer.need_rekey() and not tc.in_kex and not ts.in_kex)
        if comply:
            if not (tc.is_active() and ts.is_active()):
                ctx.fail("compliant-peer-dropped", "a peer that answered the re-key request was dropped",
                         case=case, observed=repr(tc.get_exception()))
            elif _count(log, "c", "out", MSG_KEXINIT) < 2:
                ctx.fail("kexinit-not-sent", "threshold crossed but no KEXINIT", case=case)
        else:
            if not _wait(lambda: not tc.is_active()):
                ctx.fail("refuser-session-not-dropped", "peer ignored the re-key request and kept sending past the "
                         "overflow allowance, but the transport is still active", case=case,
                         observed={"kexinits_sent": _count(log, "c", "out", MSG_KEXINIT)})
                return
            e = tc.get_exception()
            if not isinstance(e, SSHException) or "rekey" not in str(e):
                ctx.fail("refuser-wrong-exception", "transport ended with something else than the re-key refusal",
                         case=case, observed=repr(e))
                return
            if _count(log, "c", "out", MSG_KEXINIT) != 2:
                ctx.fail("kexinit-count", "client did not send exactly one re-key KEXINIT before dropping the peer",
                         case=case, expected=2, observed=_count(log, "c", "out", MSG_KEXINIT))
            # packets the client accepted under the current inbound keys: everything after NEWKEYS
            evs = [e2 for e2 in list(log) if e2[0] == "c" and e2[1] == "in"]
            k = max(i for i, e2 in enumerate(evs) if e2[2] == MSG_NEWKEYS)
            accepted = len(evs) - k - 1
            if accepted != rp + op - 1:
                ctx.fail("refuser-allowance", "number of packets accepted before dropping the refusing peer differs "
                         "from threshold + allowance - 1", case=case, expected=rp + op - 1, observed=accepted)
        ctx.count(("session", rp, op, comply, tuple(kinds or ())),
                  kind="session-%s%s" % ("comply" if comply else "refuser", "-" + "+".join(kinds) if kinds else ""))
    finally:
        tc.close()
        ts.close()


def guarded(ctx, fn, *args):
    """Run a session scenario under a watchdog; retry once before believing a failure."""
    for attempt in (0, 1):
        nv = len(ctx.violations)
        st, v = with_watchdog(lambda: fn(ctx, *args), 60.0)
        if st == "ok" and len(ctx.violations) == nv:
            return
        if attempt == 0:
            del ctx.violations[nv:]
            continue
        if st == "hang":
            ctx.fail("session-hang", "loopback session scenario did not finish within 60 s",
                     case={"scenario": fn.__name__, "args": list(args)})
        elif st == "exc":
            ctx.fail("session-exception", "loopback session scenario raised %r" % (v,),
                     case={"scenario": fn.__name__, "args": list(args)})


# ---------------------------------------------------------------------------------------------

def run(ctx):
    rng = ctx.rng
    ctx.rule = ("seeded generator (random.Random('C10-<seed>')): thresholds scaled down (packet-dominated, "
                "byte-dominated, no-overflow, all-small configurations; byte thresholds multiples of 8 so that "
                "equality is hit), operation scripts of 10-70 ops in send-heavy / receive-heavy / interleaved / "
                "idle-heavy / re-key-cycling profiles over null and identity+HMAC ciphers; a case is non-trivial "
                "when the re-key request goes up at least once; the bytes are carried by varying message types (IGNORE, DEBUG, "
                "UNIMPLEMENTED, kex/service/auth range, global request, channel messages, unknown types, mixes); plus real "
                "loopback sessions incl. gap-free (never idle) floods of each message kind and refusers flooding them")
    ctx.trusted += ["model coq/Model/C10.v is hand-written; tied to paramiko/packet.py by gen/c10.py (shape check, "
                    "fail closed) and by this differential run (vm_compute of the model's own definitions)",
                    "the wire length of each packet is measured on the real object and fed to the model",
                    "the transport-level model (titer/trun) is validated only by the loopback sessions"]
    ctx.prove()

    # thresholds in the generated file are the live class attributes
    from paramiko.packet import Packetizer
    import re
    live = (Packetizer.REKEY_PACKETS, Packetizer.REKEY_BYTES, Packetizer.REKEY_PACKETS_OVERFLOW_MAX,
            Packetizer.REKEY_BYTES_OVERFLOW_MAX)
    try:
        import common
        txt = open(os.path.join(common.COQ, "Gen", "C10_gen.v")).read()
        gen = tuple(int(re.search(r"gen_%s : Z := (\d+)\." % n, txt).group(1)) for n in
                    ("REKEY_PACKETS", "REKEY_BYTES", "REKEY_PACKETS_OVERFLOW_MAX", "REKEY_BYTES_OVERFLOW_MAX"))
        if gen != live:
            ctx.disagree("generated thresholds differ from the live class attributes", model=list(gen),
                         impl=list(live))
    except Exception as e:  # noqa
        ctx.disagree("cannot read generated thresholds: %r" % (e,))
    if not all(isinstance(v, int) and v > 0 for v in live):
        ctx.fail("threshold-not-positive", "a re-key threshold is not a positive integer", case={"live": list(live)})

    # ---- 1. direct drive -------------------------------------------------------------------
    ncases = 2500 if ctx.thorough else 350
    cases = []
    # fixed boundary cases first: exact equality on each threshold
    fixed = [
        ((3, BIG, 2, BIG), [("send", 0)] * 3 + [("idle",), ("recv", 0), ("recv", 0), ("recv", 0)]),
        ((BIG, 48, BIG, 32), [("recv", 0)] * 3 + [("idle",), ("recv", 0), ("recv", 0), ("recv", 0)]),
        ((BIG, 48, BIG, 32), [("send", 0)] * 3 + [("setout", ("null",)), ("setin", ("null",))] + [("send", 0)] * 3),
        ((4, BIG, 3, BIG), [("setin", ("ident", 16, 12)), ("setout", ("ident", 8, 20))] + [("recv", 5)] * 4 +
         [("setout", ("null",))] + [("recv", 5)] * 2 + [("setin", ("null",))] + [("recv", 1)] * 5),
    ]
    for t in (2, 4, 3, 49, 80):
        fixed.append(((3, BIG, 2, BIG), [("recv", 0, t)] * 3 + [("idle",)] + [("recv", 0, t)] * 3))
        fixed.append(((BIG, 48, BIG, 32), [("send", 0, t)] * 3 + [("idle",)] + [("recv", 0, t)] * 3))
    nfixed = len(fixed)
    for cfg, script in fixed:
        ops, trace = check_direct(ctx, cfg, script, "fixed-boundary")
        cases.append((cfg, script, ops, trace))
    for _ in range(ncases):
        cfg = gen_cfg(rng)
        profile, script = gen_script(rng, cfg)
        ops, trace = check_direct(ctx, cfg, script, "direct-" + profile)
        cases.append((cfg, script, ops, trace))
    # ---- 2. real loopback sessions ------------------------------------------------------------
    # every compression setting (delayed zlib included) x both roles initiating; >= 2 crossings per session
    comps = ["none", "zlib", "zlib@openssh.com"]
    for i, comp in enumerate(comps):
        d1, d2 = ("up", "down") if (i + ctx.seed) % 2 == 0 else ("down", "up")
        guarded(ctx, session_rekey, "c", "REKEY_PACKETS", rng.randrange(70, 100), 3 if comp == "none" else 2, d1, comp)
        guarded(ctx, session_rekey, "s", "REKEY_BYTES", 512 * rng.randrange(24, 40), 2, d2, comp)
    guarded(ctx, session_refuser, rng.randrange(22, 40), rng.randrange(5, 12), False)
    # what kind of traffic crosses the thresholds / uses up the allowance
    guarded(ctx, session_refuser, rng.randrange(22, 40), rng.randrange(5, 12), False, ["ignore"])
    guarded(ctx, session_refuser, rng.randrange(22, 40), rng.randrange(5, 12), False,
            rng.choice([["debug"], ["ignore", "debug", "unimplemented", "global"], ["unimplemented"], ["global"]]))
    floods = [["ignore"], ["debug"], ["ignore", "debug"], KINDS] + \
        ([["unimplemented"], ["global"], ["data"], KINDS] if ctx.thorough else [[rng.choice(KINDS[2:])]])
    for kinds in floods:
        guarded(ctx, session_flood, kinds, rng.randrange(3, 15), rng.randrange(12, 20), rng.randrange(1 << 30))
    guarded(ctx, session_refuser, rng.randrange(22, 40), rng.randrange(8, 14), True)
    if ctx.thorough:
        for comp in comps:
            guarded(ctx, session_rekey, "s", "REKEY_PACKETS", rng.randrange(70, 100), 3, "down", comp)
            guarded(ctx, session_rekey, "c", "REKEY_BYTES", 512 * rng.randrange(24, 40), 3, "up", comp)
        guarded(ctx, session_rekey, "c", "REKEY_BYTES", 512 * rng.randrange(24, 40), 4, "down", None)
        for _ in range(3):
            guarded(ctx, session_refuser, rng.randrange(22, 60), rng.randrange(4, 20), False)
        guarded(ctx, session_refuser, rng.randrange(22, 40), rng.randrange(8, 14), True)

    # ---- 3. model correspondence (guarded: the oracles above do not depend on it) -----------------
    try:
        bad = ctx.model_mismatches("run_ops", "((Z * Z * Z * Z) * list op)",
                                   [(coq_case(cfg, ops), flat(trace)) for cfg, script, ops, trace in cases])
    except Exception as e:  # noqa
        ctx.disagree("model could not be evaluated (translator aborted or model does not compile): %s"
                     % (str(e)[-300:],))
        bad = []
    for i in bad[:3]:
        cfg, script, ops, trace = cases[i]
        ctx.disagree("Packetizer re-key accounting differs from the model",
                     case={"cfg": list(cfg), "script": [list(s) for s in script], "ops": [list(o) for o in ops]},
                     impl=flat(trace))
    for cfg, script, ops, trace in cases[nfixed:nfixed + 2]:
        ctx.sample({"cfg": list(cfg), "ops": [list(o) for o in ops][:20], "impl_trace(code,need_rekey)": flat(trace)[:40]})


def replay(ctx, rep):
    case = rep["case"]
    if "script" in case:
        cfg = tuple(case["cfg"])
        script = [tuple(tuple(x) if isinstance(x, list) else x for x in s) for s in case["script"]]
        check_direct(ctx, cfg, script, "replay")
        ctx.count(("replay", 2))
    elif case.get("session") == "rekey":
        guarded(ctx, session_rekey, case["side"], case["attr"], case["value"], case["rounds"], case["direction"],
                case.get("compression"))
    elif case.get("session") == "refuser":
        guarded(ctx, session_refuser, case["rp"], case["op"], case["comply"], case.get("kinds"))
    elif case.get("session") == "flood":
        guarded(ctx, session_flood, case["kinds"], case["k"], case["op"], case["seed"])
    elif case.get("scenario") in ("session_rekey", "session_refuser", "session_flood"):
        guarded(ctx, globals()[case["scenario"]], *case["args"])
    else:
        run(ctx)
