(* C13 -- blocking calls return once the connection ends.
   Property statements only; every proof is `exact <lemma from Proofs/C13_proofs.v>`.

   PARTIAL by nature: the theorems are about the wake-up bookkeeping (which facts each way of
   ending the connection establishes, which notifications it issues and in which order, what each
   blocking API waits on and re-tests) and about the EOF-detection loops.  That the operating
   system really delivers a notify / set / timeout, and real time, are outside the model; they are
   exercised by the watchdog runs of harness/c13.py on the real code. *)
From Coq Require Import ZArith List Bool.
From PV Require Import Bytes WakeGraph C13_gen C13 C13_proofs.
Import ListNotations.
Open Scope Z_scope.

(* A loop "event.wait(<= period); if not self.active: raise; if event.is_set(): break" over an
   arbitrary environment trace (duration of every wait, value of `active` and of the event seen
   after it): if every check made at or after time T reads active = False, and some check is made
   at or after T, the loop has left -- by the raise or by the break -- no later than T + period. *)
Theorem C13_polling_returns :
  forall (trace : list tick) (period T : Z),
    0 <= T ->
    (forall t, In t trace -> 0 <= t_dur t <= period) ->
    (forall pre t post, trace = pre ++ t :: post -> T <= time_after pre 0 + t_dur t -> t_active t = false) ->
    (exists pre t post, trace = pre ++ t :: post /\ T <= time_after pre 0 + t_dur t) ->
    exists j at_ms,
      (poll trace 0 0 = PollRaised j at_ms \/ poll trace 0 0 = PollBroke j at_ms) /\ at_ms <= T + period.
Proof. exact polling_returns. Qed.
Print Assumptions C13_polling_returns.

(* For every blocking API of the table generated from the source, every way the connection ends,
   and EVERY interleaving of the caller's steps with the actions of the thread that ends the
   connection (so: called before, during or after the loss): once those actions are done, the
   caller is out of its wait after at most two steps of its own. *)
Theorem C13_every_api :
  forall r e, In r api_rows -> In e endings ->
  forall sched st w,
    run r sched (ending_actions e) [] WPre = ([], st, w) -> settle r st w = WDone.
Proof. exact every_api. Qed.
Print Assumptions C13_every_api.

(* the same with any caller-supplied timeout (Channel.settimeout(t), accept(t)) *)
Theorem C13_every_api_timeout :
  forall r e t, In r api_rows -> In e endings ->
  forall sched st w,
    run (with_timeout r t) sched (ending_actions e) [] WPre = ([], st, w) ->
    settle (with_timeout r t) st w = WDone.
Proof. exact every_api_timeout. Qed.
Print Assumptions C13_every_api_timeout.

(* the criterion is sufficient for any table (this is the induction; the two above instantiate it
   on the generated table by computation) *)
Theorem C13_wake_sound :
  forall r acts st0, ok r acts st0 = true ->
  forall sched st w, run r sched acts st0 WPre = ([], st, w) -> settle r st w = WDone.
Proof. exact wake_sound. Qed.
Print Assumptions C13_wake_sound.

(* Packetizer.read_all: after ANY prefix of socket results that leaves the loop still waiting for
   bytes (partial reads, timeouts, EAGAIN), a recv() returning b"" raises EOFError *)
Theorem C13_read_all_eof :
  forall rem prefix n cr e rest,
    read_all rem prefix n cr = Raise OutOfFuel ->
    r_res e = RData [] ->
    read_all rem (prefix ++ e :: rest) n cr = Raise EOFErr.
Proof. exact read_all_eof. Qed.
Print Assumptions C13_read_all_eof.

(* ProxyCommand.recv (as repaired): when os.read returns b"" -- the process closed its stdout --
   the loop ends with a short (possibly empty) read instead of spinning *)
Theorem C13_proxy_recv_eof :
  forall prefix size buf rest,
    proxy_recv prefix size buf = Raise OutOfFuel ->
    exists b, proxy_recv (prefix ++ PRead [] :: rest) size buf = Ok b /\ Z.of_nat (length b) < size.
Proof. exact proxy_recv_eof. Qed.
Print Assumptions C13_proxy_recv_eof.

(* ... and the Packetizer turns that empty read into EOFError: a dead proxy process ends the
   connection like a closed socket *)
Theorem C13_proxy_exit_is_eof :
  forall rem prefix n cr pprefix size rest hs cl nr,
    read_all rem prefix n cr = Raise OutOfFuel ->
    proxy_recv pprefix size [] = Raise OutOfFuel ->
    (forall s, In s pprefix -> s = PNotReady) ->
    exists b, proxy_recv (pprefix ++ PRead [] :: rest) size [] = Ok b /\ b = [] /\
      read_all rem (prefix ++ [mk_rd (RData b) hs cl nr]) n cr = Raise EOFErr.
Proof. exact proxy_exit_is_eof. Qed.
Print Assumptions C13_proxy_exit_is_eof.

(* The code before the repairs (kept as v0 tables in the model), for the record:
   accept() called after a local close() blocks for ever; a second accept() waiter is not woken by
   the single notify() of run()'s epilogue; ProxyCommand.recv at end of file never terminates. *)
Theorem C13_accept_v0_refuted :
  (exists sched st w,
     run accept_row_v0 sched (actions_with fn_body_v0 LocalClose) [] WPre = ([], st, w) /\
     settle accept_row_v0 st w = WWait false) /\
  (exists sched st w,
     run accept_row_v0 sched (actions_with fn_body_v0 PeerClose) [] WPre = ([], st, w) /\
     settle accept_row_v0 st w = WWait false).
Proof. exact (conj accept_v0_after_close accept_v0_second_waiter). Qed.
Print Assumptions C13_accept_v0_refuted.

Theorem C13_proxy_recv_v0_diverges :
  forall k size, 0 < size -> proxy_recv_v0 (repeat (PRead []) k) size [] = Raise OutOfFuel.
Proof. exact proxy_recv_v0_spins. Qed.
Print Assumptions C13_proxy_recv_v0_diverges.

(* ---- non-vacuity ------------------------------------------------------------------------ *)

(* the table is not empty and the hypotheses of C13_every_api are met by concrete schedules:
   recv blocked before a peer close, and accept called after a local close *)
Example C13_example_schedules :
  (length api_rows = 12)%nat /\
  (exists r st w, In r api_rows /\ a_api r = ApiRecv /\
     run r (false :: repeat true 30) (ending_actions PeerClose) [] WPre = ([], st, w)) /\
  (exists r st w, In r api_rows /\ a_api r = ApiAccept /\
     run r (repeat true 30 ++ [false]) (ending_actions LocalClose) [] WPre = ([], st, w)).
Proof.
  split; [reflexivity|]. split.
  - eexists. eexists. eexists. split; [do 8 right; left; reflexivity|]. split; vm_compute; reflexivity.
  - eexists. eexists. eexists. split; [do 7 right; left; reflexivity|]. split; vm_compute; reflexivity.
Qed.

(* a polling trace meeting the hypotheses of C13_polling_returns: active drops at T = 250 ms *)
Example C13_example_poll :
  let trace := [mk_tick 100 true false; mk_tick 100 true false; mk_tick 100 false false] in
  poll trace 0 0 = PollRaised 2 300 /\ 300 <= 250 + 100 /\
  (exists pre t post, trace = pre ++ t :: post /\ 250 <= time_after pre 0 + t_dur t).
Proof.
  cbn. split; [reflexivity|]. split; [discriminate|].
  exists [mk_tick 100 true false; mk_tick 100 true false], (mk_tick 100 false false), [].
  split; [reflexivity|]. cbn. discriminate.
Qed.

(* read_all still waiting after a partial read and a timeout, then end of file *)
Example C13_example_read_all :
  let prefix := [mk_rd (RData [1; 2]) false false false; mk_rd RTimeout false false false] in
  read_all [] prefix 5 false = Raise OutOfFuel /\
  read_all [] (prefix ++ [mk_rd (RData []) false false false]) 5 false = Raise EOFErr.
Proof. split; reflexivity. Qed.
