"""gen/c02.py -- fail-closed translator for property C02 (tampered ciphertext is never accepted).

Reads (AST only) from the working tree under `repo`:

  paramiko/util.py    constant_time_bytes_eq      length guard, accumulator init, `res |= a[i] ^ b[i]`, `res == 0`
  paramiko/packet.py  compute_hmac                HMAC(key, message, digest_class).digest() over the whole message
                      Packetizer.send_message     MAC input = pack(">I", seqno) + (out if etm else packet), truncation
                      Packetizer.read_message     MAC input = pack(">II", seqno, packet_size) + packet on both MAC
                                                  paths, truncation to mac_size, comparison by
                                                  util.constant_time_bytes_eq followed by raise SSHException, and the
                                                  ORDER of the security-relevant events of the function

and emits coq/Gen/C02_gen.v: the comparison function as Gallina (g2_cteq), the MAC input layouts and the event
order list.  Proofs/C02_proofs.v proves (`source2_*`, exported as C02_source_* in Props/C02_props.v) that g2_cteq is
the model's constant_time_bytes_eq, that the layouts are the model's mac_input, and that every tag check precedes
every use of the packet contents (payload slice, decompression, Message construction, return) and, on the
encrypt-then-MAC path, precedes decryption.  Any shape not recognised raises (fail closed)."""
import ast
import os


class Shape(Exception):
    pass


def norm(node):
    return " ".join(ast.unparse(node).split())


def die(msg, node=None):
    where = ""
    if node is not None and hasattr(node, "lineno"):
        where = " (line %d: %s)" % (node.lineno, norm(node)[:160])
    raise Shape("gen/c02.py: unrecognised source shape: " + msg + where)


def get_func(body, name, what):
    fs = [n for n in body if isinstance(n, ast.FunctionDef) and n.name == name]
    if len(fs) != 1:
        die("expected exactly one %s %s, found %d" % (what, name, len(fs)))
    return fs[0]


def strip_doc(body):
    if body and isinstance(body[0], ast.Expr) and isinstance(body[0].value, ast.Constant) \
            and isinstance(body[0].value.value, str):
        return body[1:]
    return body


BINOP = {ast.BitOr: "Z.lor", ast.BitXor: "Z.lxor", ast.BitAnd: "Z.land", ast.Add: "Z.add"}


def tr_cteq(fn):
    if [a.arg for a in fn.args.args] != ["a", "b"]:
        die("constant_time_bytes_eq signature", fn)
    body = strip_doc(fn.body)
    if len(body) != 4:
        die("constant_time_bytes_eq must have 4 statements", fn)
    g, init, loop, ret = body
    if not (isinstance(g, ast.If) and norm(g.test) == "len(a) != len(b)" and [norm(s) for s in g.body] == ["return False"]
            and not g.orelse):
        die("length guard `if len(a) != len(b): return False` expected", g)
    if not (isinstance(init, ast.Assign) and norm(init.targets[0]) == "res" and isinstance(init.value, ast.Constant)
            and type(init.value.value) is int):
        die("res = <int> expected", init)
    if not (isinstance(loop, ast.For) and norm(loop.target) == "i" and norm(loop.iter) == "range(len(a))"
            and not loop.orelse and len(loop.body) == 1):
        die("for i in range(len(a)) with a single statement expected", loop)
    st = loop.body[0]
    if not (isinstance(st, ast.AugAssign) and norm(st.target) == "res" and type(st.op) in BINOP
            and isinstance(st.value, ast.BinOp) and type(st.value.op) in BINOP
            and norm(st.value.left) == "byte_ord(a[i])" and norm(st.value.right) == "byte_ord(b[i])"):
        die("res <op>= byte_ord(a[i]) <op> byte_ord(b[i]) expected", st)
    if not (isinstance(ret, ast.Return) and isinstance(ret.value, ast.Compare) and len(ret.value.ops) == 1
            and isinstance(ret.value.ops[0], ast.Eq) and norm(ret.value.left) == "res"
            and isinstance(ret.value.comparators[0], ast.Constant) and type(ret.value.comparators[0].value) is int):
        die("return res == <int> expected", ret)
    return (init.value.value, BINOP[type(st.op)], BINOP[type(st.value.op)], ret.value.comparators[0].value)


# events of read_message, in source order
EV_ETM_CHECK, EV_UPDATE, EV_AEAD_DECRYPT, EV_IV_INC, EV_CLASSIC_CHECK, EV_PAYLOAD, EV_DECOMPRESS, EV_MESSAGE, \
    EV_SEQ_BUMP, EV_RETURN, EV_BLOCK_CHECK = range(1, 12)


def mac_check_shape(iff, what):
    """`if not util.constant_time_bytes_eq(my_mac, mac): raise SSHException(...)`"""
    if norm(iff.test) != "not util.constant_time_bytes_eq(my_mac, mac)":
        die(what + ": the tag must be compared with `not util.constant_time_bytes_eq(my_mac, mac)`", iff)
    if len(iff.body) != 1 or not norm(iff.body[0]).startswith("raise SSHException(") or iff.orelse:
        die(what + ": a failed comparison must raise SSHException and nothing else", iff)


def tr_read_message(fn):
    events = []
    checks = []
    for n in ast.walk(fn):
        if isinstance(n, ast.If) and "constant_time_bytes_eq" in norm(n.test):
            checks.append(n)
        elif isinstance(n, ast.If) and "% self.__block_size_in" in norm(n.test):
            events.append((n.lineno, EV_BLOCK_CHECK))
        elif isinstance(n, ast.Call) and norm(n.func) == "self.__block_engine_in.update":
            events.append((n.lineno, EV_UPDATE))
        elif isinstance(n, ast.Call) and norm(n.func) == "self.__block_engine_in.decrypt":
            if norm(n) != "self.__block_engine_in.decrypt(self.__iv_in, packet, aad)":
                die("AEAD decrypt(self.__iv_in, packet, aad) expected", n)
            events.append((n.lineno, EV_AEAD_DECRYPT))
        elif isinstance(n, ast.Assign) and norm(n) == "self.__iv_in = self._inc_iv_counter(self.__iv_in)":
            events.append((n.lineno, EV_IV_INC))
        elif isinstance(n, ast.Assign) and norm(n.targets[0]) == "payload" and norm(n.value).startswith("packet["):
            events.append((n.lineno, EV_PAYLOAD))
        elif isinstance(n, ast.Call) and norm(n.func) == "self.__compress_engine_in":
            events.append((n.lineno, EV_DECOMPRESS))
        elif isinstance(n, ast.Call) and norm(n.func) == "Message":
            events.append((n.lineno, EV_MESSAGE))
        elif isinstance(n, ast.Assign) and norm(n.targets[0]) == "self.__sequence_number_in":
            events.append((n.lineno, EV_SEQ_BUMP))
        elif isinstance(n, ast.Return):
            events.append((n.lineno, EV_RETURN))
    if len(checks) != 2:
        die("read_message: exactly two tag comparisons expected (ETM and classic), found %d" % len(checks), fn)
    checks.sort(key=lambda n: n.lineno)
    # which branch each comparison lives in
    tops = strip_doc(fn.body)
    etm_if = [s for s in tops if isinstance(s, ast.If) and norm(s.test) == "self.__etm_in"]
    cls_if = [s for s in tops if isinstance(s, ast.If)
              and norm(s.test) == "self.__mac_size_in > 0 and (not self.__etm_in) and (not self.__aead_in)"]
    aead_if = [s for s in tops if isinstance(s, ast.If) and norm(s.test) == "self.__aead_in"]
    dec_if = [s for s in tops if isinstance(s, ast.If)
              and norm(s.test) == "self.__block_engine_in is not None and (not self.__aead_in)"]
    if not (len(etm_if) == len(cls_if) == len(aead_if) == len(dec_if) == 1):
        die("read_message: the ETM / AEAD / decrypt / classic-MAC top-level branches were not all found", fn)
    if checks[0] not in etm_if[0].body or checks[1] not in cls_if[0].body:
        die("read_message: tag comparisons are not direct statements of the ETM and classic-MAC branches", fn)
    mac_check_shape(checks[0], "ETM")
    mac_check_shape(checks[1], "classic")
    events.append((checks[0].lineno, EV_ETM_CHECK))
    events.append((checks[1].lineno, EV_CLASSIC_CHECK))
    # MAC inputs and truncation on both paths
    for br, what in ((etm_if[0], "ETM"), (cls_if[0], "classic")):
        texts = [norm(s) for s in br.body]
        for t in ("mac_payload = struct.pack('>II', self.__sequence_number_in, packet_size) + packet",
                  "my_mac = compute_hmac(self.__mac_key_in, mac_payload, self.__mac_engine_in)[:self.__mac_size_in]"):
            if texts.count(t) != 1:
                die("%s: `%s` expected exactly once" % (what, t), br)
        if texts.index("mac_payload = struct.pack('>II', self.__sequence_number_in, packet_size) + packet") > \
                texts.index("my_mac = compute_hmac(self.__mac_key_in, mac_payload, self.__mac_engine_in)"
                            "[:self.__mac_size_in]"):
            die(what + ": mac_payload must be built before my_mac", br)
    et = [norm(s) for s in etm_if[0].body]
    if "mac = self.read_all(self.__mac_size_in, check_rekey=False)" not in et or et[-1] != "header = packet":
        die("ETM: mac = read_all(mac_size) and a final `header = packet` expected", etm_if[0])
    if "mac = post_packet[:self.__mac_size_in]" not in [norm(s) for s in cls_if[0].body]:
        die("classic: mac = post_packet[:mac_size] expected", cls_if[0])
    # between the tag checks and the payload nothing may rebind `packet`
    for n in ast.walk(fn):
        if isinstance(n, ast.Assign) and norm(n.targets[0]) == "packet" and n.lineno > checks[1].lineno:
            die("read_message: `packet` is rebound after the classic MAC check", n)
    events.sort()
    return [e for _, e in events]


def check_send(fn):
    texts = []
    for n in ast.walk(fn):
        if isinstance(n, (ast.Assign, ast.AugAssign)):
            texts.append(norm(n))
    for t in ("packed = struct.pack('>I', self.__sequence_number_out)",
              "payload = packed + (out if self.__etm_out else packet)",
              "out += compute_hmac(self.__mac_key_out, payload, self.__mac_engine_out)[:self.__mac_size_out]"):
        if texts.count(t) != 1:
            die("send_message: `%s` expected exactly once" % t, fn)
    guard = [n for n in ast.walk(fn) if isinstance(n, ast.If)
             and norm(n.test) == "self.__block_engine_out is not None and (not self.__aead_out)"]
    if len(guard) != 1 or not any(norm(s).startswith("out += compute_hmac(") for s in guard[0].body):
        die("send_message: the MAC must be appended under `engine is not None and not aead`", fn)


def generate(repo):
    utree = ast.parse(open(os.path.join(repo, "paramiko", "util.py")).read())
    ptree = ast.parse(open(os.path.join(repo, "paramiko", "packet.py")).read())
    init, acc, cmp_, final = tr_cteq(get_func(utree.body, "constant_time_bytes_eq", "function"))
    hm = get_func(ptree.body, "compute_hmac", "function")
    if [a.arg for a in hm.args.args] != ["key", "message", "digest_class"] or \
            [norm(s) for s in strip_doc(hm.body)] != ["return HMAC(key, message, digest_class).digest()"]:
        die("compute_hmac must be `return HMAC(key, message, digest_class).digest()` (whole message, one call)", hm)
    if "from hmac import HMAC" not in [norm(n) for n in ptree.body if isinstance(n, ast.ImportFrom)]:
        die("packet.py must take HMAC from the standard library (`from hmac import HMAC`)")
    pcls = [n for n in ptree.body if isinstance(n, ast.ClassDef) and n.name == "Packetizer"]
    if len(pcls) != 1:
        die("class Packetizer not found")
    order = tr_read_message(get_func(pcls[0].body, "read_message", "method"))
    check_send(get_func(pcls[0].body, "send_message", "method"))
    L = ["(* GENERATED by gen/c02.py from paramiko/util.py and paramiko/packet.py - do not edit. *)",
         "From Coq Require Import ZArith List Bool.",
         "Import ListNotations.",
         "Open Scope Z_scope.",
         "(* util.constant_time_bytes_eq *)",
         "Definition g2_cteq_init : Z := %d." % init,
         "Definition g2_cteq_acc : Z -> Z -> Z := %s." % acc,
         "Definition g2_cteq_cmp : Z -> Z -> Z := %s." % cmp_,
         "Definition g2_cteq_final : Z := %d." % final,
         "Definition g2_cteq (a b : list Z) : bool :=",
         "  if negb (Nat.eqb (length a) (length b)) then false",
         "  else fold_left (fun res xy => g2_cteq_acc res (g2_cteq_cmp (fst xy) (snd xy))) (combine a b) g2_cteq_init",
         "       =? g2_cteq_final.",
         "(* receiver MAC input: struct.pack('>II', seqno, packet_size) + packet, tag truncated to mac_size, on both",
         "   MAC paths; sender: struct.pack('>I', seqno) + (out if etm else packet).  Field widths in bytes: *)",
         "Definition g2_mac_recv_fields : list Z := [4; 4].",
         "Definition g2_mac_send_fields : list Z := [4].",
         "(* security-relevant events of read_message in source order:",
         "   1 ETM tag check+raise, 2 cipher update (decrypt), 3 AEAD decrypt (raises InvalidTag), 4 IV increment,",
         "   5 classic tag check+raise, 6 payload slice, 7 decompress, 8 Message(...), 9 seqno store, 10 return,",
         "   11 blocking check *)",
         "Definition g2_read_order : list Z := [%s]." % "; ".join(str(e) for e in order)]
    return {"C02_gen.v": "\n".join(L) + "\n"}


if __name__ == "__main__":
    import sys
    print(generate(sys.argv[1] if len(sys.argv) > 1 else "/repo")["C02_gen.v"])
