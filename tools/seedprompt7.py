#!/usr/bin/env python3
"""Round-7 prompt: like seedprompt.py; asks for minimal single-point mutations."""
import subprocess, sys
t = subprocess.check_output(["python3", "/verif/tools/seedprompt.py"] + sys.argv[1:], text=True)
t = t.replace("produce TWO different, independent, realistic code changes",
              "produce THREE different, independent, MINIMAL code changes (single-point mutations, see below)")
t = t.replace("change k in {{1,2}}", "change k in {{1,2,3}}").replace("change k in {1,2}", "change k in {1,2,3}")
t = t.replace("Prefer changes that need something specific to manifest",
              "This is the seventh round; six earlier rounds took the edits listed above. This time every change must be a MINIMAL "
              "SINGLE-POINT MUTATION of the code that implements the property - the kind a mutation-testing tool or a slip of the finger "
              "produces, one token or one line: a comparison operator changed (< vs <=, == vs !=, > vs >=), a condition negated or one "
              "conjunct dropped, `and` vs `or`, an off-by-one on a bound / index / slice / length, a constant or default value changed "
              "(a size, a limit, a message number, a flag bit, a mode), two arguments or operands swapped, a similarly named variable / "
              "attribute used instead of the right one (in vs out, local vs remote, client vs server, stdout vs stderr, min vs max), a "
              "statement deleted or two adjacent statements swapped, `return x` vs `return`, a `break` vs `continue`, an exception class "
              "changed. No new helpers, no comments needed, no refactors. It must differ from every change already taken (another line), "
              "keep the whole suite green and break the property. Spread the three over different functions. Prefer mutations that need "
              "something specific to manifest")
t = t.replace("If for some property you cannot find a second change that keeps the suite green, one is acceptable",
              "If for some property you cannot find three that keep the suite green, fewer are acceptable")
print(t)
