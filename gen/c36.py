"""C36 translator: how private key files are created -> coq/Gen/C36_gen.v.

From the AST of paramiko/pkey.py: PKey._write_private_key_file must consist of one `os.open(filename, flags=O_WRONLY |
O_TRUNC | O_CREAT, mode=<m>)` wrapped in os.fdopen(..., "w"); <m> is resolved (literal, or the name `o600` defined by
a literal / stat expression in paramiko/common.py) and emitted as gen_key_file_mode.
Pinned (fail-closed): every key class's write_private_key_file is a single call of self._write_private_key_file(...)
(Ed25519Key inherits PKey's raising stub), and paramiko/pkey.py, rsakey.py, ecdsakey.py, ed25519key.py contain no
other call that can create or write a file (open in a write mode, os.open, os.fdopen, Path.write_*, os.chmod).
"""
import ast
import os
import stat

FILES = ["pkey.py", "rsakey.py", "ecdsakey.py", "ed25519key.py"]


def _parse(repo, fn):
    return ast.parse(open(os.path.join(repo, "paramiko", fn)).read())


def _resolve_mode(repo, node):
    if isinstance(node, ast.Constant) and isinstance(node.value, int):
        return node.value
    if isinstance(node, ast.Name):
        for n in _parse(repo, "common.py").body:
            if isinstance(n, ast.Assign) and len(n.targets) == 1 and isinstance(n.targets[0], ast.Name) \
                    and n.targets[0].id == node.id:
                return int(eval(compile(ast.Expression(n.value), "common.py", "eval"), {"stat": stat, "__builtins__": {}}))
        raise RuntimeError("mode name %s not defined in paramiko/common.py" % node.id)
    raise RuntimeError("unrecognised mode expression: " + ast.dump(node)[:120])


def _flag_names(node):
    if isinstance(node, ast.BinOp) and isinstance(node.op, ast.BitOr):
        return _flag_names(node.left) | _flag_names(node.right)
    if isinstance(node, ast.Attribute) and isinstance(node.value, ast.Name) and node.value.id == "os":
        return {node.attr}
    raise RuntimeError("unrecognised flags expression: " + ast.dump(node)[:120])


def _call_name(c):
    f = c.func
    if isinstance(f, ast.Name):
        return f.id
    if isinstance(f, ast.Attribute):
        base = f.value.id if isinstance(f.value, ast.Name) else "?"
        return base + "." + f.attr
    return "?"


def analyse(repo):
    trees = {fn: _parse(repo, fn) for fn in FILES}
    pkey = [n for n in trees["pkey.py"].body if isinstance(n, ast.ClassDef) and n.name == "PKey"][0]
    w = [n for n in pkey.body if isinstance(n, ast.FunctionDef) and n.name == "_write_private_key_file"]
    if len(w) != 1:
        raise RuntimeError("PKey._write_private_key_file not found")
    opens = [c for c in ast.walk(w[0]) if isinstance(c, ast.Call) and _call_name(c) == "os.open"]
    if len(opens) != 1:
        raise RuntimeError("_write_private_key_file: expected exactly one os.open call")
    kw = {k.arg: k.value for k in opens[0].keywords}
    args = list(opens[0].args)
    flags = kw.get("flags", args[1] if len(args) > 1 else None)
    mode = kw.get("mode", args[2] if len(args) > 2 else None)
    if flags is None or mode is None:
        raise RuntimeError("_write_private_key_file: os.open without flags / mode")
    if _flag_names(flags) != {"O_WRONLY", "O_TRUNC", "O_CREAT"}:
        raise RuntimeError("_write_private_key_file: flags are %s, the model assumes O_WRONLY|O_TRUNC|O_CREAT" % sorted(_flag_names(flags)))
    # no chmod / other open in the function; the fd goes to os.fdopen only
    others = sorted({_call_name(c) for c in ast.walk(w[0]) if isinstance(c, ast.Call)} - {"os.open", "os.fdopen", "self._write_private_key"})
    if others:
        raise RuntimeError("_write_private_key_file calls something the model does not know: %s" % others)
    # every class: write_private_key_file == one call of self._write_private_key_file
    for fn, cname in (("rsakey.py", "RSAKey"), ("ecdsakey.py", "ECDSAKey"), ("ed25519key.py", "Ed25519Key")):
        cls = [n for n in trees[fn].body if isinstance(n, ast.ClassDef) and n.name == cname][0]
        ms = [n for n in cls.body if isinstance(n, ast.FunctionDef) and n.name == "write_private_key_file"]
        if cname == "Ed25519Key":
            if ms:
                raise RuntimeError("Ed25519Key now defines write_private_key_file: not modelled")
            continue
        if len(ms) != 1 or len(ms[0].body) != 1 or not (isinstance(ms[0].body[0], ast.Expr) and isinstance(ms[0].body[0].value, ast.Call)
                                                         and _call_name(ms[0].body[0].value) == "self._write_private_key_file"):
            raise RuntimeError("%s.write_private_key_file is not a single call of self._write_private_key_file" % cname)
    # no other file creation / permission change anywhere in the four files
    for fn, tree in trees.items():
        for c in ast.walk(tree):
            if not isinstance(c, ast.Call):
                continue
            nm = _call_name(c)
            if nm in ("os.open", "os.fdopen"):
                inside = any(c is x for x in ast.walk(w[0]))
                if not inside:
                    raise RuntimeError("%s: %s outside _write_private_key_file" % (fn, nm))
            elif nm in ("os.chmod", "os.fchmod", "os.umask", "os.mknod", "os.rename", "os.replace", "shutil.copy") \
                    or nm.endswith((".write_text", ".write_bytes", ".touch", ".chmod")):
                raise RuntimeError("%s: call of %s (file creation / permission path not modelled)" % (fn, nm))
            elif nm == "open":
                m = c.args[1] if len(c.args) > 1 else {k.arg: k.value for k in c.keywords}.get("mode")
                if m is not None and not (isinstance(m, ast.Constant) and m.value in ("r", "rb")):
                    raise RuntimeError("%s: open(...) in a mode other than read" % fn)
    return _resolve_mode(repo, mode)


def generate(repo):
    mode = analyse(repo)
    return {"C36_gen.v": "(* generated by gen/c36.py from paramiko/pkey.py (+ common.py) - do not edit *)\n"
                         "From PV Require Import Bytes.\nOpen Scope Z_scope.\n"
                         "(* mode argument of the single os.open(O_WRONLY|O_TRUNC|O_CREAT) in PKey._write_private_key_file *)\n"
                         "Definition gen_key_file_mode : Z := %d.   (* 0o%o *)\n" % (mode, mode)}
