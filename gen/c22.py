"""C22 translator: constants the channel model uses, read from the working tree on every run.

generate(repo) -> {"C22_gen.v": text}

Fail-closed (any shape it does not recognise raises, which the driver reports as a broken
obligation):
  * paramiko/common.py: the tuple assignment `(MSG_CHANNEL_OPEN, ..., MSG_CHANNEL_FAILURE) = range(a, b)`
    gives the numbers of WINDOW_ADJUST / DATA / EXTENDED_DATA / EOF / CLOSE / FAILURE;
  * paramiko/channel.py, Channel._wait_for_send_window: the statement pair
        if self.out_max_packet_size - K < size:
            size = self.out_max_packet_size - K
    gives the per-packet overhead K (both occurrences must agree);
  * paramiko/channel.py, Channel._set_window: `self.in_window_threshold = window_size // D` gives D;
  * paramiko/channel.py, Channel.send_stderr: the `m.add_int(<const>)` after the channel id gives the
    extended-data type code.
"""
import ast
import os


class Unrecognised(Exception):
    pass


def _parse(path):
    with open(path) as f:
        return ast.parse(f.read(), path)


def _msg_numbers(repo):
    tree = _parse(os.path.join(repo, "paramiko", "common.py"))
    for st in tree.body:
        if not (isinstance(st, ast.Assign) and len(st.targets) == 1 and isinstance(st.targets[0], ast.Tuple)):
            continue
        names = [e.id for e in st.targets[0].elts if isinstance(e, ast.Name)]
        if "MSG_CHANNEL_EOF" not in names:
            continue
        v = st.value
        if not (isinstance(v, ast.Call) and isinstance(v.func, ast.Name) and v.func.id == "range"
                and len(v.args) == 2 and all(isinstance(a, ast.Constant) and isinstance(a.value, int) for a in v.args)):
            raise Unrecognised("MSG_CHANNEL_* are not assigned from range(a, b): " + ast.dump(v))
        a, b = v.args[0].value, v.args[1].value
        if len(names) != len(st.targets[0].elts) or b - a != len(names):
            raise Unrecognised("MSG_CHANNEL_* tuple and range length differ")
        return {n: a + i for i, n in enumerate(names)}
    raise Unrecognised("assignment of MSG_CHANNEL_EOF not found in common.py")


def _method(cls, name):
    for st in cls.body:
        if isinstance(st, ast.FunctionDef) and st.name == name:
            return st
    raise Unrecognised("Channel.%s not found" % name)


def _self_attr(node, attr):
    return (isinstance(node, ast.Attribute) and node.attr == attr and isinstance(node.value, ast.Name)
            and node.value.id == "self")


def _overhead(cls):
    fn = _method(cls, "_wait_for_send_window")
    found = []
    for node in ast.walk(fn):
        if not isinstance(node, ast.If):
            continue
        t = node.test
        if (isinstance(t, ast.Compare) and len(t.ops) == 1 and isinstance(t.ops[0], ast.Lt)
                and isinstance(t.left, ast.BinOp) and isinstance(t.left.op, ast.Sub)
                and _self_attr(t.left.left, "out_max_packet_size")):
            k = t.left.right
            body = node.body
            if not (isinstance(k, ast.Constant) and isinstance(k.value, int) and len(body) == 1
                    and isinstance(t.comparators[0], ast.Name) and t.comparators[0].id == "size"
                    and isinstance(body[0], ast.Assign) and isinstance(body[0].value, ast.BinOp)
                    and isinstance(body[0].value.op, ast.Sub)
                    and _self_attr(body[0].value.left, "out_max_packet_size")
                    and isinstance(body[0].value.right, ast.Constant) and body[0].value.right.value == k.value
                    and not node.orelse):
                raise Unrecognised("packet-size clamp in _wait_for_send_window has an unexpected shape")
            found.append(k.value)
    if len(found) != 1:
        raise Unrecognised("expected exactly one `out_max_packet_size - K < size` clamp, found %d" % len(found))
    return found[0]


def _threshold_div(cls):
    fn = _method(cls, "_set_window")
    for node in ast.walk(fn):
        if (isinstance(node, ast.Assign) and len(node.targets) == 1
                and _self_attr(node.targets[0], "in_window_threshold")):
            v = node.value
            if (isinstance(v, ast.BinOp) and isinstance(v.op, ast.FloorDiv) and isinstance(v.left, ast.Name)
                    and v.left.id == "window_size" and isinstance(v.right, ast.Constant)
                    and isinstance(v.right.value, int)):
                return v.right.value
            raise Unrecognised("in_window_threshold is not window_size // D")
    raise Unrecognised("in_window_threshold assignment not found")


def _ext_code(cls):
    fn = _method(cls, "send_stderr")
    ints = []
    for node in ast.walk(fn):
        if (isinstance(node, ast.Call) and isinstance(node.func, ast.Attribute) and node.func.attr == "add_int"
                and len(node.args) == 1 and isinstance(node.args[0], ast.Constant)):
            ints.append(node.args[0].value)
    if len(ints) != 1 or not isinstance(ints[0], int):
        raise Unrecognised("send_stderr: expected exactly one add_int(<constant>)")
    return ints[0]


def generate(repo):
    nums = _msg_numbers(repo)
    tree = _parse(os.path.join(repo, "paramiko", "channel.py"))
    cls = None
    for st in tree.body:
        if isinstance(st, ast.ClassDef) and st.name == "Channel":
            cls = st
    if cls is None:
        raise Unrecognised("class Channel not found")
    lines = ["(* GENERATED by gen/c22.py from paramiko/common.py and paramiko/channel.py -- do not edit *)",
             "From Coq Require Import ZArith.", "Open Scope Z_scope.", ""]
    for coqname, pyname in (("msg_window_adjust", "MSG_CHANNEL_WINDOW_ADJUST"), ("msg_data", "MSG_CHANNEL_DATA"),
                            ("msg_extended_data", "MSG_CHANNEL_EXTENDED_DATA"), ("msg_eof", "MSG_CHANNEL_EOF"),
                            ("msg_close", "MSG_CHANNEL_CLOSE"), ("msg_failure", "MSG_CHANNEL_FAILURE")):
        if pyname not in nums:
            raise Unrecognised(pyname + " missing")
        lines.append("Definition %s : Z := %d." % (coqname, nums[pyname]))
    lines.append("(* Channel._wait_for_send_window: size <= out_max_packet_size - pkt_overhead *)")
    lines.append("Definition pkt_overhead : Z := %d." % _overhead(cls))
    lines.append("(* Channel._set_window: in_window_threshold = window_size // threshold_div *)")
    lines.append("Definition threshold_div : Z := %d." % _threshold_div(cls))
    lines.append("(* Channel.send_stderr: extended data type code *)")
    lines.append("Definition ext_stderr_code : Z := %d." % _ext_code(cls))
    return {"C22_gen.v": "\n".join(lines) + "\n"}


def sender_api(repo):
    """For the released-channel sweep of harness/c22.py (not a Coq file): the public methods of
    paramiko.channel.Channel from which a `transport._send_user_message(...)` call is reachable through
    `self.<method>(...)` calls, each with a flag: decorated with @open_only in THIS tree.  Fail-closed."""
    tree = _parse(os.path.join(repo, "paramiko", "channel.py"))
    cls = None
    for st in tree.body:
        if isinstance(st, ast.ClassDef) and st.name == "Channel":
            cls = st
    if cls is None:
        raise Unrecognised("class Channel not found")
    methods = {st.name: st for st in cls.body if isinstance(st, ast.FunctionDef)}
    direct, calls, decorated = set(), {}, {}
    for name, fn in methods.items():
        calls[name] = set()
        for node in ast.walk(fn):
            if isinstance(node, ast.Call) and isinstance(node.func, ast.Attribute):
                if node.func.attr == "_send_user_message":
                    direct.add(name)
                if isinstance(node.func.value, ast.Name) and node.func.value.id == "self" \
                        and node.func.attr in methods:
                    calls[name].add(node.func.attr)
        decs = []
        for d in fn.decorator_list:
            if isinstance(d, ast.Name):
                decs.append(d.id)
            elif isinstance(d, ast.Attribute):
                decs.append(d.attr)
            else:
                raise Unrecognised("decorator of Channel.%s has an unexpected shape" % name)
        decorated[name] = "open_only" in decs
    if not direct:
        raise Unrecognised("no method of Channel calls _send_user_message")
    senders = set(direct)
    changed = True
    while changed:
        changed = False
        for name in methods:
            if name not in senders and calls[name] & senders:
                senders.add(name)
                changed = True
    return sorted((n, decorated[n]) for n in senders if not n.startswith("_"))
