#!/bin/bash
# runall.sh <tier> <parallel> ids...  -> prints one summary line per check
tier=$1; par=$2; shift 2
cd /verif
printf "%s\n" "$@" | xargs -P "$par" -I{} bash -c './check {} --tier '"$tier"' > /tmp/verif-run-{}.log 2>&1; echo "{} rc=$? $(grep -E "done in" /tmp/verif-run-{}.log | tail -1) $(grep -cE "^VIOLATION" /tmp/verif-run-{}.log) viol $(grep -cE "^KNOWN-FINDING" /tmp/verif-run-{}.log) kf"'
