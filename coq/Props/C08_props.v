(* C08 — key exchange rejects invalid peer public values and out-of-range groups.
   Property statements only; every proof is `exact <lemma from Proofs/C08_proofs.v>`.
   reject_xxx / steps_xxx / dh_sites / all_handlers are generated from the source (Gen/C08_gen.v):
   dh_sites pairs each DH handler with the range test it contains: dh_sites_complete = the four
   fully modelled handlers (kex_group1 _parse_kexdh_reply/_init, also run by the group14/group16
   engines; kex_gex _parse_kexdh_gex_init/_reply), followed by the four kex_gss.py sites
   (KexGSSGroup1 _parse_kexgss_complete/_init, also run by KexGSSGroup14; KexGSSGex
   _parse_kexgss_gex_init/_complete), whose step lists are PREFIXES of the handler up to and including
   its first transport call (the GSS context negotiation after _set_K_H is not modelled). *)
From Coq Require Import ZArith List Bool Znumtheory.
From PV Require Import Bytes C08_gen C08 C08_proofs.
Import ListNotations.
Open Scope Z_scope.

(* every call site accepts a peer value v exactly when 1 <= v <= p-1 *)
Theorem C08_dh_range :
  forall h rej, In (h, rej) dh_sites ->
  forall p v, dh_accept rej p v = true <-> 1 <= v <= p - 1.
Proof. exact dh_range. Qed.
Print Assumptions C08_dh_range.

(* for a prime modulus an accepted value gives a shared secret K = v^x mod p in [1, p-1]
   (never 0), for every private exponent x >= 0 *)
Theorem C08_dh_nonzero_secret :
  forall h rej, In (h, rej) dh_sites ->
  forall p v x, prime p -> 0 <= x -> dh_accept rej p v = true ->
    1 <= dh_shared v x p <= p - 1.
Proof. exact dh_nonzero_secret. Qed.
Print Assumptions C08_dh_nonzero_secret.

(* without the primality premise: an accepted value is a non-zero residue *)
Theorem C08_dh_nonzero_mod :
  forall h rej, In (h, rej) dh_sites ->
  forall p v, dh_accept rej p v = true -> v mod p = v /\ v mod p <> 0.
Proof. exact dh_nonzero_mod. Qed.
Print Assumptions C08_dh_nonzero_mod.

(* why the test matters: the excluded values 0 and p force K = 0 *)
Theorem C08_dh_excluded_values_force_zero :
  forall p x, 1 < p -> 0 < x -> dh_shared 0 x p = 0 /\ dh_shared p x p = 0.
Proof. exact dh_zero_gives_zero. Qed.
Print Assumptions C08_dh_excluded_values_force_zero.

(* the client accepts a group-exchange modulus exactly when it is positive and its bit length
   (util.bit_length) is within 1024..8192 *)
Theorem C08_gex_bits :
  forall p, gex_group_accept p = true <-> 0 < p /\ 1024 <= bitlen p <= 8192.
Proof. exact gex_bits. Qed.
Print Assumptions C08_gex_bits.

(* the same, arithmetically *)
Theorem C08_gex_range :
  forall p, gex_group_accept p = true <-> 2 ^ 1023 <= p < 2 ^ 8192.
Proof. exact gex_pow. Qed.
Print Assumptions C08_gex_range.

(* the range the client asks for (class constants) is the range it enforces *)
Theorem C08_gex_requested : gex_min_bits = 1024 /\ gex_max_bits = 8192.
Proof. exact gex_consts. Qed.
Print Assumptions C08_gex_requested.

(* the curve25519 test rejects exactly the all-zero 32-byte result *)
Theorem C08_x25519_zero :
  forall secret, x25519_accept secret = false <-> secret = repeat 0 32.
Proof. exact x25519_zero. Qed.
Print Assumptions C08_x25519_zero.

(* a handler (any of the nine) that raises - at a range/size/zero test or at a failed library
   validation - has not called _set_K_H, _verify_key, _send_message, _activate_outbound or
   _expect_packet: the trace of observable calls is empty *)
Theorem C08_reject_no_newkeys :
  forall h, In h all_handlers ->
  forall en tr e, run_steps h en = (tr, Raise e) -> tr = [].
Proof. exact reject_no_newkeys. Qed.
Print Assumptions C08_reject_no_newkeys.

(* all eight DH sites: out of range -> SSHException and nothing done; in range -> the first
   transport call is _set_K_H *)
Theorem C08_dh_handler :
  forall h rej, In (h, rej) dh_sites ->
  forall en,
    (~ (1 <= e_v en <= e_p en - 1) -> run_steps h en = ([], Raise SSHExc)) /\
    (1 <= e_v en <= e_p en - 1 ->
       exists tr, run_steps h en = (EvSetKH :: tr, Ok tt)).
Proof. exact dh_handler. Qed.
Print Assumptions C08_dh_handler.

(* the four fully modelled handlers run to the end (keys set, outbound activated) when they accept *)
Theorem C08_dh_handler_activates :
  forall h rej, In (h, rej) dh_sites_complete ->
  forall en, 1 <= e_v en <= e_p en - 1 ->
    exists tr, run_steps h en = (tr, Ok tt) /\ In EvSetKH tr /\ In EvActivate tr.
Proof. exact dh_handler_activates. Qed.
Print Assumptions C08_dh_handler_activates.

(* kex_gss.py: KexGSSGex._parse_kexgss_group enforces the same size test as KexGex, before the GSS
   context is touched or anything is sent; a raising GSS prefix has emitted nothing *)
Theorem C08_gss_gex_bits :
  forall p, (gss_gex_group_accept p = true <-> 0 < p /\ 1024 <= bitlen p <= 8192) /\
            gss_gex_group_accept p = gex_group_accept p.
Proof. intro p. split; [exact (gss_gex_bits p) | exact (gss_gex_same p)]. Qed.
Print Assumptions C08_gss_gex_bits.

Theorem C08_gss_gex_group_handler :
  forall en,
  (gss_gex_group_accept (e_p en) = false -> run_steps steps_gss_gex_group en = ([], Raise SSHExc)) /\
  (gss_gex_group_accept (e_p en) = true -> e_gss_ok en = true ->
     run_steps steps_gss_gex_group en = ([EvSend], Ok tt)).
Proof. exact gss_gex_group_handler. Qed.
Print Assumptions C08_gss_gex_group_handler.

Theorem C08_gss_reject_no_newkeys :
  forall h, In h gss_prefixes ->
  forall en tr e, run_steps h en = (tr, Raise e) -> tr = [].
Proof. exact gss_reject_no_newkeys. Qed.
Print Assumptions C08_gss_reject_no_newkeys.

(* group handler: a modulus outside the range -> SSHException, KEXDH_GEX_INIT is not sent *)
Theorem C08_gex_group_handler :
  forall en,
    (gex_group_accept (e_p en) = false -> run_steps steps_gex_group en = ([], Raise SSHExc)) /\
    (gex_group_accept (e_p en) = true ->
       exists tr, run_steps steps_gex_group en = (tr, Ok tt) /\ In EvSend tr).
Proof. exact gex_group_handler. Qed.
Print Assumptions C08_gex_group_handler.

(* curve25519 handlers have exactly three outcomes, and an all-zero exchange result that the
   library lets through is rejected with SSHException before anything is done *)
Theorem C08_x25519_handler :
  forall en,
  In (run_steps steps_x25519_init en, run_steps steps_x25519_reply en)
     [(([], Raise ValueErr), ([], Raise ValueErr)); (([], Raise SSHExc), ([], Raise SSHExc));
      (([EvSetKH; EvSend; EvActivate], Ok tt), ([EvSetKH; EvVerifyKey; EvActivate], Ok tt))] /\
  (e_point_ok en = true -> e_exch_ok en = true -> e_secret en = repeat 0 32 ->
   run_steps steps_x25519_init en = ([], Raise SSHExc) /\
   run_steps steps_x25519_reply en = ([], Raise SSHExc)).
Proof. exact x25519_handler. Qed.
Print Assumptions C08_x25519_handler.

(* NIST ECDH handlers (KexNistp256/384/521 _parse_kexecdh_init / _parse_kexecdh_reply; the step lists
   and the data flow "K = self.P.exchange(ec.ECDH(), <the point decoded from the received bytes>)" are
   pinned by gen/c08.py).  paramiko performs NO check of its own on the peer's point: it relies
   entirely on the library.  The statement therefore quantifies over an ARBITRARY library -
   `decode` = from_encoded_point (None = it raised), `exch` = exchange (None = it raised) - under the
   one premise the handler needs: the library returns a point only for a valid SEC1 encoding
   (ec_valid: uncompressed with in-range coordinates satisfying the curve equation, or compressed with
   an in-range abscissa for which a point exists; C08_ec_valid_shape).  Then an invalid / off-curve /
   identity / wrong-length encoding ends the handler with ValueError before any transport call, and
   whenever a handler makes any transport call at all (_set_K_H, NEWKEYS activation) the encoding was
   valid, decoding and exchange succeeded, and the handler ran to the end.  The premise is checked on
   the live `cryptography` library every run (harness: grid of bad encodings on the three curves). *)
Theorem C08_ec_handler :
  forall (c : Z * Z * Z * Z) (point : Type)
         (decode : list Z -> option point) (exch : point -> option (list Z)),
  (forall bs P, decode bs = Some P -> ec_valid c bs) ->
  forall bs h, In h [steps_ecdh_init; steps_ecdh_reply] ->
    (~ ec_valid c bs -> run_steps h (ec_env decode exch bs) = ([], Raise ValueErr)) /\
    (forall tr res, run_steps h (ec_env decode exch bs) = (tr, res) -> tr <> [] ->
       res = Ok tt /\ In EvSetKH tr /\ In EvActivate tr /\
       ec_valid c bs /\ exists P s, decode bs = Some P /\ exch P = Some s).
Proof. exact ec_handler_full. Qed.
Print Assumptions C08_ec_handler.

(* what a valid encoding is, completely: so the empty string, the identity 00, hybrid / unknown
   prefixes, wrong lengths, out-of-range coordinates, points of another curve and off-curve points
   are all invalid *)
Theorem C08_ec_valid_shape :
  forall p a b flen t r,
  ec_valid (p, a, b, flen) (t :: r) ->
  let n := Z.to_nat (Z.min flen 128) in
  (t = 4 /\ length r = (2 * n)%nat /\
   0 <= be_decode (firstn n r) < p /\ 0 <= be_decode (skipn n r) < p /\
   (be_decode (skipn n r) * be_decode (skipn n r)) mod p =
   (be_decode (firstn n r) * be_decode (firstn n r) * be_decode (firstn n r) + a * be_decode (firstn n r) + b) mod p) \/
  ((t = 2 \/ t = 3) /\ length r = n /\ 0 <= be_decode r < p /\ has_root (p, a, b, flen) (be_decode r)).
Proof. exact ec_valid_shape. Qed.
Print Assumptions C08_ec_valid_shape.

Theorem C08_ec_valid_degenerate : forall c, ~ ec_valid c [] /\ ~ ec_valid c [0].
Proof. exact ec_valid_degenerate. Qed.
Print Assumptions C08_ec_valid_degenerate.

(* the exchange hash of both handlers is over V_C V_S I_C I_S K_S Q_C Q_S K in this order (RFC 5656
   section 4), the peer's Q being the very bytes that were decoded *)
Theorem C08_ec_hash_order :
  ecdh_hash_order_init = [1; 2; 3; 4; 5; 6; 7; 8] /\ ecdh_hash_order_reply = [1; 2; 3; 4; 5; 6; 7; 8].
Proof. exact ec_hash_order. Qed.
Print Assumptions C08_ec_hash_order.

(* the instantiation used by the correspondence run: IF the library's validation agrees with the
   executable spec ec_accept on the received encoding (sq = residuosity bit for compressed forms) and
   its ECDH on a validated point succeeds, the handlers accept exactly the encodings the spec accepts *)
Theorem C08_ec_handler_under_spec :
  forall en c sq pt,
  e_point_ok en = ec_accept c sq pt -> e_exch_ok en = true ->
  (ec_accept c sq pt = false ->
     run_steps steps_ecdh_init en = ([], Raise ValueErr) /\
     run_steps steps_ecdh_reply en = ([], Raise ValueErr)) /\
  (forall tr, run_steps steps_ecdh_init en = (tr, Ok tt) \/ run_steps steps_ecdh_reply en = (tr, Ok tt) ->
     ec_accept c sq pt = true /\ pt <> [] /\ pt <> [0]) /\
  (ec_accept c sq pt = true ->
     run_steps steps_ecdh_init en = ([EvSetKH; EvSend; EvActivate], Ok tt) /\
     run_steps steps_ecdh_reply en = ([EvSetKH; EvVerifyKey; EvActivate], Ok tt)).
Proof. exact ec_handler_under_spec. Qed.
Print Assumptions C08_ec_handler_under_spec.

(* the spec the library is compared with: an accepted uncompressed encoding has the right length,
   coordinates below p, and satisfies the curve equation; the empty string and the point at
   infinity are refused *)
Theorem C08_ec_spec_on_curve :
  forall p a b flen sq r,
  ec_accept (p, a, b, flen) sq (4 :: r) = true ->
  let n := Z.to_nat (Z.min flen 128) in
  let x := be_decode (firstn n r) in
  let y := be_decode (skipn n r) in
  length r = (2 * n)%nat /\ 0 <= x < p /\ 0 <= y < p /\
  (y * y) mod p = (x * x * x + a * x + b) mod p.
Proof. exact ec_uncompressed_on_curve. Qed.
Print Assumptions C08_ec_spec_on_curve.

Theorem C08_ec_spec_degenerate : forall c sq, ec_accept c sq [] = false /\ ec_accept c sq [0] = false.
Proof. exact ec_rejects_degenerate. Qed.
Print Assumptions C08_ec_spec_degenerate.

(* non-vacuity: a prime modulus, an accepted value, a non-trivial exponent; an accepted and two
   refused gex moduli; a handler run that raises *)
Example C08_example_prime :
  prime 23 /\ dh_accept reject_group1_reply 23 5 = true /\ dh_shared 5 6 23 = 8 /\
  dh_accept reject_gex_init 23 23 = false /\ dh_accept reject_gex_reply 23 0 = false.
Proof. split; [exact prime_23 | repeat split; reflexivity]. Qed.

Example C08_example_gex :
  gex_group_accept (2 ^ 2047 + 1) = true /\ gex_group_accept (2 ^ 1023 - 1) = false /\
  gex_group_accept (- (2 ^ 2047 + 1)) = false /\ gex_group_accept (2 ^ 8192) = false.
Proof. repeat split; vm_compute; reflexivity. Qed.

Example C08_example_raise :
  run_steps steps_group1_init (mkenv 0 23 [] true true true) = ([], Raise SSHExc) /\
  run_steps steps_group1_init (mkenv 5 23 [] true true true) = ([EvSetKH; EvSend; EvActivate], Ok tt) /\
  run_steps steps_gss_gex_complete (mkenv 23 23 [] true true true) = ([], Raise SSHExc) /\
  In (steps_gss_gex_complete, reject_gss_gex_complete) dh_sites /\
  In steps_group1_init all_handlers.
Proof.
  repeat split; try reflexivity.
  - unfold dh_sites. rewrite in_app_iff. cbn [In]. tauto.
  - unfold all_handlers. cbn [In]. tauto.
Qed.

(* non-vacuity of C08_ec_handler: the premise is met by a library (here: one that decodes exactly the
   valid uncompressed encodings), a valid encoding exists (the P-256 base point) and is accepted by
   the handler with the keys set, and a neighbouring off-curve encoding is invalid *)
Example C08_example_ec :
  let Gx := 0x6B17D1F2E12C4247F8BCE6E563A440F277037D812DEB33A0F4A13945D898C296 in
  let Gy := 0x4FE342E2FE1A7F9B8EE7EB4A7C0F9E162BCE33576B315ECECBB6406837BF51F5 in
  exists c, nth_error curves 0 = Some c /\
    let decode := fun bs => if ec_accept c false bs then Some bs else None in
    let exch := fun (_ : list Z) => Some [1] in
    (forall bs P, decode bs = Some P -> ec_valid c bs) /\
    ec_valid c (4 :: be_encode 32 Gx ++ be_encode 32 Gy) /\
    run_steps steps_ecdh_init (ec_env decode exch (4 :: be_encode 32 Gx ++ be_encode 32 Gy))
      = ([EvSetKH; EvSend; EvActivate], Ok tt) /\
    ~ ec_valid c (4 :: be_encode 32 Gx ++ be_encode 32 (Gy + 1)).
Proof.
  intros Gx Gy. eexists. split; [reflexivity|]. cbv zeta. split; [|split; [|split]].
  - intros bs P H. left. destruct (ec_accept _ false bs); [reflexivity|discriminate].
  - left. vm_compute. reflexivity.
  - vm_compute. reflexivity.
  - match goal with |- ~ ec_valid ?c ?pt =>
      assert (E1 : ec_accept c false pt = false) by (vm_compute; reflexivity);
      assert (E2 : ec_accept c true pt = false) by (vm_compute; reflexivity)
    end.
    intros [H|[H _]]; congruence.
Qed.
