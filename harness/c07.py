"""C07 — signatures must use the negotiated or declared signature algorithm.

Proof: coq/Props/C07_props.v over coq/Model/C07.v (tables from gen/c07.py: RSAKey.HASHES,
Transport._key_info, ECDSA curve set, preference tuples, cert suffix).
Tie: direct drive of the real Transport._verify_key (real Transport object, real keys of /repo/tests,
real RSA / ECDSA / Ed25519 signatures made under every hash) and of the real AuthHandler
._parse_userauth_request (real Transport as server, scripted ServerInterface) over the enumerated
space (negotiated or declared algorithm) x (key blob) x (signature algorithm name) x (hash the
signature was really made with) x (disabled algorithms); the model's own definitions run inside Coq
(vm_compute) on the same cases with the primitive instantiated by the hashes under which the case's
signature really verifies.  preferred_keys / preferred_pubkeys compared on generated configurations.
Search oracle: the property stated over the real code's accept decisions, plus loopback handshakes /
authentications against a peer that signs with another algorithm than the agreed one.
"""
import base64
import os
import threading

from common import coq, with_watchdog

PID = "C07"
LEVEL_TEXT = ("Machine-checked proof (Coq, closed under the global context, for every signature primitive) over an "
              "executable model of RSAKey/ECDSAKey/Ed25519Key.verify_ssh_sig, Transport._verify_key, the client's "
              "host-key choice and AuthHandler's publickey branch that an accepted signature names exactly the "
              "negotiated (client) / declared (server) algorithm with the cert suffix removed, that this name is in "
              "the verifier's preference list and not disabled, that the primitive was consulted under that name's "
              "hash (so SHA-1 is never used when ssh-rsa is disabled), and that a request declaring a disabled "
              "algorithm is disconnected; the pre-repair code is refuted by witnesses.  Tied to the source by "
              "generated tables and an enumerated differential run against the real code with real signatures.")
LEVEL_NOTE = ("Trusted: Coq kernel + vm_compute; hand-written model coq/Model/C07.v validated by the correspondence "
              "run only; the signature primitive (cryptography / nacl) is an oracle parameter `pv` of every theorem "
              "- no unforgeability is claimed, only WHICH algorithm and hash the decision used; key-material parsing "
              "is an input of the model; Message parsing is C39's; negotiation beyond the client's host-key choice "
              "is C05's.")
TECHNIQUE = "Coq proof (list membership / filtering lemmas, case analysis) + generated tables + enumerated vm_compute differential with real signatures"

CERT = "-cert-v01@openssh.com"
HASH_ID = {"sha1": 1, "sha256": 256, "sha384": 384, "sha512": 512}


# --------------------------------------------------------------------------
# world: real keys, real signatures


class World:
    pass


def _cert_blob(path):
    return base64.b64decode(open(path).read().split()[1])


def build_world(ctx):
    import paramiko
    from paramiko.message import Message
    from cryptography.hazmat.primitives import hashes
    from cryptography.hazmat.primitives.asymmetric import padding

    w = World()
    t = os.path.join(ctx.repo, "tests")
    sup = os.path.join(t, "_support")
    w.rsa = paramiko.RSAKey.from_private_key_file(os.path.join(sup, "rsa.key"))
    w.p256 = paramiko.ECDSAKey.from_private_key_file(os.path.join(sup, "ecdsa-256.key"))
    w.p384 = paramiko.ECDSAKey.from_private_key_file(os.path.join(t, "test_ecdsa_384.key"))
    w.p521 = paramiko.ECDSAKey.from_private_key_file(os.path.join(t, "test_ecdsa_521.key"))
    w.ed = paramiko.Ed25519Key.from_private_key_file(os.path.join(sup, "ed25519.key"))
    # key blobs as they travel: (label, signer, blob bytes)
    w.blobs = [
        ("rsa", "rsa", w.rsa.asbytes()),
        ("rsa-cert", "rsa", _cert_blob(os.path.join(sup, "rsa.key-cert.pub"))),
        ("p256", "p256", w.p256.asbytes()),
        ("p256-cert", "p256", _cert_blob(os.path.join(sup, "ecdsa-256.key-cert.pub"))),
        ("p384", "p384", w.p384.asbytes()),
        ("p521", "p521", w.p521.asbytes()),
        ("ed", "ed", w.ed.asbytes()),
        ("ed-cert", "ed", _cert_blob(os.path.join(sup, "ed25519.key-cert.pub"))),
    ]
    # malformed material / foreign type names
    m = Message()
    m.add_string("ssh-rsa")
    w.blobs.append(("rsa-truncated", "rsa", m.asbytes()))
    m = Message()
    m.add_string("ssh-dss")
    m.add_mpint(5)
    w.blobs.append(("unknown-type", "rsa", m.asbytes()))
    m = Message()
    m.add_string("ssh-rsa" + CERT + CERT)
    m.add_mpint(5)
    w.blobs.append(("double-cert-type", "rsa", m.asbytes()))
    w.signers = {"rsa": w.rsa, "p256": w.p256, "p384": w.p384, "p521": w.p521, "ed": w.ed}
    w.curve_hash = {"p256": 256, "p384": 384, "p521": 512}
    w.curve_name = {"p256": "ecdsa-sha2-nistp256", "p384": "ecdsa-sha2-nistp384", "p521": "ecdsa-sha2-nistp521"}
    w.hashcls = {"sha1": hashes.SHA1, "sha256": hashes.SHA256, "sha512": hashes.SHA512}
    w.padding = padding
    w.Message = Message
    w.paramiko = paramiko
    w._sigcache = {}
    return w


def blob_type(w, blob):
    try:
        return w.Message(blob).get_binary()
    except Exception:
        return b""


def mat_code(w, label, blob):
    """Outcome of parsing the key material with the key class that owns the blob's type name
    (input of the model: 0 parsed, 1 SSHException, 2 ValueError)."""
    p = w.paramiko
    ty = blob_type(w, blob).decode("latin-1")
    base = ty.replace(CERT, "")
    cls = p.RSAKey if base == "ssh-rsa" else p.Ed25519Key if base == "ssh-ed25519" else \
        p.ECDSAKey if base.startswith("ecdsa-") else None
    if cls is None:
        return 0
    try:
        cls(data=blob)
        return 0
    except p.SSHException:
        return 1
    except ValueError:
        return 2
    except Exception:
        return 3


def raw_sig(w, signer, made_with, data):
    """Signature BYTES made by the real key over `data` (RSA: under the hash `made_with`)."""
    key = (signer, made_with, data)
    if key in w._sigcache:
        return w._sigcache[key]
    k = w.signers[signer]
    if signer == "rsa":
        s = k.key.sign(data, w.padding.PKCS1v15(), w.hashcls[made_with]())
    else:
        sm = k.sign_ssh_data(data)
        sm = w.Message(sm.asbytes())
        sm.get_binary()
        s = sm.get_binary()
    w._sigcache[key] = s
    return s


def sig_message(w, name, sigbytes):
    m = w.Message()
    m.add_string(name)
    m.add_string(sigbytes)
    return m.asbytes()


RSA_SIG_NAMES = ["ssh-rsa", "rsa-sha2-256", "rsa-sha2-512", "ssh-rsa" + CERT, "rsa-sha2-256" + CERT,
                 "rsa-sha2-512" + CERT, "ssh-ed25519", "rsa-sha2-384", ""]
EC_SIG_NAMES = ["ecdsa-sha2-nistp256", "ecdsa-sha2-nistp384", "ecdsa-sha2-nistp521", "ssh-rsa",
                "ecdsa-sha2-nistp256" + CERT]
ED_SIG_NAMES = ["ssh-ed25519", "ssh-ed25519" + CERT, "ssh-rsa"]


def sig_variants(signer):
    """(signature algorithm name, how the bytes were really made)"""
    if signer == "rsa":
        return [(n, h) for n in RSA_SIG_NAMES for h in ("sha1", "sha256", "sha512", "wrongdata")]
    names = ED_SIG_NAMES if signer == "ed" else EC_SIG_NAMES
    return [(n, h) for n in names for h in ("real", "wrongdata")]


def make_sig(w, signer, name, how, data):
    """Returns (sig message bytes, list of hash ids under which the bytes verify for that key)."""
    if how == "wrongdata":
        h = "sha256" if signer == "rsa" else "real"
        return sig_message(w, name, raw_sig(w, signer, h, b"other data " + data)), []
    s = raw_sig(w, signer, how, data)
    if signer == "rsa":
        valid = [HASH_ID[how]]
    elif signer == "ed":
        valid = [0]
    else:
        valid = [w.curve_hash[signer]]
    return sig_message(w, name, s), valid


def exn_code(e, w):
    p = w.paramiko
    if isinstance(e, p.SSHException):
        return 1
    for cls, code in ((KeyError, 7), (IndexError, 8), (ValueError, 9), (TypeError, 10), (AttributeError, 15)):
        if isinstance(e, cls):
            return code
    return 100


def key_canon(w, key):
    p = w.paramiko
    if isinstance(key, p.RSAKey):
        return [0] + list(key.get_name().encode())
    if isinstance(key, p.ECDSAKey):
        return [1] + list(key.ecdsa_curve.key_format_identifier.encode())
    if isinstance(key, p.Ed25519Key):
        return [2] + list(key.get_name().encode())
    return [99]


def new_transport(w, disabled=None, pref_keys=None, pref_pubkeys=None):
    from _loop import LoopSocket
    t = w.paramiko.Transport(LoopSocket(), disabled_algorithms=disabled or {})
    if pref_keys is not None:
        t._preferred_keys = pref_keys
    if pref_pubkeys is not None:
        t._preferred_pubkeys = pref_pubkeys
    return t


# --------------------------------------------------------------------------
# client: Transport._verify_key


def drive_client(w, t, neg, blob, sigbytes, data, held=None):
    """One _verify_key call; `held` = the host key object the transport already holds (a re-key)."""
    t.host_key_type = neg
    t.H = data
    t.host_key = held
    try:
        t._verify_key(blob, sigbytes)
    except Exception as e:  # noqa
        return [exn_code(e, w)], e
    return [0] + key_canon(w, t.host_key), None


def held_keys(w, label, blob):
    """Host keys a transport may already hold when a re-key presents `blob`: the very same key
    (parsed from the same blob), and another key."""
    p = w.paramiko
    out = []
    ty = blob_type(w, blob).decode("latin-1").replace(CERT, "")
    cls = p.RSAKey if ty == "ssh-rsa" else p.Ed25519Key if ty == "ssh-ed25519" else \
        p.ECDSAKey if ty.startswith("ecdsa-") else None
    if cls is not None:
        try:
            out.append(("same-key", cls(data=blob)))
        except Exception:
            pass
    out.append(("other-key", w.p384 if label != "p384" else w.ed))
    return out


def client_cases(ctx, w):
    T = w.paramiko.Transport
    negs = sorted(T._key_info.keys()) + ["ssh-dss"]
    data = b"H" * 32
    t = new_transport(w)
    cases = []
    for neg in negs:
        for label, signer, blob in w.blobs:
            bt = blob_type(w, blob)
            mc = mat_code(w, label, blob)
            variants = sig_variants(signer)
            if label in ("rsa-truncated", "unknown-type", "double-cert-type"):
                variants = variants[:2]
            for name, how in variants:
                sigb, valid = make_sig(w, signer, name, how, data)
                impl, exc = drive_client(w, t, neg, blob, sigb, data)
                case = {"negotiated": neg, "blob": label, "sig_name": name, "made_with": how}
                cases.append((case, (list(neg.encode()), (list(bt), mc), list(name.encode()), valid), impl))
                base = neg.replace(CERT, "")
                ctx.count(("client", neg, label, name, how), nontrivial=True,
                          kind="client-accept" if impl[0] == 0 else "client-reject")
                # ---- histories: the same call when the transport already holds a host key (re-key) ----
                for hl, held in held_keys(w, label, blob):
                    impl2, exc2 = drive_client(w, t, neg, blob, sigb, data, held=held)
                    ctx.count(("client-rekey", hl, neg, label, name, how), nontrivial=True, kind="client-rekey-" + hl)
                    rcase = dict(case, side="client", held_host_key=hl)
                    if impl2[0] == 0 and (name != base or not valid):
                        ctx.fail("rekey-verify-key-accepts-sha1-downgrade" if sha1_downgrade(name, base) else
                                 "rekey-verify-key-accepts-other-algorithm",
                                 "on a re-key (host key already held) Transport._verify_key accepted a signature "
                                 "whose algorithm (%r) is not the negotiated one (%r)" % (name, neg),
                                 case=rcase, expected="SSHException", observed="accepted")
                    elif impl2 != impl:
                        ctx.fail("verify-key-depends-on-held-host-key",
                                 "Transport._verify_key decides differently when the transport already holds a "
                                 "host key", case=rcase, expected=impl, observed=impl2)
                # ---- the property, stated over the real decision ----
                if impl[0] == 0 and name != base:
                    ctx.fail("verify-key-accepts-sha1-downgrade" if sha1_downgrade(name, base) else
                             "verify-key-accepts-other-algorithm",
                             "Transport._verify_key accepted a signature whose algorithm (%r) is not the "
                             "negotiated host key algorithm (%r)" % (name, neg),
                             case=dict(case, side="client"), expected="SSHException", observed="accepted")
                if impl[0] == 0 and valid and valid != [rfc_hash(w, signer, name)]:
                    ctx.fail("verify-key-wrong-hash",
                             "Transport._verify_key accepted a signature that only verifies under another hash "
                             "than the one its algorithm name stands for",
                             case=dict(case, side="client"), expected="SSHException", observed="accepted")
                if impl[0] == 0 and not valid:
                    ctx.fail("verify-key-accepts-invalid-signature",
                             "Transport._verify_key accepted a signature made over other data",
                             case=dict(case, side="client"), expected="SSHException", observed="accepted")
                if name == base and valid and impl[0] != 0 and mc == 0 and label not in ("unknown-type",
                                                                                       "double-cert-type"):
                    # an honest signature: must be accepted when the key class fits and the hash is the name's
                    honest = honest_expected(w, neg, label, signer, name, how)
                    if honest:
                        ctx.fail("verify-key-rejects-honest-signature",
                                 "Transport._verify_key rejected an honest signature",
                                 case=dict(case, side="client"), expected="accepted", observed=repr(exc))
    return cases


def rfc_hash(w, signer, sig_name):
    """Independent reference (RFC 4253 / 8332 / 5656 / 8709): the hash id an algorithm name stands for."""
    if signer == "rsa":
        return {"ssh-rsa": 1, "rsa-sha2-256": 256, "rsa-sha2-512": 512}.get(sig_name)
    if signer == "ed":
        return 0 if sig_name == "ssh-ed25519" else None
    return w.curve_hash[signer] if sig_name == w.curve_name[signer] else None


def sha1_downgrade(sig_name, base):
    """the signature names the SHA-1 algorithm although a SHA-2 one was agreed"""
    return sig_name.replace(CERT, "") == "ssh-rsa" and base in ("rsa-sha2-256", "rsa-sha2-512")


def honest_expected(w, alg, label, signer, name, how):
    """Is (key blob, signature) what an honest peer sends for algorithm `alg`?"""
    base = alg.replace(CERT, "")
    if signer == "rsa":
        return base in ("ssh-rsa", "rsa-sha2-256", "rsa-sha2-512") and name == base and \
            how == {"ssh-rsa": "sha1", "rsa-sha2-256": "sha256", "rsa-sha2-512": "sha512"}[base]
    if signer == "ed":
        return base == "ssh-ed25519" and name == base and how == "real"
    return base == w.curve_name[signer] and name == base and how == "real"


# --------------------------------------------------------------------------
# server: AuthHandler._parse_userauth_request, publickey branch

AUTH_SUCCESSFUL, AUTH_PARTIALLY_SUCCESSFUL, AUTH_FAILED = 0, 1, 2


def make_server_class(w):
    p = w.paramiko

    class Srv(p.ServerInterface):
        def __init__(self, cb_failed):
            self.cb_failed = cb_failed
            self.keys = []

        partial = False         # answer AUTH_PARTIALLY_SUCCESSFUL (publickey is one of several factors)

        def check_auth_publickey(self, username, key):
            self.keys.append(key)
            if self.cb_failed:
                return AUTH_FAILED
            return AUTH_PARTIALLY_SUCCESSFUL if self.partial else AUTH_SUCCESSFUL

        def get_allowed_auths(self, username):
            return "publickey"

    return Srv


def session_blob(w, sid, user, alg, keyblob):
    m = w.Message()
    m.add_string(sid)
    m.add_byte(b"\x32")
    m.add_string(user)
    m.add_string("ssh-connection")
    m.add_string("publickey")
    m.add_boolean(True)
    m.add_string(alg)
    m.add_string(keyblob)
    return m.asbytes()


def drive_server(w, Srv, t, declared, keyblob, cb_failed, attached, sigbytes, prior=(), partial=False, ext=None):
    """Returns canonical outcome (as Model run_server) of the LAST request.  `prior`: earlier publickey
    requests (declared, keyblob, attached, sigbytes) delivered to the SAME AuthHandler first (a key probe
    answered with PK_OK, a rejected signed request, ...)."""
    import paramiko.auth_handler as ah
    sent = []
    srv = Srv(cb_failed)
    srv.partial = partial
    # the transport is past KEXINIT: whether the client's KEXINIT carried the ext-info-c marker
    t._remote_ext_info = ext
    t.server_mode = True
    t.server_object = srv
    t.session_id = b"session-id-c07"
    t.active = True
    t._send_message = lambda m: sent.append(m.asbytes())
    t._auth_trigger = lambda: sent.append(b"\xfftrigger")
    t.close = lambda: sent.append(b"\xfeclose")
    h = ah.AuthHandler(t)
    t.auth_handler = h
    for pd, pb, pa, ps in prior:
        pm = w.Message()
        pm.add_string("user")
        pm.add_string("ssh-connection")
        pm.add_string("publickey")
        pm.add_boolean(pa)
        pm.add_string(pd)
        pm.add_string(pb)
        if pa:
            pm.add_string(ps)
        try:
            h._parse_userauth_request(w.Message(pm.asbytes()))
        except Exception:  # noqa
            pass
        if h.authenticated or not t.active or any(x[:1] == b"\xfe" for x in sent):
            return [997], srv, h          # the prior request already ended the exchange
        del sent[:]
        del srv.keys[:]
    m = w.Message()
    m.add_string("user")
    m.add_string("ssh-connection")
    m.add_string("publickey")
    m.add_boolean(attached)
    m.add_string(declared)
    m.add_string(keyblob)
    if attached:
        m.add_string(sigbytes)
    try:
        h._parse_userauth_request(w.Message(m.asbytes()))
    except Exception as e:  # noqa
        return [exn_code(e, w) + 1000], srv, h
    types = [s[0] for s in sent]
    if types[:1] == [1]:
        return [1], srv, h
    if types[:1] == [60]:
        return [3], srv, h
    if types[:1] == [52]:
        return [0] + key_canon(w, srv.keys[-1]), srv, h
    if types[:1] == [51]:
        fm = w.Message(sent[0][1:])
        fm.get_text()
        if fm.get_boolean():
            # USERAUTH_FAILURE with partial_success=True: the public-key factor was ACCEPTED (the callback's
            # AUTH_PARTIALLY_SUCCESSFUL stands), exactly like PkVerified in the model
            srv.partial_granted = True
            return [0] + key_canon(w, srv.keys[-1]), srv, h
        return ([2] if cb_failed and srv.keys else [4]), srv, h
    return [998] + types, srv, h


SERVER_CONFIGS = [
    [],
    ["ssh-rsa"],
    ["rsa-sha2-512"],
    ["ssh-rsa", "rsa-sha2-256", "rsa-sha2-512"],
    ["ecdsa-sha2-nistp384"],
    ["ssh-ed25519", "ecdsa-sha2-nistp256"],
]


def server_cases(ctx, w):
    T = w.paramiko.Transport
    Srv = make_server_class(w)
    declareds = sorted(T._key_info.keys()) + ["ssh-dss", "ssh-rsa" + CERT + CERT]
    default = list(T._preferred_pubkeys)
    cases = []
    full = True
    for ci, dis in enumerate(SERVER_CONFIGS):
        t = new_transport(w, {"pubkeys": dis})
        enabled = [x for x in default if x not in dis]
        for declared in declareds:
            for label, signer, blob in w.blobs:
                bt = blob_type(w, blob)
                mc = mat_code(w, label, blob)
                variants = sig_variants(signer)
                if label in ("rsa-truncated", "unknown-type", "double-cert-type"):
                    variants = variants[:2]
                for vi, (name, how) in enumerate(variants):
                    # callback / probe variations ride along on a deterministic subset
                    cbf = (vi % 7 == 3)
                    att = not (vi % 5 == 4)
                    if not ctx.thorough and ci >= 1 and ctx.rng.random() > 0.15:
                        full = False
                        continue
                    data = session_blob(w, b"session-id-c07", "user", declared, blob)
                    sigb, valid = make_sig(w, signer, name, how, data)
                    part = (vi % 3 == 1)        # the application answers AUTH_PARTIALLY_SUCCESSFUL
                    ext = "ext-info-c" if (vi + ci) % 2 else None      # a client with / without EXT_INFO support
                    impl, srv, h = drive_server(w, Srv, t, declared, blob, cbf, att, sigb, partial=part, ext=ext)
                    case = {"disabled_pubkeys": dis, "declared": declared, "blob": label, "sig_name": name,
                            "made_with": how, "cb_failed": cbf, "sig_attached": att, "callback_partial": part,
                            "client_ext_info": ext}
                    cases.append((case, ((([list(x.encode()) for x in default]),
                                          [list(x.encode()) for x in dis]),
                                         list(declared.encode()), (list(bt), mc), (cbf, att),
                                         list(name.encode()), valid), impl))
                    ctx.count(("server", tuple(dis), declared, label, name, how, cbf, att, part, ext), nontrivial=True,
                              kind={0: "server-verified", 1: "server-disconnect", 2: "server-refused",
                                    3: "server-probe-ok", 4: "server-sig-rejected"}.get(impl[0], "server-other"))
                    base = declared.replace(CERT, "")
                    granted = h.authenticated or getattr(srv, "partial_granted", False)
                    granted_txt = "USERAUTH_SUCCESS" if h.authenticated else \
                        "USERAUTH_FAILURE with partial_success=True (public-key factor accepted)"
                    if impl[0] == 0 or granted:
                        if name != base:
                            ctx.fail("userauth-accepts-sha1-downgrade" if sha1_downgrade(name, base) else
                                     "userauth-accepts-other-algorithm",
                                     "server accepted a publickey signature whose algorithm (%r) is not the one "
                                     "declared in the request (%r)" % (name, declared),
                                     case=dict(case, side="server"), expected="USERAUTH_FAILURE",
                                     observed=granted_txt)
                        if base not in enabled:
                            ctx.fail("userauth-accepts-disabled-algorithm",
                                     "server accepted a publickey request declaring a disabled algorithm",
                                     case=dict(case, side="server"), expected="disconnect",
                                     observed=granted_txt)
                        if name not in enabled:
                            ctx.fail("userauth-accepts-disabled-signature-algorithm",
                                     "server accepted a signature made with a disabled algorithm (%r)" % name,
                                     case=dict(case, side="server"), expected="USERAUTH_FAILURE",
                                     observed=granted_txt)
                        if valid and valid != [rfc_hash(w, signer, name)]:
                            ctx.fail("userauth-wrong-hash",
                                     "server accepted a signature that only verifies under another hash than the "
                                     "one its algorithm name stands for",
                                     case=dict(case, side="server"), expected="USERAUTH_FAILURE",
                                     observed=granted_txt)
                        if not valid or cbf or not att:
                            ctx.fail("userauth-accepts-without-proof",
                                     "server granted publickey auth without a valid signature / approval",
                                     case=dict(case, side="server"), expected="USERAUTH_FAILURE",
                                     observed=granted_txt)
                    if base not in enabled and (srv.keys or impl[0] != 1):
                        ctx.fail("userauth-disabled-algorithm-not-disconnected",
                                 "a request declaring a disabled / unknown algorithm reached the callback",
                                 case=dict(case, side="server"), expected="disconnect", observed=impl)
                    if (impl[0] != 0 and att and not cbf and valid and mc == 0 and base in enabled and
                            label not in ("rsa-truncated", "unknown-type", "double-cert-type") and
                            honest_expected(w, declared, label, signer, name, how) and
                            declared in T._key_info):
                        ctx.fail("userauth-rejects-honest-signature",
                                 "server rejected an honest publickey signature",
                                 case=dict(case, side="server"), expected="USERAUTH_SUCCESS", observed=impl)
    return cases, full


def server_histories(ctx, w):
    """Two publickey requests on ONE AuthHandler: a first request (key probe answered PK_OK, or a signed request
    that is rejected) naming one algorithm, then a signed request for the same / another key blob naming
    another algorithm.  The second decision must be the one a fresh handler takes (the model is stateless
    per request), and the property is checked on it directly."""
    T = w.paramiko.Transport
    Srv = make_server_class(w)
    default = list(T._preferred_pubkeys)
    fam = {"rsa": ["ssh-rsa", "rsa-sha2-256", "rsa-sha2-512"],
           "p256": ["ecdsa-sha2-nistp256"], "p384": ["ecdsa-sha2-nistp384"], "p521": ["ecdsa-sha2-nistp521"],
           "ed": ["ssh-ed25519"]}
    blobs = [b for b in w.blobs if b[0] in ("rsa", "rsa-cert", "p256", "p384", "ed")]
    n = 0
    for ci, dis in enumerate(SERVER_CONFIGS):
        t = new_transport(w, {"pubkeys": dis})
        enabled = [x for x in default if x not in dis]
        for label, signer, blob in blobs:
            firsts = [a for a in fam[signer] if a in enabled]
            seconds = fam[signer] + [fam[signer][0] + CERT, "ssh-dss"] + \
                (["ecdsa-sha2-nistp256"] if signer == "p384" else [])
            for first in firsts:
                for kind in ("probe", "rejected-signed"):
                    for second in seconds:
                        for name, how in sig_variants(signer):
                            if name not in fam[signer] or how == "wrongdata":
                                continue
                            if not ctx.thorough and signer == "rsa" and ci >= 2 and ctx.rng.random() > 0.25:
                                continue
                            data = session_blob(w, b"session-id-c07", "user", second, blob)
                            sigb, valid = make_sig(w, signer, name, how, data)
                            if kind == "probe":
                                prior = [(first, blob, False, b"")]
                            else:
                                d1 = session_blob(w, b"session-id-c07", "user", first, blob)
                                prior = [(first, blob, True, make_sig(w, signer, first, "wrongdata", d1)[0])]
                            hext = "ext-info-c" if n % 2 else None
                            fresh, _, _ = drive_server(w, Srv, t, second, blob, False, True, sigb, ext=hext)
                            impl, srv, h = drive_server(w, Srv, t, second, blob, False, True, sigb, prior=prior, ext=hext)
                            n += 1
                            case = {"side": "server-history", "disabled_pubkeys": dis, "blob": label,
                                    "first_request": kind, "first_declared": first, "declared": second,
                                    "sig_name": name, "made_with": how, "client_ext_info": hext}
                            ctx.count(("server-history", tuple(dis), label, first, kind, second, name, how),
                                      nontrivial=True, kind="server-history-" + kind)
                            base = second.replace(CERT, "")
                            if impl[0] == 0 or h.authenticated:
                                if base not in enabled or name not in enabled:
                                    ctx.fail("history-userauth-accepts-disabled-algorithm",
                                             "after an earlier request naming %r the server accepted a signed request "
                                             "declaring / signed with a disabled algorithm (%r / %r)"
                                             % (first, second, name), case=case, expected="disconnect",
                                             observed="USERAUTH_SUCCESS")
                                elif name != base:
                                    ctx.fail("history-userauth-accepts-other-algorithm",
                                             "after an earlier request the server accepted a signature whose algorithm "
                                             "is not the declared one", case=case, expected="USERAUTH_FAILURE",
                                             observed="USERAUTH_SUCCESS")
                                elif valid != [rfc_hash(w, signer, name)]:
                                    ctx.fail("history-userauth-wrong-hash", "signature accepted under another hash",
                                             case=case, expected="USERAUTH_FAILURE", observed="USERAUTH_SUCCESS")
                            if impl != fresh and impl != [997]:
                                ctx.fail("userauth-depends-on-earlier-request",
                                         "the publickey decision differs from the one a fresh AuthHandler takes for "
                                         "the same request", case=case, expected=fresh, observed=impl)
    return n


# --------------------------------------------------------------------------
# preference lists


def prefs_cases(ctx, w, n):
    T = w.paramiko.Transport
    pool = list(T._preferred_keys) + ["x-custom", "ssh-dss"]
    cases = []
    for i in range(n):
        rng = ctx.rng
        if i % 3 == 0:
            dk, dp = list(T._preferred_keys), list(T._preferred_pubkeys)
        else:
            dk = rng.sample(pool, rng.randrange(0, len(pool)))
            dp = rng.sample(pool, rng.randrange(0, len(pool)))
        disk = rng.sample(pool, rng.randrange(0, 5))
        disp = rng.sample(pool, rng.randrange(0, 5))
        t = new_transport(w, {"keys": disk, "pubkeys": disp}, pref_keys=tuple(dk), pref_pubkeys=tuple(dp))
        pk, pp = list(t.preferred_keys), list(t.preferred_pubkeys)
        impl = []
        for x in pk:
            impl += list(x.encode()) + [-2]
        impl += [-1]
        for x in pp:
            impl += list(x.encode()) + [-2]
        enc = lambda l: [list(x.encode()) for x in l]  # noqa
        cases.append(({"keys": dk, "disabled_keys": disk, "pubkeys": dp, "disabled_pubkeys": disp},
                      (enc(dk), enc(disk), enc(dp), enc(disp)), impl))
        ctx.count(("prefs", tuple(dk), tuple(disk), tuple(dp), tuple(disp)), nontrivial=bool(dk or dp),
                  kind="prefs")
        for x in pk:
            if x.replace(CERT, "") in disk:
                ctx.fail("preferred-keys-contains-disabled", "preferred_keys lists a disabled algorithm",
                         case=cases[-1][0], observed=pk)
        for x in pp:
            if x in disp:
                ctx.fail("preferred-pubkeys-contains-disabled", "preferred_pubkeys lists a disabled algorithm",
                         case=cases[-1][0], observed=pp)
    return cases


# --------------------------------------------------------------------------
# <key>.verify_ssh_sig called DIRECTLY (public API) with near-miss labels over a genuine signature


def near_miss_labels(good, others):
    g = good
    out = [g, g + CERT, g + CERT + CERT, CERT, g.upper(), g.capitalize(), g + "\x00", g + " ", " " + g, g + "\n",
           g[:-1], g + "x", g[1:], "", g.replace("-", "_"), g + "," + g, g + "\x00" + CERT]
    return out + [o for o in others if o != g] + [o + CERT for o in others]


def verify_direct_cases(ctx, w):
    p = w.paramiko
    data = b"data signed for a direct verify_ssh_sig call"
    fams = {"rsa": ["ssh-rsa", "rsa-sha2-256", "rsa-sha2-512"], "p256": ["ecdsa-sha2-nistp256"],
            "p384": ["ecdsa-sha2-nistp384"], "p521": ["ecdsa-sha2-nistp521"], "ed": ["ssh-ed25519"]}
    everything = sorted({n for v in fams.values() for n in v})
    rows = []
    blobs = {label: blob for label, signer, blob in w.blobs}
    for signer, key in sorted(w.signers.items()):
        # the verifying object: the private key object, a public key parsed from the wire blob, a cert-loaded key
        verifiers = [("private-key-object", key)]
        for lab in [l for l, sg, _ in w.blobs if sg == signer and l not in ("rsa-truncated", "unknown-type",
                                                                           "double-cert-type")]:
            try:
                verifiers.append(("parsed:" + lab, type(key)(data=blobs[lab])))
            except Exception:
                pass
        hows = ("sha1", "sha256", "sha512") if signer == "rsa" else ("real",)
        for how in hows:
            sigbytes = raw_sig(w, signer, how, data)
            valid = [HASH_ID[how]] if signer == "rsa" else [0] if signer == "ed" else [w.curve_hash[signer]]
            for good in fams[signer]:
                for lab in near_miss_labels(good, everything) + ["\xff\xfe" + good]:
                    raw = lab.encode("latin-1") if lab.startswith("\xff") else lab.encode("utf-8")
                    m = w.Message()
                    m.add_string(raw)
                    m.add_string(sigbytes)
                    for vname, vk in verifiers:
                        try:
                            res = bool(vk.verify_ssh_sig(data, w.Message(m.asbytes())))
                        except Exception as e:  # noqa  (an exception is a rejection here; robustness is C35's)
                            res = False
                        # reference: ECDSA / Ed25519 accept exactly their own identifier; RSA what its HASHES table
                        # maps to the hash the signature was really made with
                        if signer == "rsa":
                            hcls = p.RSAKey.HASHES.get(lab)
                            expect = hcls is not None and hcls is w.hashcls[how]
                        else:
                            expect = lab == fams[signer][0]
                        case = {"side": "verify-direct", "key": signer, "verifier": vname, "label": lab,
                                "made_with": how}
                        ctx.count(("verify-direct", signer, vname, lab, how), nontrivial=True,
                                  kind="verify-direct-" + signer)
                        if res and not expect:
                            ctx.fail("verify-ssh-sig-accepts-mislabelled-signature",
                                     "%s.verify_ssh_sig returned True for a genuine signature whose algorithm label "
                                     "%r is not the key's own algorithm name" % (type(vk).__name__, lab), case=case,
                                     expected=False, observed=True)
                        if expect and not res:
                            ctx.fail("verify-ssh-sig-rejects-genuine-signature",
                                     "%s.verify_ssh_sig rejected a genuine, correctly labelled signature"
                                     % type(vk).__name__, case=case, expected=True, observed=False)
                    if not lab.startswith("\xff") and "\x00" not in lab:
                        cls = 0 if signer == "rsa" else 2 if signer == "ed" else 1
                        ident = "ssh-rsa" if signer == "rsa" else fams[signer][0]
                        rows.append(({"key": signer, "label": lab, "made_with": how},
                                     (cls, list(ident.encode()), list(lab.encode()), valid),
                                     [1 if bool(verifiers[0][1].verify_ssh_sig(data, w.Message(m.asbytes()))) else 0]))
    return rows


# --------------------------------------------------------------------------
# the client's host key algorithm choice: real Transport._parse_kex_init on crafted server KEXINITs


def kexinit_payload(lists):
    import struct
    out = b"\x07" * 16
    for l in list(lists) + [[], []]:
        body = ",".join(l).encode()
        out += struct.pack(">I", len(body)) + body
    return out + b"\x00" + struct.pack(">I", 0)


def negotiate_cases(ctx, w, n):
    """(disabled keys, _preferred_keys, server's host key list) -> host_key_type or IncompatiblePeer"""
    p = w.paramiko
    T = p.Transport
    from _loop import LoopSocket
    default = list(T._preferred_keys)
    rsa3 = ["rsa-sha2-512", "rsa-sha2-256", "ssh-rsa"]
    rows = []
    enc = lambda l: [list(x.encode()) for x in l]  # noqa
    for i in range(n):
        rng = ctx.rng
        pk = default if i % 3 != 2 else rng.choice([rsa3, ["ssh-ed25519"], ["ssh-rsa"]])   # connect(hostkey=) lists
        dis = rng.sample(default, rng.randrange(0, 5)) if i % 4 else rng.choice([["ssh-rsa"], rsa3[:2], rsa3])
        mode = i % 5
        if mode == 0:
            sl = list(dis) or ["ssh-dss"]                         # ONLY disabled algorithms (a legacy / hostile server)
        elif mode == 1:
            sl = list(dis) + rng.sample(default, 2)               # disabled ones first
        elif mode == 2:
            sl = [x + CERT for x in rng.sample(default, 2)] + ["ssh-dss"]
        elif mode == 3:
            sl = [x + CERT for x in dis] + list(dis)              # cert forms of disabled algorithms
        else:
            sl = rng.sample(default + ["ssh-dss", "x509v3-sign-rsa"], rng.randrange(0, 6))
        a, b = LoopSocket(), LoopSocket()
        a.link(b)
        t = T(a, disabled_algorithms={"keys": list(dis)})
        t._preferred_keys = tuple(pk)
        lists = [list(t.preferred_kex), sl, list(t.preferred_ciphers), list(t.preferred_ciphers),
                 list(t.preferred_macs), list(t.preferred_macs), ["none"], ["none"]]
        m = w.Message(kexinit_payload(lists))
        m.seqno = 0
        try:
            t._parse_kex_init(m)
            impl = [0] + list(t.host_key_type.encode())
            got = t.host_key_type
        except p.ssh_exception.IncompatiblePeer:
            impl, got = [2], None
        except Exception as e:  # noqa
            impl, got = [exn_code(e, w)], repr(e)
        case = {"side": "client-negotiation", "preferred_keys": pk, "disabled_keys": dis, "server_offers": sl,
                "host_key_type": got}
        rows.append((case, (enc(pk), enc(dis), enc(sl)), impl))
        ctx.count(("negotiate", tuple(pk), tuple(dis), tuple(sl)), nontrivial=True, kind="client-negotiate-mode%d" % mode)
        if impl[0] == 0:
            base = got.replace(CERT, "")
            if base in dis or base not in pk or got not in sl:
                ctx.fail("negotiated-disabled-host-key-algorithm",
                         "the client agreed on host key algorithm %r which it has disabled / does not prefer / the "
                         "server did not offer (Transport._verify_key then demands exactly this algorithm)" % got,
                         case=case, expected="IncompatiblePeer or an enabled algorithm", observed=got)
        elif impl[0] == 2 and any(x in sl for x in t.preferred_keys):
            ctx.fail("negotiation-refused-common-algorithm", "IncompatiblePeer although a common enabled host key "
                     "algorithm exists", case=case, observed="IncompatiblePeer")
        try:
            t.close()
        except Exception:
            pass
    return rows


# --------------------------------------------------------------------------
# loopback oracle: a peer that signs with another algorithm than the agreed one


def evil_rsa_class(w):
    p = w.paramiko

    class EvilRSA(p.RSAKey):
        forced = "ssh-rsa"

        def sign_ssh_data(self, data, algorithm=None):
            return p.RSAKey.sign_ssh_data(self, data, self.forced)

    return EvilRSA


def loop_pair(w, client_disabled, server_disabled, host_key, server_iface=None):
    from _loop import LoopSocket
    p = w.paramiko
    a, b = LoopSocket(), LoopSocket()
    a.link(b)

    class RecTransport(p.Transport):
        """records the peer's KEXINIT (the attribute is cleared once NEWKEYS arrives)"""
        c07_offer = None

        def _parse_kex_init(self, m):
            r = p.Transport._parse_kex_init(self, m)
            self.c07_offer = bytes(self.remote_kex_init)
            return r

    tc = RecTransport(a, disabled_algorithms=client_disabled)
    ts = p.Transport(b, disabled_algorithms=server_disabled)
    for k in (host_key if isinstance(host_key, (list, tuple)) else [host_key]):
        ts.add_server_key(k)
    return tc, ts


def offered_host_keys(w, tc):
    m = w.Message(tc.c07_offer[17:])
    m.get_list()
    return m.get_list()


def handshake(w, tc, ts, Srv):
    ev = threading.Event()
    ts.start_server(ev, Srv(False))
    st, v = with_watchdog(lambda: tc.start_client(timeout=15), 20)
    return st, v


def loop_oracle(ctx, w):
    p = w.paramiko
    Srv = make_server_class(w)
    Evil = evil_rsa_class(w)
    neg_cases = []
    T = p.Transport

    def finish(*ts):
        for t in ts:
            try:
                t.close()
            except Exception:
                pass

    # ---- host key signatures ----
    scen = [
        # (client disabled keys, forced signature algorithm or None (honest), expected accepted)
        ([], None, True),
        (["ssh-rsa"], None, True),
        (["rsa-sha2-512", "rsa-sha2-256"], None, True),
        (["ssh-rsa"], "ssh-rsa", False),
        ([], "ssh-rsa", False),
        (["rsa-sha2-512"], "rsa-sha2-512", False),
        (["ssh-rsa", "rsa-sha2-512"], "ssh-rsa", False),
    ]
    for disk, forced, expect_ok in scen:
        hk = Evil(key=w.rsa.key) if forced else w.rsa
        if forced:
            hk.forced = forced
        cd = {"keys": disk + ["ssh-ed25519", "ecdsa-sha2-nistp256", "ecdsa-sha2-nistp384", "ecdsa-sha2-nistp521"]}
        tc, ts = loop_pair(w, cd, {}, hk)
        try:
            st, v = handshake(w, tc, ts, Srv)
            neg = tc.host_key_type
            case = {"side": "client-handshake", "client_disabled_keys": disk, "server_signs_with": forced or "honest",
                    "negotiated": neg}
            ctx.count(("loop-host", tuple(disk), forced), nontrivial=True, kind="loopback-hostkey")
            if st == "hang":
                ctx.fail("handshake-hang", "loopback handshake did not finish", case=case)
                continue
            ok = st == "ok"
            if neg is not None and tc.c07_offer:
                sl = offered_host_keys(w, tc)
                enc = lambda l: [list(x.encode()) for x in l]  # noqa
                neg_cases.append((dict(case, server_offer=sl),
                                  (enc(list(T._preferred_keys)), enc(cd["keys"]), enc(sl)),
                                  [0] + list(neg.encode())))
            if ok and forced and forced != (neg or "").replace(CERT, ""):
                ctx.fail("verify-key-accepts-other-algorithm",
                         "handshake completed although the server signed with %r while %r was negotiated"
                         % (forced, neg), case=case, expected="SSHException", observed="handshake completed")
            if ok != expect_ok and not (ok and forced):
                ctx.fail("handshake-honest-rejected" if expect_ok else "handshake-unexpected",
                         "loopback handshake outcome differs from the expected one", case=case,
                         expected=expect_ok, observed=repr(v) if not ok else "completed")
            if ok and neg.replace(CERT, "") in disk:
                ctx.fail("negotiated-disabled-host-key-algorithm", "a disabled host key algorithm was negotiated",
                         case=case, observed=neg)
        finally:
            finish(tc, ts)

    # ---- re-key: the server signs the SECOND exchange with another algorithm (same host key) ----
    for disk, forced in ((["ssh-rsa"], None), (["ssh-rsa"], "ssh-rsa"), ([], "ssh-rsa"), (["rsa-sha2-512"], "rsa-sha2-512")):
        cd = {"keys": disk + ["ssh-ed25519", "ecdsa-sha2-nistp256", "ecdsa-sha2-nistp384", "ecdsa-sha2-nistp521"]}
        tc, ts = loop_pair(w, cd, {}, w.rsa)
        try:
            st, v = handshake(w, tc, ts, Srv)
            case = {"side": "client-rekey", "client_disabled_keys": disk, "rekey_signed_with": forced or "honest",
                    "negotiated": tc.host_key_type}
            ctx.count(("loop-rekey", tuple(disk), forced), nontrivial=True, kind="loopback-rekey")
            if st != "ok":
                ctx.fail("handshake-honest-rejected", "honest handshake failed", case=case, observed=repr(v))
                continue
            first = tc.host_key_type
            if forced:
                ek = Evil(key=w.rsa.key)
                ek.forced = forced
                for k in list(ts.server_key_dict):
                    ts.server_key_dict[k] = ek
            st, v = with_watchdog(lambda: tc.renegotiate_keys(), 20)
            case["negotiated_rekey"] = tc.host_key_type
            alive = tc.is_active()
            if st == "hang":
                ctx.fail("rekey-hang", "re-key did not finish", case=case)
            elif forced and forced != (tc.host_key_type or first).replace(CERT, "") and st == "ok" and alive:
                ctx.fail("rekey-verify-key-accepts-sha1-downgrade"
                         if sha1_downgrade(forced, (tc.host_key_type or first).replace(CERT, "")) else
                         "rekey-verify-key-accepts-other-algorithm",
                         "re-key completed although the server signed it with %r while %r was negotiated"
                         % (forced, tc.host_key_type), case=case, expected="SSHException",
                         observed="re-key completed")
            elif not forced and (st != "ok" or not alive):
                ctx.fail("rekey-honest-rejected", "an honest re-key failed", case=case, expected="completed",
                         observed=repr(v))
        finally:
            finish(tc, ts)

    # ---- a legacy / hostile server: offers ONLY an algorithm the client disabled, ignores the client's list ----
    class DeafServer(p.Transport):
        only = "ssh-rsa"

        def _parse_kex_init(self, m):
            raw = bytes(m.asbytes())
            mm = w.Message(raw)
            mm.get_bytes(16)
            lists = [mm.get_list() for _ in range(10)]
            lists[1] = [self.only]                      # pretend the client offered what we want
            m2 = w.Message(kexinit_payload(lists[:8]))
            m2.seqno = getattr(m, "seqno", 0)
            r = p.Transport._parse_kex_init(self, m2)
            self.remote_kex_init = b"\x14" + raw        # the exchange hash covers what the client really sent
            return r

    from _loop import LoopSocket as _LS
    for disk, only in ((["ssh-rsa"], "ssh-rsa"), (["rsa-sha2-512", "rsa-sha2-256"], "rsa-sha2-512"), ([], "ssh-rsa")):
        a, b = _LS(), _LS()
        a.link(b)
        tc = p.Transport(a, disabled_algorithms={"keys": disk})
        ts = DeafServer(b)
        ts.only = only
        ts._preferred_keys = (only,)
        ts.add_server_key(w.rsa)
        try:
            st, v = handshake(w, tc, ts, Srv)
            case = {"side": "client-handshake", "client_disabled_keys": disk, "server_offers_only": only,
                    "negotiated": tc.host_key_type}
            ctx.count(("loop-deaf", tuple(disk), only), nontrivial=True, kind="loopback-deaf-server")
            if st == "hang":
                ctx.fail("handshake-hang", "loopback handshake did not finish", case=case)
            elif st == "ok" and only in disk:
                ctx.fail("negotiated-disabled-host-key-algorithm",
                         "handshake completed with host key algorithm %r although the client disabled it"
                         % tc.host_key_type, case=case, expected="IncompatiblePeer", observed="handshake completed")
            elif st != "ok" and only not in disk:
                ctx.fail("handshake-honest-rejected", "handshake with a server offering one enabled algorithm failed",
                         case=case, expected="completed", observed=repr(v))
        finally:
            finish(tc, ts)

    # ---- honest handshakes with the other key types ----
    for hk, nm in ((w.p256, "ecdsa-sha2-nistp256"), (w.p384, "ecdsa-sha2-nistp384"), (w.ed, "ssh-ed25519")):
        tc, ts = loop_pair(w, {}, {}, hk)
        try:
            st, v = handshake(w, tc, ts, Srv)
            ctx.count(("loop-host-honest", nm), nontrivial=True, kind="loopback-hostkey")
            if st != "ok" or tc.host_key_type != nm:
                ctx.fail("handshake-honest-rejected", "honest %s handshake failed" % nm,
                         case={"side": "client-handshake", "host_key": nm}, expected="completed",
                         observed=repr(v) if st != "ok" else tc.host_key_type)
        finally:
            finish(tc, ts)

    # ---- negotiated host key algorithm on generated configurations (server owns three key types) ----
    pool = list(T._preferred_keys)
    for i in range(40 if ctx.thorough else 8):
        disk = ctx.rng.sample(pool, ctx.rng.randrange(0, len(pool) - 1))
        sdis = ctx.rng.sample(pool, ctx.rng.randrange(0, 3))
        tc, ts = loop_pair(w, {"keys": disk}, {"keys": sdis}, [w.rsa, w.p256, w.ed])
        try:
            st, v = handshake(w, tc, ts, Srv)
            case = {"side": "client-handshake", "client_disabled_keys": disk, "server_disabled_keys": sdis,
                    "negotiated": tc.host_key_type}
            ctx.count(("loop-neg", tuple(disk), tuple(sdis)), nontrivial=True, kind="loopback-negotiate")
            if st == "hang":
                ctx.fail("handshake-hang", "loopback handshake did not finish", case=case)
                continue
            enc = lambda l: [list(x.encode()) for x in l]  # noqa
            if tc.c07_offer:
                sl = offered_host_keys(w, tc)
                if tc.host_key_type is not None:
                    impl = [0] + list(tc.host_key_type.encode())
                elif isinstance(v, p.ssh_exception.IncompatiblePeer):
                    impl = [2]
                else:
                    impl = None
                if impl is not None:
                    neg_cases.append((dict(case, server_offer=sl), (enc(pool), enc(disk), enc(sl)), impl))
            if st == "ok" and tc.host_key_type.replace(CERT, "") in disk:
                ctx.fail("negotiated-disabled-host-key-algorithm", "a disabled host key algorithm was negotiated",
                         case=case, observed=tc.host_key_type)
            common = [x for x in tc.preferred_keys if tc.c07_offer and x in offered_host_keys(w, tc)]
            if st != "ok" and not isinstance(v, p.ssh_exception.IncompatiblePeer) and common:
                ctx.fail("handshake-honest-rejected", "honest handshake failed", case=case, expected="completed",
                         observed=repr(v))
        finally:
            finish(tc, ts)

    # ---- public-key authentication ----
    ascen = [
        # (server disabled pubkeys, client disabled pubkeys, forced, expected authenticated)
        ([], [], None, True),
        (["ssh-rsa"], [], None, True),
        ([], ["rsa-sha2-512", "rsa-sha2-256"], None, True),
        (["ssh-rsa"], [], "ssh-rsa", False),
        ([], [], "ssh-rsa", False),
        (["rsa-sha2-512"], ["rsa-sha2-512"], "rsa-sha2-512", False),
    ]
    for sdis, cdis, forced, expect_ok in ascen:
        ck = Evil(key=w.rsa.key) if forced else w.rsa
        if forced:
            ck.forced = forced
        tc, ts = loop_pair(w, {"pubkeys": cdis}, {"pubkeys": sdis}, w.ed)
        try:
            st, v = handshake(w, tc, ts, Srv)
            case = {"side": "server-auth", "server_disabled_pubkeys": sdis, "client_disabled_pubkeys": cdis,
                    "client_signs_with": forced or "honest"}
            ctx.count(("loop-auth", tuple(sdis), tuple(cdis), forced), nontrivial=True, kind="loopback-auth")
            if st != "ok":
                ctx.fail("handshake-honest-rejected", "honest ed25519 handshake failed", case=case, observed=repr(v))
                continue
            st, v = with_watchdog(lambda: tc.auth_publickey("user", ck), 20)
            declared = getattr(tc, "_agreed_pubkey_algorithm", None)
            case["declared"] = declared
            authed = st == "ok" and ts.is_authenticated()
            if st == "hang":
                ctx.fail("auth-hang", "loopback authentication did not finish", case=case)
            elif authed and forced and forced != (declared or "").replace(CERT, ""):
                ctx.fail("userauth-accepts-other-algorithm",
                         "server authenticated a client that declared %r but signed with %r" % (declared, forced),
                         case=case, expected="AuthenticationException", observed="authenticated")
            elif authed != expect_ok and not (authed and forced):
                ctx.fail("auth-honest-rejected" if expect_ok else "auth-unexpected",
                         "loopback authentication outcome differs from the expected one", case=case,
                         expected=expect_ok, observed=repr(v) if st != "ok" else authed)
        finally:
            finish(tc, ts)
    return neg_cases


# --------------------------------------------------------------------------


class NameTable:
    """Names / name lists are defined once per case file (Definition nK / lK) so that each case is a
    handful of identifiers: type-checking long numeral lists dominates the model run otherwise."""

    def __init__(self):
        self.names = {}
        self.lists = {}

    def n(self, name):
        k = tuple(name)
        if k not in self.names:
            self.names[k] = "n%d" % len(self.names)
        return self.names[k]

    def l(self, names):
        k = tuple(tuple(x) for x in names)
        if k not in self.lists:
            refs = [self.n(x) for x in k]
            self.lists[k] = ("l%d" % len(self.lists), refs)
        return self.lists[k][0]

    def imports(self):
        out = ["From PV Require Import C07.", "Open Scope Z_scope."]
        for k, v in self.names.items():
            out.append("Definition %s : name := %s." % (v, coq(list(k))))
        for k, (v, refs) in self.lists.items():
            out.append("Definition %s : list name := [%s]." % (v, ";".join(refs)))
        return "\n".join(out)


def coq_client(nt, c):
    neg, (bt, mc), sa, valid = c
    return "(%s, (%s, %d), %s, %s)" % (nt.n(neg), nt.n(bt), mc, nt.n(sa), coq(valid))


def coq_server(nt, c):
    (dp, dis), decl, (bt, mc), (cbf, att), sa, valid = c
    return "((%s, %s), %s, (%s, %d), (%s, %s), %s, %s)" % (
        nt.l(dp), nt.l(dis), nt.n(decl), nt.n(bt), mc, coq(cbf), coq(att), nt.n(sa), coq(valid))


def model(ctx, run_fn, case_type, cases, render):
    """never lets a model / translator failure stop the implementation-level oracle"""
    nt = NameTable()
    try:
        texts = [(render(nt, c), impl) for _, c, impl in cases]
        return ctx.model_mismatches(run_fn, case_type, texts, imports=nt.imports(), shard=400)
    except Exception as e:  # noqa
        ctx.corr_broken.append({"what": "model %s could not be evaluated" % run_fn, "error": repr(e)[-600:]})
        return []


def run(ctx):
    ctx.rule = ("enumeration: client = every Transport._key_info name (+ an unknown one) x 11 key blobs (RSA / "
                "ECDSA p256,p384,p521 / Ed25519, plain and cert, truncated, foreign type) x signature name "
                "(RSA: 6 HASHES names, 3 foreign; EC: 5; Ed: 3) x how the bytes were really made (RSA: SHA-1, "
                "SHA-256, SHA-512, other data; else real / other data); server = the same x 6 disabled-pubkeys "
                "sets (first set fully enumerated in the quick tier, the others sampled at 15 %; thorough: all) "
                "with callback refusal / key probe riding along; two-request histories on one AuthHandler (key probe or rejected signed request naming one algorithm, then a signed request naming another; second decision compared with a fresh handler's); every client case repeated with the transport already holding the same / another host key (re-key); every key class's verify_ssh_sig called directly (private-key object, key parsed from the wire blob, cert-loaded key) with near-miss algorithm labels (cert suffix once / twice, other curve / family, case, trailing NUL / space / newline, truncation, non-UTF-8) over genuine signatures; the client's host key choice on the real _parse_kex_init over generated (preferred, disabled, server offer) incl. servers offering only disabled algorithms; application callbacks answering AUTH_PARTIALLY_SUCCESSFUL; preference lists on generated configurations; "
                "loopback handshakes / authentications against a peer signing with another algorithm.  A case "
                "is non-trivial when distinct; every case reaches a key-class / name / hash branch.")
    ctx.trusted += ["model coq/Model/C07.v is hand-written; tied to rsakey.py / ecdsakey.py / ed25519key.py / "
                    "transport.py / auth_handler.py by gen/c07.py tables and this differential run",
                    "the signature primitive is an oracle: the model is told under which hash ids the case's "
                    "signature bytes verify (the harness made them with the real keys under a known hash)",
                    "key material parsing outcome (kb_mat) is computed with the real key classes and fed to the "
                    "model as an input"]
    ctx.assumptions += ["pv (signature primitive) is universally quantified in every theorem; no unforgeability "
                        "claim is made",
                        "str.replace of the cert suffix is modelled by strip_cert (left-to-right, non-overlapping)"]
    ctx.prove()
    import logging
    logging.getLogger("paramiko").setLevel(logging.CRITICAL + 10)     # expected failures are noisy
    w = build_world(ctx)

    # ---- implementation-level oracles first (they do not depend on the model) ----
    cc = client_cases(ctx, w)
    sc, full = server_cases(ctx, w)
    nh = server_histories(ctx, w)
    ctx.log("server histories (probe / rejected request, then signed request): %d" % nh)
    pc = prefs_cases(ctx, w, 300 if ctx.thorough else 60)
    nc = loop_oracle(ctx, w)
    nc += negotiate_cases(ctx, w, 400 if ctx.thorough else 80)
    vc = verify_direct_cases(ctx, w)

    # ---- model comparisons (independent coqc runs, evaluated concurrently: each is dominated by start-up) ----
    import threading
    full_cc, full_sc = cc, sc
    if not ctx.thorough:
        # quick tier: the oracles above looked at every case; the model is compared on every second one
        # (alternating with the seed), all of them in the thorough tier
        cc = cc[ctx.seed % 2::2]
        sc = sc[ctx.seed % 2::2]
    jobs = [
        ("run_client", "(name * (name * Z) * name * list Z)", cc, coq_client,
         "Transport._verify_key differs from model verify_key"),
        ("run_server", "((list name * list name) * name * (name * Z) * (bool * bool) * name * list Z)", sc, coq_server,
         "AuthHandler publickey branch differs from model server_pubkey"),
        ("run_verify", "(Z * name * name * list Z)", vc,
         lambda nt, c: "(%d, %s, %s, %s)" % (c[0], nt.n(c[1]), nt.n(c[2]), coq(c[3])),
         "verify_ssh_sig (direct call) differs from model verify_ssh_sig"),
        ("run_prefs", "(list name * list name * list name * list name)", pc,
         lambda nt, c: "(%s, %s, %s, %s)" % tuple(nt.l(x) for x in c),
         "preferred_keys / preferred_pubkeys differ from the model"),
        ("run_negotiate", "(list name * list name * list name)", nc,
         lambda nt, c: "(%s, %s, %s)" % tuple(nt.l(x) for x in c),
         "negotiated host key algorithm differs from model negotiate_hostkey"),
    ]
    results = {}

    def work(j):
        results[j[0]] = model(ctx, j[0], j[1], j[2], j[3]) if j[2] else []

    threads = [threading.Thread(target=work, args=(j,)) for j in jobs]
    for th in threads:
        th.start()
    for th in threads:
        th.join()
    for fn, _, cases, _, what in jobs:
        for i in results.get(fn, [])[:3]:
            ctx.disagree(what, case=cases[i][0], impl=cases[i][2])
    cc, sc = full_cc, full_sc
    acc = [c for c in cc if c[2][0] == 0]
    if acc:
        ctx.sample({"verify_key": {"case": acc[0][0], "impl": acc[0][2]}})
    ctx.sample({"verify_key": {"case": cc[5][0], "impl": cc[5][2]}})
    acc = [c for c in sc if c[2][0] == 0]
    if acc:
        ctx.sample({"server_pubkey": {"case": acc[0][0], "impl": acc[0][2]}})
    ctx.exhaustive = bool(full and ctx.thorough)
    if nc:
        ctx.sample({"negotiate": {"case": nc[0][0], "impl": nc[0][2]}})


def replay(ctx, rep):
    """Re-run the one recorded case on the real code."""
    case = rep.get("case") or {}
    w = build_world(ctx)
    side = case.get("side")
    ctx.count(("replay", repr(sorted(case.items()))))
    ctx.count(("replay2", repr(sorted(case.items()))))
    blobs = {label: (signer, blob) for label, signer, blob in w.blobs}
    if side == "client" and case.get("blob") in blobs:
        signer, blob = blobs[case["blob"]]
        data = b"H" * 32
        sigb, valid = make_sig(w, signer, case["sig_name"], case["made_with"], data)
        held = dict(held_keys(w, case["blob"], blob)).get(case.get("held_host_key"))
        impl, exc = drive_client(w, new_transport(w), case["negotiated"], blob, sigb, data, held=held)
        ctx.log("replay client:", case, "->", impl, exc)
        base = case["negotiated"].replace(CERT, "")
        if impl[0] == 0 and (case["sig_name"] != base or not valid):
            ctx.fail(rep["key"], rep["what"], case=case, expected="SSHException", observed="accepted")
        elif impl[0] != 0 and rep["key"] == "verify-key-rejects-honest-signature":
            ctx.fail(rep["key"], rep["what"], case=case, expected="accepted", observed=repr(exc))
    elif side == "verify-direct":
        vc = verify_direct_cases(ctx, w)
        ctx.log("replay: %d direct verify_ssh_sig calls re-run" % len(vc))
    elif side == "server-history" and case.get("blob") in blobs:
        signer, blob = blobs[case["blob"]]
        Srv = make_server_class(w)
        t = new_transport(w, {"pubkeys": case["disabled_pubkeys"]})
        data = session_blob(w, b"session-id-c07", "user", case["declared"], blob)
        sigb, valid = make_sig(w, signer, case["sig_name"], case["made_with"], data)
        if case["first_request"] == "probe":
            prior = [(case["first_declared"], blob, False, b"")]
        else:
            d1 = session_blob(w, b"session-id-c07", "user", case["first_declared"], blob)
            prior = [(case["first_declared"], blob, True, make_sig(w, signer, case["first_declared"], "wrongdata", d1)[0])]
        hext = case.get("client_ext_info")
        fresh, _, _ = drive_server(w, Srv, t, case["declared"], blob, False, True, sigb, ext=hext)
        impl, srv, h = drive_server(w, Srv, t, case["declared"], blob, False, True, sigb, prior=prior, ext=hext)
        ctx.log("replay server history:", case, "->", impl, "fresh:", fresh)
        enabled = [x for x in w.paramiko.Transport._preferred_pubkeys if x not in case["disabled_pubkeys"]]
        base = case["declared"].replace(CERT, "")
        if (impl[0] == 0 and (base not in enabled or case["sig_name"] not in enabled or case["sig_name"] != base)) \
                or (impl != fresh and impl != [997]):
            ctx.fail(rep["key"], rep["what"], case=case, expected=fresh, observed=impl)
    elif side == "server" and case.get("blob") in blobs:
        signer, blob = blobs[case["blob"]]
        Srv = make_server_class(w)
        t = new_transport(w, {"pubkeys": case["disabled_pubkeys"]})
        data = session_blob(w, b"session-id-c07", "user", case["declared"], blob)
        sigb, valid = make_sig(w, signer, case["sig_name"], case["made_with"], data)
        impl, srv, h = drive_server(w, Srv, t, case["declared"], blob, case["cb_failed"], case["sig_attached"], sigb,
                                    partial=case.get("callback_partial", False), ext=case.get("client_ext_info"))
        ctx.log("replay server:", case, "->", impl)
        base = case["declared"].replace(CERT, "")
        enabled = [x for x in w.paramiko.Transport._preferred_pubkeys if x not in case["disabled_pubkeys"]]
        if impl[0] == 0 and (case["sig_name"] != base or base not in enabled or not valid):
            ctx.fail(rep["key"], rep["what"], case=case, expected="USERAUTH_FAILURE", observed="USERAUTH_SUCCESS")
        elif base not in enabled and (srv.keys or impl[0] != 1):
            ctx.fail(rep["key"], rep["what"], case=case, expected="disconnect", observed=impl)
        elif impl[0] != 0 and rep["key"] == "userauth-rejects-honest-signature":
            ctx.fail(rep["key"], rep["what"], case=case, expected="USERAUTH_SUCCESS", observed=impl)
    else:
        run(ctx)
