"""C24 -- a channel's pollable descriptor is readable exactly when recv would not block.

Proof: coq/Props/C24_props.v over coq/Model/C24.v (v1 = repaired code at lock granularity,
positive theorem by invariant over all interleavings; v0 = the unsynchronised code at statement
granularity, refuted by witness schedules).
Tie: a deterministic line-level scheduler (real threads, sys.settrace line events in
paramiko/pipe.py, one thread runs at a time) drives the real OrPipe / PosixPipe objects and a
real Channel through enumerated interleavings; select() with zero timeout at quiescence is
compared with the model run (vm_compute inside Coq) on the same schedule of critical sections,
and with the property stated directly over the observable buffers / flags (the oracle).
"""
import os
import re
import select
import sys
import threading

from common import coq

PID = "C24"
LEVEL_TEXT = ("Machine-checked proof (Coq, closed under the global context) that in the model of the repaired "
              "pipe.py / buffered_pipe.py event maintenance (critical sections of the shared OrPipe lock and the "
              "PosixPipe lock as atomic actions, buffer operations holding their own buffer lock, EOF/close "
              "holding the channel lock) every state reachable by any interleaving of any number of feeds, reads, "
              "empties, EOFs and closes satisfies an invariant which at every quiescent state gives: descriptor "
              "readable <-> stdout non-empty or stderr non-empty or EOF/closed; plus refutation witnesses "
              "(vm_compute) for the unsynchronised statement-level model of the original code. Tied to the source "
              "by a deterministic line-level scheduler run of the real objects compared with the model.")
LEVEL_NOTE = ("Partial: OS pipe and select() semantics are modelled (a byte counter; readable iff counter > 0); the "
              "identification of critical sections with model actions is checked by the scheduler-driven "
              "correspondence, not proved; Channel.close() closing the descriptor and WindowsPipe are outside the "
              "model; buffer contents are abstracted to empty / non-empty.")
TECHNIQUE = ("Coq invariant proof over an LTS (reflective case check) + vm_compute refutation witnesses + "
             "deterministic-scheduler correspondence and oracle on the real objects")

PIPE_FILE = os.path.join("paramiko", "pipe.py")
LOCK_FILES = (os.path.join("paramiko", "buffered_pipe.py"), os.path.join("paramiko", "channel.py"))

_WITH_RE = re.compile(r"^\s*with\s+([\w.]+)\s*:")
_ACQ_RE = re.compile(r"^\s*([\w.]+)\.acquire\(\)")
_READ_RE = re.compile(r"os\.read\(\s*self\._rfd|self\._rsock\.recv\(")

_src_cache = {}


def _src_line(filename, lineno):
    lines = _src_cache.get(filename)
    if lines is None:
        try:
            lines = open(filename).read().split("\n")
        except OSError:
            lines = []
        _src_cache[filename] = lines
    return lines[lineno - 1] if 0 < lineno <= len(lines) else ""


class _Abort(BaseException):
    pass


class Deadlock(Exception):
    pass


class Sched:
    """Runs callables on real threads, exactly one at a time.  Switch points: thread start, every
    line event in paramiko/pipe.py, and lock-acquire lines in buffered_pipe.py / channel.py.  A
    parked thread has not yet executed the line it is parked at."""

    def __init__(self, fns, lock_points=True):
        self.fns = fns
        self.n = len(fns)
        self.cv = threading.Condition()
        self.parked = {}            # t -> dict(func, line, text, frame)
        self.finished = set()
        self.cmd = {}               # t -> "go" | "probe"
        self.probe_result = {}
        self.abort = False
        self.exc = {}
        self.trace = []             # (t, func, line) for every executed traced line
        self.lock_points = lock_points
        self.threads = []

    # -- worker side -----------------------------------------------------------
    def _park(self, t, info):
        with self.cv:
            self.parked[t] = info
            self.cv.notify_all()
            while True:
                while t not in self.cmd and not self.abort:
                    self.cv.wait()
                if self.abort:
                    self.parked.pop(t, None)
                    raise _Abort()
                c = self.cmd.pop(t)
                if c == "probe":
                    self.probe_result[t] = self._probe(info)
                    self.cv.notify_all()
                    continue
                del self.parked[t]
                if info["func"] != "<start>":
                    self.trace.append((t, info["func"], info["line"]))
                return

    @staticmethod
    def _probe(info):
        fr = info["frame"]
        try:
            lk = eval(info["lock"], fr.f_globals, fr.f_locals)
            if lk.acquire(False):
                lk.release()
                return True
            return False
        except Exception:
            return True

    def _tracer(self, t):
        entered = set()

        def local(frame, event, arg):
            if event == "line":
                fn = frame.f_code.co_filename
                text = _src_line(fn, frame.f_lineno)
                info = {"func": frame.f_code.co_qualname, "line": frame.f_lineno, "text": text, "frame": frame,
                        "lock": None}
                m = _WITH_RE.match(text) or _ACQ_RE.match(text)
                if m and "lock" in m.group(1).lower():
                    key = (id(frame), frame.f_lineno)
                    if text.lstrip().startswith("with") and key in entered:
                        entered.discard(key)     # second event on a `with` line = leaving the block
                        info["exit"] = True
                    else:
                        if text.lstrip().startswith("with"):
                            entered.add(key)
                        info["lock"] = m.group(1)
                if fn.endswith(PIPE_FILE) or info["lock"]:
                    self._park(t, info)
            return local

        def glob(frame, event, arg):
            fn = frame.f_code.co_filename
            if fn.endswith(PIPE_FILE) or (self.lock_points and fn.endswith(LOCK_FILES)):
                return local
            return None
        return glob

    def _body(self, t):
        try:
            self._park(t, {"func": "<start>", "line": 0, "text": "", "frame": None, "lock": None})
            sys.settrace(self._tracer(t))
            try:
                self.fns[t]()
            finally:
                sys.settrace(None)
        except _Abort:
            pass
        except BaseException as e:  # noqa
            self.exc[t] = e
        finally:
            with self.cv:
                self.finished.add(t)
                self.parked.pop(t, None)
                self.cv.notify_all()

    # -- controller side -------------------------------------------------------
    def start(self):
        for t in range(self.n):
            th = threading.Thread(target=self._body, args=(t,), daemon=True)
            self.threads.append(th)
            th.start()
        self._settle()

    def _settle(self):
        with self.cv:
            while len(self.parked) + len(self.finished) < self.n or self.cmd:
                if not self.cv.wait(20.0):
                    raise RuntimeError("scheduler: a thread neither parked nor finished (untraced blocking?)")

    def alive(self):
        return [t for t in range(self.n) if t not in self.finished]

    def where(self, t):
        i = self.parked.get(t)
        return None if i is None else (i["func"], i["line"])

    def enabled(self, t):
        info = self.parked.get(t)
        if info is None:
            return False
        if _READ_RE.search(info["text"]):
            try:
                slf = info["frame"].f_locals["self"]
                fd = slf._rfd if hasattr(slf, "_rfd") else slf._rsock
                return bool(select.select([fd], [], [], 0)[0])
            except Exception:
                return True
        if info["lock"]:
            with self.cv:
                self.cmd[t] = "probe"
                self.probe_result.pop(t, None)
                self.cv.notify_all()
                while t not in self.probe_result:
                    self.cv.wait()
                return self.probe_result.pop(t)
        return True

    def step(self, t):
        with self.cv:
            self.cmd[t] = "go"
            self.cv.notify_all()
        self._settle()

    def stop(self):
        with self.cv:
            self.abort = True
            self.cv.notify_all()
        for th in self.threads:
            th.join(5.0)

    def run(self, choose):
        """choose(enabled_list, sched) -> thread id.  Returns the list of choices made."""
        made = []
        self.start()
        try:
            while True:
                al = self.alive()
                if not al:
                    return made
                en = [t for t in al if self.enabled(t)]
                if not en:
                    raise Deadlock([self.where(t) for t in al])
                t = choose(en, self)
                made.append(t)
                self.step(t)
        finally:
            self.stop()
