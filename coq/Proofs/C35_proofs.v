(* C35 — proofs over Model/C35.v *)
From Coq Require Import ZArith List Bool Lia ZifyBool.
From PV Require Import Bytes C39 C39_proofs C35_gen C35.
Import ListNotations.
Open Scope Z_scope.

Definition is_ed (k : keyobj) : bool := match k with KEd _ _ => true | _ => false end.

(* the library behaves as documented: verify returns, or raises its bad-signature exception;
   nacl additionally raises ValueError (wrong signature length), which Ed25519Key catches *)
Definition lib_documented (k : keyobj) (lib : libarg -> list Z -> lres) : Prop :=
  forall a d, lib a d = LAccept \/ lib a d = LInvalid \/ (is_ed k = true /\ lib a d = LValue).

Section P.
  Variable utf8_ok : list Z -> bool.
  Variable pub_of : Z -> Z.

  Lemma total k lib data msg :
    key_wf pub_of k -> lib_documented k lib ->
    exists b, verify_ssh_sig utf8_ok pub_of lib k data msg = Ok b.
  Proof.
    intros Hwf Hlib. unfold verify_ssh_sig.
    destruct (verify_step utf8_ok pub_of k msg) as [b|e|a] eqn:E.
    - eauto.
    - exfalso. destruct k as [bits priv pub|c sg v|sg v]; cbn [verify_step] in E.
      + unfold rsa_step, get_text in E.
        destruct (get_string msg 0) as [nm p1]. destruct (utf8_ok nm); [|discriminate].
        destruct (lookup nm rsa_hashes); [|discriminate].
        destruct (get_string msg p1). discriminate.
      + unfold ecdsa_step, get_text in E.
        destruct (get_string msg 0) as [nm p1]. destruct (utf8_ok nm); [|discriminate].
        destruct (negb (zlist_eqb nm (ecdsa_ident c))); [discriminate|].
        destruct (get_string msg p1) as [sig ?]. destruct (get_string sig 0) as [rb q1].
        destruct (get_string sig q1) as [sb q2].
        destruct (negb match get_remainder sig q2 with [] => true | _ => false end); [discriminate|].
        destruct ((inflate_long rb false <? 0) || (inflate_long sb false <? 0)); discriminate.
      + unfold ed_step, get_text in E.
        destruct (get_string msg 0) as [nm p1]. destruct (utf8_ok nm); [|discriminate].
        destruct (negb (zlist_eqb nm s_ed25519)); [discriminate|].
        destruct (get_string msg p1) as [sig ?].
        destruct sg, v; try discriminate. exact Hwf.
    - destruct (Hlib a data) as [H|[H|[He H]]]; rewrite H; cbn [map_lres]; eauto.
      destruct k; try discriminate. eauto.
  Qed.

  (* the names a key object accepts in a signature *)
  Definition accepts (k : keyobj) (nm : list Z) : bool :=
    match k with
    | KRsa _ _ _ => match lookup nm rsa_hashes with Some _ => true | None => false end
    | KEcdsa c _ _ => zlist_eqb nm (ecdsa_ident c)
    | KEd _ _ => zlist_eqb nm s_ed25519
    end.

  Lemma wrong_name_false k lib data msg :
    (let nm := fst (get_string msg 0) in utf8_ok nm = false \/ accepts k nm = false) ->
    verify_ssh_sig utf8_ok pub_of lib k data msg = Ok false.
  Proof.
    cbv zeta. intros H. unfold verify_ssh_sig.
    destruct k as [bits priv pub|c sg v|sg v]; cbn [verify_step accepts] in *.
    - unfold rsa_step, get_text. destruct (get_string msg 0) as [nm p1]. cbn [fst] in H.
      destruct (utf8_ok nm); [|reflexivity].
      destruct H as [H|H]; [discriminate|].
      destruct (lookup nm rsa_hashes); [discriminate|reflexivity].
    - unfold ecdsa_step, get_text. destruct (get_string msg 0) as [nm p1]. cbn [fst] in H.
      destruct (utf8_ok nm); [|reflexivity].
      destruct H as [H|H]; [discriminate|]. rewrite H. reflexivity.
    - unfold ed_step, get_text. destruct (get_string msg 0) as [nm p1]. cbn [fst] in H.
      destruct (utf8_ok nm); [|reflexivity].
      destruct H as [H|H]; [discriminate|]. rewrite H. reflexivity.
  Qed.

  (* the public token inside a library argument *)
  Definition arg_pub (a : libarg) : Z :=
    match a with ARsa p _ _ => p | AEcdsa p _ _ => p | AEd p _ => p end.

  Lemma step_uses_key_pub k msg a :
    verify_step utf8_ok pub_of k msg = Call a -> key_pub pub_of k = Some (arg_pub a).
  Proof.
    destruct k as [bits priv pub|c sg v|sg v]; cbn [verify_step key_pub].
    - unfold rsa_step, get_text. destruct (get_string msg 0) as [nm p1].
      destruct (utf8_ok nm); [|discriminate].
      destruct (lookup nm rsa_hashes); [|discriminate].
      destruct (get_string msg p1) as [sign ?]. intros H. injection H as <-.
      destruct priv; reflexivity.
    - unfold ecdsa_step, get_text. destruct (get_string msg 0) as [nm p1].
      destruct (utf8_ok nm); [|discriminate].
      destruct (negb (zlist_eqb nm (ecdsa_ident c))); [discriminate|].
      destruct (get_string msg p1) as [sig ?]. destruct (get_string sig 0) as [rb q1].
      destruct (get_string sig q1) as [sb q2].
      destruct (negb match get_remainder sig q2 with [] => true | _ => false end); [discriminate|].
      destruct ((inflate_long rb false <? 0) || (inflate_long sb false <? 0)); [discriminate|].
      intros H. injection H as <-. reflexivity.
    - unfold ed_step, get_text. destruct (get_string msg 0) as [nm p1].
      destruct (utf8_ok nm); [|discriminate].
      destruct (negb (zlist_eqb nm s_ed25519)); [discriminate|].
      destruct (get_string msg p1) as [sig ?].
      destruct sg, v; intros H; try discriminate; injection H as <-; reflexivity.
  Qed.

  (* True is answered only when the library accepted, under the key object's public half *)
  Lemma true_only_if_lib k lib data msg :
    verify_ssh_sig utf8_ok pub_of lib k data msg = Ok true ->
    exists a, verify_step utf8_ok pub_of k msg = Call a /\ lib a data = LAccept /\
              key_pub pub_of k = Some (arg_pub a).
  Proof.
    unfold verify_ssh_sig. destruct (verify_step utf8_ok pub_of k msg) as [b|e|a] eqn:E.
    - intros H. injection H as ->. exfalso.
      destruct k as [bits priv pub|c sg v|sg v]; cbn [verify_step] in E.
      + unfold rsa_step, get_text in E. destruct (get_string msg 0) as [nm p1].
        destruct (utf8_ok nm); [|discriminate].
        destruct (lookup nm rsa_hashes); [|discriminate].
        destruct (get_string msg p1). discriminate.
      + unfold ecdsa_step, get_text in E. destruct (get_string msg 0) as [nm p1].
        destruct (utf8_ok nm); [|discriminate].
        destruct (negb (zlist_eqb nm (ecdsa_ident c))); [discriminate|].
        destruct (get_string msg p1) as [sig ?]. destruct (get_string sig 0) as [rb q1].
        destruct (get_string sig q1) as [sb q2].
        destruct (negb match get_remainder sig q2 with [] => true | _ => false end); [discriminate|].
        destruct ((inflate_long rb false <? 0) || (inflate_long sb false <? 0)); discriminate.
      + unfold ed_step, get_text in E. destruct (get_string msg 0) as [nm p1].
        destruct (utf8_ok nm); [|discriminate].
        destruct (negb (zlist_eqb nm s_ed25519)); [discriminate|].
        destruct (get_string msg p1). destruct sg, v; discriminate.
    - discriminate.
    - intros H. exists a. split; [reflexivity|]. split.
      + destruct (lib a data); cbn [map_lres] in H; try discriminate; try reflexivity.
        destruct k; discriminate.
      + apply step_uses_key_pub with (msg := msg). exact E.
  Qed.

  (* ---- reading back a two-string message ------------------------------------------------------ *)
  Lemma two_strings a b bs :
    bytes_ok a = true -> bytes_ok b = true ->
    encode_all [FString a; FString b] = Ok bs ->
    exists p1 p2, get_string bs 0 = (a, p1) /\ get_string bs p1 = (b, p2).
  Proof.
    intros Ha Hb He.
    pose proof (roundtrip [FString a; FString b] bs [] ) as R.
    cbn [forallb field_wf map kind_of] in R. rewrite Ha, Hb in R. specialize (R eq_refl He).
    rewrite app_nil_r in R. cbn [decode_all decode_field] in R.
    destruct (get_string bs 0) as [s1 p1] eqn:G1. destruct (get_string bs p1) as [s2 p2] eqn:G2.
    injection R as -> -> _. exists p1, p2. auto.
  Qed.

  Lemma two_mpints r s bs :
    encode_all [FMpint r; FMpint s] = Ok bs ->
    exists rb sb p1 p2, get_string bs 0 = (rb, p1) /\ get_string bs p1 = (sb, p2) /\
                        inflate_long rb false = r /\ inflate_long sb false = s /\ p2 = length bs.
  Proof.
    intros He.
    pose proof (roundtrip [FMpint r; FMpint s] bs [] eq_refl He) as R.
    rewrite app_nil_r in R. cbn [map kind_of decode_all decode_field] in R.
    destruct (get_string bs 0) as [s1 p1] eqn:G1. destruct (get_string bs p1) as [s2 p2] eqn:G2.
    injection R as E1 E2 E3. exists s1, s2, p1, p2. auto.
  Qed.

  Lemma encode_all_bytes_ok fs bs :
    forallb field_wf fs = true -> encode_all fs = Ok bs -> bytes_ok bs = true.
  Proof.
    intros Hwf He.
    pose proof (roundtrip fs bs [] Hwf He) as R. rewrite app_nil_r in R.
    (* every encoder output is bytes: prove directly by induction instead *)
    clear R. revert bs Hwf He. induction fs as [|f fs IH]; intros bs Hwf He.
    - injection He as <-. reflexivity.
    - cbn [encode_all] in He. cbn [forallb] in Hwf. apply andb_true_iff in Hwf as [Hf Hfs].
      destruct (encode_field f) as [a|] eqn:Ef; [|discriminate]. cbn [bind] in He.
      destruct (encode_all fs) as [b|] eqn:Efs; [|discriminate]. cbn [bind] in He.
      injection He as <-. rewrite bytes_ok_app. rewrite (IH b Hfs eq_refl), andb_true_r.
      destruct f; cbn [encode_field field_wf] in *.
      + injection Ef as <-. cbn. rewrite Hf. reflexivity.
      + injection Ef as <-. destruct b0; reflexivity.
      + apply pack_u32_ok in Ef as [_ ->]. apply be_encode_ok.
      + apply pack_u64_ok in Ef as [_ ->]. apply be_encode_ok.
      + destruct (big_int <=? n).
        * destruct (add_string (deflate_long n true)) as [e|] eqn:Ea; [|discriminate].
          cbn [bind] in Ef. injection Ef as <-.
          unfold add_string in Ea.
          destruct (pack_u32 (Z.of_nat (length (deflate_long n true)))) as [h|] eqn:Eh; [|discriminate].
          cbn [bind] in Ea. injection Ea as <-. apply pack_u32_ok in Eh as [_ ->].
          rewrite bytes_ok_cons, bytes_ok_app, be_encode_ok.
          destruct (deflate_minimal n) as [Hd _]. cbv zeta in Hd. rewrite Hd. reflexivity.
        * apply pack_u32_ok in Ef as [_ ->]. apply be_encode_ok.
      + unfold add_string in Ef.
        destruct (pack_u32 (Z.of_nat (length s))) as [h|] eqn:Eh; [|discriminate].
        cbn [bind] in Ef. injection Ef as <-. apply pack_u32_ok in Eh as [_ ->].
        rewrite bytes_ok_app, be_encode_ok, Hf. reflexivity.
      + unfold add_string in Ef.
        destruct (pack_u32 (Z.of_nat (length (join_comma l)))) as [h|] eqn:Eh; [|discriminate].
        cbn [bind] in Ef. injection Ef as <-. apply pack_u32_ok in Eh as [_ ->].
        rewrite bytes_ok_app, be_encode_ok. cbn [andb].
        apply andb_true_iff in Hf as [_ Hl]. clear -Hl.
        induction l as [|x l IHl]; [reflexivity|].
        cbn [forallb] in Hl. apply andb_true_iff in Hl as [Hx Hl].
        apply andb_true_iff in Hx as [Hx _].
        destruct l as [|y l']; [exact Hx|].
        change (join_comma (x :: y :: l')) with (x ++ 44 :: join_comma (y :: l')).
        rewrite bytes_ok_app, Hx, bytes_ok_cons. cbn [andb byte_ok]. apply IHl. exact Hl.
      + unfold add_mpint in Ef.
        assert (Hgen : forall s e, bytes_ok s = true -> add_string s = Ok e -> bytes_ok e = true).
        { intros s e Hs Ha. unfold add_string in Ha.
          destruct (pack_u32 (Z.of_nat (length s))) as [h|] eqn:Eh; [|discriminate].
          cbn [bind] in Ha. injection Ha as <-. apply pack_u32_ok in Eh as [_ ->].
          rewrite bytes_ok_app, be_encode_ok, Hs. reflexivity. }
        destruct (n =? 0).
        * apply (Hgen [] a eq_refl Ef).
        * destruct (deflate_minimal n) as [Hd _]. cbv zeta in Hd. apply (Hgen _ a Hd Ef).
  Qed.

  (* ---- genuine signatures verify, under the signing key object and any counterpart ------------- *)
  Variable rsa_sign : Z -> list Z -> Z -> list Z.
  Variable ec_sign : Z -> list Z -> Z * Z.
  Variable ed_sign : Z -> list Z -> list Z.
  Variable lib : libarg -> list Z -> lres.

  Definition ascii (s : list Z) : bool := forallb (fun c => (0 <=? c) && (c <? 128)) s.

  (* honest signatures are accepted by the library under the matching public key *)
  Definition honest : Prop :=
    (forall sk d h, lib (ARsa (pub_of sk) (rsa_sign sk d h) h) d = LAccept) /\
    (forall sk d, lib (AEcdsa (pub_of sk) (fst (ec_sign sk d)) (snd (ec_sign sk d))) d = LAccept) /\
    (forall sk d, lib (AEd (pub_of sk) (ed_sign sk d)) d = LAccept).

  (* shape of what the library's sign returns *)
  Definition sig_shapes (k : keyobj) : Prop :=
    (forall sk d h, bytes_ok (rsa_sign sk d h) = true /\
                    match k with KRsa bits _ _ => bits <= 8 * Z.of_nat (length (rsa_sign sk d h)) | _ => True end) /\
    (forall sk d, 0 <= fst (ec_sign sk d) /\ 0 <= snd (ec_sign sk d)) /\
    (forall sk d, bytes_ok (ed_sign sk d) = true).

  Lemma rsa_names_closed a h :
    lookup a rsa_hashes = Some h ->
    lookup (strip_cert a) rsa_hashes = Some h /\ ascii (strip_cert a) = true /\
    bytes_ok (strip_cert a) = true.
  Proof.
    unfold rsa_hashes, gen_rsa_hashes. cbn [lookup].
    repeat match goal with
           | |- (if zlist_eqb a ?n then _ else _) = _ -> _ =>
               destruct (zlist_eqb a n) eqn:E;
               [apply zlist_eqb_eq in E; subst a; intros H; injection H as <-; vm_compute; auto|clear E]
           end.
    discriminate.
  Qed.

  Lemma genuine k1 k2 sk data alg sigmsg :
    (forall s, ascii s = true -> utf8_ok s = true) ->
    honest -> sig_shapes k1 ->
    key_wf pub_of k1 -> key_wf pub_of k2 -> same_kind k1 k2 ->
    key_pub pub_of k1 = Some (pub_of sk) -> key_pub pub_of k2 = Some (pub_of sk) ->
    match k1 with KRsa _ p _ => p = Some sk | KEcdsa _ s _ => s = Some sk | KEd s _ => s = Some sk end ->
    sign_ssh_data rsa_sign ec_sign ed_sign k1 data alg = Ok sigmsg ->
    verify_ssh_sig utf8_ok pub_of lib k2 data sigmsg = Ok true.
  Proof.
    intros Hascii (Hrsa & Hec & Hed) (Srsa & Sec & Sed) Hwf1 Hwf2 Hkind Hp1 Hp2 Hsk Hsign.
    unfold verify_ssh_sig.
    destruct k1 as [bits1 priv1 pub1|c1 sg1 v1|sg1 v1]; subst;
      destruct k2 as [bits2 priv2 pub2|c2 sg2 v2|sg2 v2]; cbn [same_kind] in Hkind; try contradiction.
    - (* RSA *)
      subst bits2. cbn [sign_ssh_data] in Hsign.
      set (a := match alg with Some a => a | None => s_ssh_rsa end) in *.
      destruct (lookup a rsa_hashes) as [h|] eqn:El; [|discriminate].
      destruct (rsa_names_closed a h El) as (El' & Ha & Hb).
      destruct (Srsa sk data h) as [Hsb Hlen].
      destruct (two_strings _ _ _ Hb Hsb Hsign) as (p1 & p2 & G1 & G2).
      cbn [verify_step]. unfold rsa_step, get_text. rewrite G1, (Hascii _ Ha), El', G2.
      assert (Hd : (0 <? bits1 - 8 * Z.of_nat (length (rsa_sign sk data h))) = false) by lia.
      rewrite Hd. cbn [map_lres].
      assert (Hk : match priv2 with Some sk0 => pub_of sk0 | None => pub2 end = pub_of sk).
      { cbn [key_pub] in Hp2. destruct priv2; injection Hp2 as ->; reflexivity. }
      rewrite Hk, Hrsa. reflexivity.
    - (* ECDSA *)
      subst c2. cbn [sign_ssh_data] in Hsign.
      destruct (ec_sign sk data) as [r s] eqn:Es.
      destruct (encode_all [FMpint r; FMpint s]) as [inner|] eqn:Ei; [|discriminate].
      cbn [bind] in Hsign.
      assert (Hib : bytes_ok inner = true) by (apply (encode_all_bytes_ok [FMpint r; FMpint s] inner eq_refl Ei)).
      assert (Hid : bytes_ok (ecdsa_ident c1) = true /\ ascii (ecdsa_ident c1) = true).
      { unfold ecdsa_ident, curve_name. destruct (c1 =? 0); [vm_compute; auto|].
        destruct (c1 =? 1); vm_compute; auto. }
      destruct Hid as [Hidb Hida].
      destruct (two_strings _ _ _ Hidb Hib Hsign) as (p1 & p2 & G1 & G2).
      destruct (two_mpints _ _ _ Ei) as (rb & sb & q1 & q2 & M1 & M2 & Mr & Ms & Mq).
      cbn [verify_step]. unfold ecdsa_step, get_text.
      rewrite G1, (Hascii _ Hida).
      assert (Hz : zlist_eqb (ecdsa_ident c1) (ecdsa_ident c1) = true) by (apply zlist_eqb_eq; reflexivity).
      rewrite Hz. cbn [negb]. rewrite G2, M1, M2, Mr, Ms.
      unfold get_remainder. rewrite Mq, skipn_all. cbn [negb].
      destruct (Sec sk data) as [Hr Hs]. rewrite Es in Hr, Hs. cbn [fst snd] in Hr, Hs.
      assert (Hn : ((r <? 0) || (s <? 0)) = false) by lia. rewrite Hn.
      cbn [key_pub] in Hp2. injection Hp2 as ->.
      specialize (Hec sk data). rewrite Es in Hec. cbn [fst snd] in Hec. rewrite Hec. reflexivity.
    - (* Ed25519 *)
      cbn [sign_ssh_data] in Hsign.
      assert (Hn : bytes_ok s_ed25519 = true /\ ascii s_ed25519 = true) by (vm_compute; auto).
      destruct Hn as [Hnb Hna].
      destruct (two_strings _ _ _ Hnb (Sed sk data) Hsign) as (p1 & p2 & G1 & G2).
      cbn [verify_step]. unfold ed_step, get_text. rewrite G1, (Hascii _ Hna).
      assert (Hz : zlist_eqb s_ed25519 s_ed25519 = true) by reflexivity.
      rewrite Hz. cbn [negb]. rewrite G2.
      cbn [key_pub] in Hp2.
      destruct sg2 as [sk2|].
      + injection Hp2 as Hp2. rewrite Hp2, Hed. reflexivity.
      + destruct v2 as [vk|]; [|discriminate]. injection Hp2 as ->. rewrite Hed. reflexivity.
  Qed.
End P.
