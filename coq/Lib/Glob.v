(* Shell-style glob matching over byte strings (list Z): `*` (42) matches any run of
   characters, `?` (63) matches exactly one, every other character matches itself.
   This is fnmatch.fnmatchcase restricted to patterns without `[` (no character classes).
   Stdlib + Lia only. *)
From Coq Require Import ZArith List Bool Lia.
Import ListNotations.
Open Scope Z_scope.

Fixpoint glob (p s : list Z) {struct p} : bool :=
  match p with
  | [] => match s with [] => true | _ :: _ => false end
  | c :: p' =>
      if c =? 42 then
        (fix star (s : list Z) : bool :=
           glob p' s || match s with [] => false | _ :: s' => star s' end) s
      else match s with
           | [] => false
           | x :: s' => ((c =? 63) || (c =? x)) && glob p' s'
           end
  end.

(* declarative meaning *)
Inductive Glob : list Z -> list Z -> Prop :=
| G_nil : Glob [] []
| G_char c p s : c <> 42 -> c <> 63 -> Glob p s -> Glob (c :: p) (c :: s)
| G_any p x s : Glob p s -> Glob (63 :: p) (x :: s)
| G_star_skip p s : Glob p s -> Glob (42 :: p) s
| G_star_eat p x s : Glob (42 :: p) s -> Glob (42 :: p) (x :: s).

Lemma glob_star_unfold p s :
  glob (42 :: p) s = glob p s || match s with [] => false | _ :: s' => glob (42 :: p) s' end.
Proof. destruct s; reflexivity. Qed.

Lemma glob_cons_unfold c p s :
  c <> 42 ->
  glob (c :: p) s = match s with [] => false | x :: s' => ((c =? 63) || (c =? x)) && glob p s' end.
Proof.
  intros H. cbn [glob]. destruct (c =? 42) eqn:E; [apply Z.eqb_eq in E; contradiction|reflexivity].
Qed.

Lemma glob_sound p : forall s, glob p s = true -> Glob p s.
Proof.
  induction p as [|c p IH]; intros s H.
  - destruct s; [constructor|discriminate].
  - destruct (Z.eq_dec c 42) as [->|Hc].
    + induction s as [|x s IHs].
      * rewrite glob_star_unfold in H. rewrite orb_false_r in H. apply G_star_skip, IH, H.
      * rewrite glob_star_unfold in H. apply orb_true_iff in H as [H|H].
        -- apply G_star_skip, IH, H.
        -- apply G_star_eat, IHs, H.
    + rewrite glob_cons_unfold in H by assumption. destruct s as [|x s]; [discriminate|].
      apply andb_true_iff in H as [H1 H2]. apply orb_true_iff in H1 as [H1|H1].
      * apply Z.eqb_eq in H1. subst c. apply G_any, IH, H2.
      * apply Z.eqb_eq in H1. subst x.
        destruct (Z.eq_dec c 63) as [->|Hq]; [apply G_any, IH, H2|].
        apply G_char; auto.
Qed.

Lemma glob_complete p s : Glob p s -> glob p s = true.
Proof.
  induction 1 as [|c p s H1 H2 _ IH|p x s _ IH|p s _ IH|p x s _ IH].
  - reflexivity.
  - rewrite glob_cons_unfold by assumption. rewrite Z.eqb_refl, orb_true_r, IH. reflexivity.
  - rewrite glob_cons_unfold by lia. rewrite IH. reflexivity.
  - rewrite glob_star_unfold, IH. reflexivity.
  - rewrite glob_star_unfold, IH. apply orb_true_r.
Qed.

Theorem glob_correct p s : glob p s = true <-> Glob p s.
Proof. split; [apply glob_sound|apply glob_complete]. Qed.

(* `*` stands for an arbitrary prefix of the remaining text *)
Lemma Glob_star_split p s : Glob (42 :: p) s <-> exists a b, s = a ++ b /\ Glob p b.
Proof.
  split.
  - intros H. remember (42 :: p) as q eqn:Eq. induction H as [|c p' s Hc _ _ _|p' x s _ _|p' s H _|p' x s _ IH];
      try discriminate.
    + injection Eq as E1 E2. exfalso. apply Hc, E1.
    + injection Eq as ->. exists [], s. auto.
    + destruct (IH Eq) as (a & b & -> & Hb). exists (x :: a), b. auto.
  - intros (a & b & -> & Hb). induction a as [|x a IH]; cbn.
    + apply G_star_skip, Hb.
    + apply G_star_eat, IH.
Qed.

Lemma glob_star_all s : glob [42] s = true.
Proof.
  apply glob_correct. apply Glob_star_split. exists s, []. rewrite app_nil_r. split; [reflexivity|constructor].
Qed.

(* a pattern without wildcards matches exactly itself *)
Definition literal (p : list Z) : bool := forallb (fun c => negb (c =? 42) && negb (c =? 63)) p.

Lemma glob_literal p : literal p = true -> forall s, glob p s = true <-> p = s.
Proof.
  induction p as [|c p IH]; intros Hl s.
  - destruct s; cbn; split; congruence.
  - cbn in Hl. apply andb_true_iff in Hl as [Hc Hl]. apply andb_true_iff in Hc as [H1 H2].
    apply negb_true_iff in H1, H2. apply Z.eqb_neq in H1.
    rewrite glob_cons_unfold by assumption. destruct s as [|x s]; [split; discriminate|].
    rewrite H2. cbn [orb]. rewrite andb_true_iff, Z.eqb_eq, (IH Hl s). split.
    + intros [-> ->]. reflexivity.
    + intros E. injection E as -> ->. auto.
Qed.

(* a pattern whose first character is an ordinary character only matches texts that start with it *)
Lemma glob_first_char c p s :
  c <> 42 -> c <> 63 -> glob (c :: p) s = true -> exists s', s = c :: s'.
Proof.
  intros H1 H2 H. rewrite glob_cons_unfold in H by assumption. destruct s as [|x s]; [discriminate|].
  apply andb_true_iff in H as [H _]. apply orb_true_iff in H as [H|H]; apply Z.eqb_eq in H; [contradiction|].
  subst. eauto.
Qed.
