#!/usr/bin/env python3
"""Edit /verif/known_findings.json under a lock (never called by a check at run time).
   kf.py add <Cxx> <key> "<what fails>"      kf.py fixed <Cxx> <commit> "<what failed>"     kf.py rm <Cxx> <key>"""
import fcntl, json, os, sys
V = os.path.dirname(os.path.dirname(os.path.abspath(__file__)))
P = os.path.join(V, "known_findings.json")
with open(P + ".lock", "w") as lk:
    fcntl.flock(lk, fcntl.LOCK_EX)
    k = json.load(open(P))
    cmd = sys.argv[1]
    if cmd == "add":
        pid, key, what = sys.argv[2:5]
        k["findings"] = [f for f in k["findings"] if not (f["property"] == pid and f["key"] == key)]
        k["findings"].append({"property": pid, "key": key, "what": what})
    elif cmd == "rm":
        pid, key = sys.argv[2:4]
        k["findings"] = [f for f in k["findings"] if not (f["property"] == pid and f["key"] == key)]
    elif cmd == "fixed":
        pid, commit, what = sys.argv[2:5]
        k["fixed"].append("fixed: property=%s %s %s" % (pid, commit, what))
    json.dump(k, open(P, "w"), indent=1)
print("ok")
