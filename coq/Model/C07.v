(* C07 -- signatures must use the negotiated / declared signature algorithm.

   Model of
     paramiko/rsakey.py      RSAKey.verify_ssh_sig (hash chosen from the signature blob's own
                             algorithm name, via the generated HASHES table), RSAKey.__init__ type check
     paramiko/ecdsakey.py    ECDSAKey.__init__ type check, verify_ssh_sig
     paramiko/ed25519key.py  Ed25519Key.__init__ type check, verify_ssh_sig
     paramiko/pkey.py        PKey._check_type_and_load_cert (type-name part)
     paramiko/transport.py   Transport._filter_algorithm, preferred_keys, preferred_pubkeys, the
                             client host-key choice of _parse_kex_init, Transport._verify_key
     paramiko/auth_handler.py  AuthHandler._generate_key_from_request and the publickey branch of
                             _parse_userauth_request
   as they are after the repair fixes/C07-signature-algorithm-must-match.diff (the signature's
   algorithm name is compared with the negotiated / declared one, cert suffix removed).  The code
   before the repair is kept as [verify_key_v0] / [server_pubkey_v0] for the refutation theorems.

   Definitions only.  The cryptographic primitive is a parameter
     pv : key id -> hash id -> data -> signature bytes -> bool
   (hash id: 1 = SHA-1, 256, 384, 512; 0 = none (Ed25519)); parsing of the key material (mpints,
   curve points, certificate body) is an input [kb_mat] of the key blob.  Message.get_* is C39's. *)
From PV Require Import Bytes C07_gen.
Open Scope Z_scope.

Definition name := list Z.
Definition neq (a b : name) : bool := zlist_eqb a b.
Definition mem (x : name) (l : list name) : bool := existsb (neq x) l.

Fixpoint assoc (x : name) (l : list (name * Z)) : option Z :=
  match l with
  | [] => None
  | (k, v) :: r => if neq x k then Some v else assoc x r
  end.

(* ---- str.replace("-cert-v01@openssh.com", "") ------------------------------------------- *)
Fixpoint is_prefix (p s : list Z) : bool :=
  match p, s with
  | [], _ => true
  | a :: p', b :: s' => (a =? b) && is_prefix p' s'
  | _ :: _, [] => false
  end.

(* left-to-right removal of every non-overlapping occurrence; [skip] = characters of the
   current occurrence still to be dropped *)
Fixpoint strip_aux (pat : list Z) (skip : nat) (s : list Z) : list Z :=
  match s with
  | [] => []
  | c :: r =>
      match skip with
      | S k => strip_aux pat k r
      | O => if is_prefix pat s then strip_aux pat (length pat - 1) r
             else c :: strip_aux pat 0 r
      end
  end.
Definition strip_cert (s : name) : name := strip_aux c07_cert_suffix 0 s.

(* str.endswith(suffix) / s[:-len(suffix)] *)
Definition ends_with (s suf : list Z) : bool :=
  (length suf <=? length s)%nat && zlist_eqb (skipn (length s - length suf) s) suf.
Definition drop_suffix (s suf : list Z) : list Z := firstn (length s - length suf) s.

(* ---- keys ------------------------------------------------------------------------------------ *)
Inductive keyclass := KRSA | KECDSA | KED.
Definition class_of (n : Z) : option keyclass :=
  if n =? 0 then Some KRSA else if n =? 1 then Some KECDSA else if n =? 2 then Some KED else None.
Definition class_code (c : keyclass) : Z := match c with KRSA => 0 | KECDSA => 1 | KED => 2 end.

(* a public key blob as it arrives: the type name it starts with, and what parsing the rest
   (numbers / point / certificate body) yields: a key id or the exception raised *)
Record keyblob := MkBlob { kb_type : name; kb_mat : result Z }.

(* a loaded key object: class, the identifier its verify_ssh_sig compares with
   (RSAKey.name / the curve's key_format_identifier / Ed25519Key.name), key id *)
Record pkey := MkKey { pk_class : keyclass; pk_ident : name; pk_id : Z }.

(* <KeyClass>(Message(blob)): _check_type_and_load_cert's type test, then the material *)
Definition load_key (cls : keyclass) (b : keyblob) : result pkey :=
  match cls with
  | KRSA =>
      if neq (kb_type b) c07_rsa_name || neq (kb_type b) (c07_rsa_name ++ c07_cert_suffix)
      then bind (kb_mat b) (fun id => Ok (MkKey KRSA c07_rsa_name id))
      else Raise SSHExc
  | KED =>
      if neq (kb_type b) c07_ed_name || neq (kb_type b) (c07_ed_name ++ c07_cert_suffix)
      then bind (kb_mat b) (fun id => Ok (MkKey KED c07_ed_name id))
      else Raise SSHExc
  | KECDSA =>
      (* key_type = msg.get_text(); if key_type.endswith(suffix): key_type = key_type[:-len(suffix)] *)
      let kt := if ends_with (kb_type b) c07_cert_suffix then drop_suffix (kb_type b) c07_cert_suffix
                else kb_type b in
      let ids := map fst c07_ecdsa_curves in
      if mem (kb_type b) ids || mem (kb_type b) (map (fun x => x ++ c07_cert_suffix) ids)
      then bind (kb_mat b) (fun id => Ok (MkKey KECDSA kt id))
      else Raise SSHExc
  end.

(* a signature blob after Message parsing: algorithm name, signature bytes *)
Record sigblob := MkSig { s_alg : name; s_sig : list Z }.

(* outcome of the publickey branch of _parse_userauth_request *)
Inductive pk_outcome :=
  | PkDisconnect                 (* no key: _disconnect_no_more_auth *)
  | PkRefused                    (* check_auth_publickey said AUTH_FAILED *)
  | PkProbeOk                    (* no signature attached: USERAUTH_PK_OK *)
  | PkSigRejected                (* signature rejected: result = AUTH_FAILED *)
  | PkVerified (k : pkey).       (* signature accepted: the callback's result stands *)

Section Verify.
  Variable pv : Z -> Z -> list Z -> list Z -> bool.

  (* which hash <key>.verify_ssh_sig would use for a signature naming [alg] (None: returns False) *)
  Definition sig_hash (k : pkey) (alg : name) : option Z :=
    match pk_class k with
    | KRSA => assoc alg c07_rsa_hashes                       (* sig_algorithm in self.HASHES *)
    | KECDSA => if neq alg (pk_ident k) then
                  match assoc (pk_ident k) c07_ecdsa_curves with Some h => Some h | None => None end
                else None
    | KED => if neq alg c07_ed_name then Some 0 else None
    end.

  Definition verify_ssh_sig (k : pkey) (data : list Z) (sg : sigblob) : bool :=
    match sig_hash k (s_alg sg) with
    | None => false
    | Some h => pv (pk_id k) h data (s_sig sg)
    end.

  (* ---- Transport._verify_key (client) ---------------------------------------------------- *)
  Definition verify_key (negotiated : name) (b : keyblob) (H : list Z) (sg : sigblob) : result pkey :=
    match assoc negotiated c07_key_info with
    | None => Raise KeyErr
    | Some c =>
        match class_of c with
        | None => Raise KeyErr
        | Some cls =>
            bind (load_key cls b) (fun key =>
              if negb (neq (s_alg sg) (strip_cert negotiated)) then Raise SSHExc
              else if verify_ssh_sig key H sg then Ok key else Raise SSHExc)
        end
    end.

  (* the same function before the repair: no comparison with the negotiated algorithm *)
  Definition verify_key_v0 (negotiated : name) (b : keyblob) (H : list Z) (sg : sigblob) : result pkey :=
    match assoc negotiated c07_key_info with
    | None => Raise KeyErr
    | Some c =>
        match class_of c with
        | None => Raise KeyErr
        | Some cls =>
            bind (load_key cls b) (fun key =>
              if verify_ssh_sig key H sg then Ok key else Raise SSHExc)
        end
    end.

  (* ---- Transport._filter_algorithm / preferred_keys / preferred_pubkeys -------------------- *)
  Definition filter_algorithm (default disabled : list name) : list name :=
    filter (fun x => negb (mem x disabled)) default.
  Definition preferred_keys (default disabled : list name) : list name :=
    let f := filter_algorithm default disabled in
    f ++ map (fun x => x ++ c07_cert_suffix) f.
  Definition preferred_pubkeys (default disabled : list name) : list name :=
    filter_algorithm default disabled.

  (* _parse_kex_init, client: agreed_keys = filter(server_key_algo_list.__contains__, preferred_keys) *)
  Definition negotiate_hostkey (default disabled server_list : list name) : result name :=
    match filter (fun x => mem x server_list) (preferred_keys default disabled) with
    | [] => Raise IncompatiblePeer
    | x :: _ => Ok x
    end.

  (* ---- AuthHandler._generate_key_from_request (server) -------------------------------------
     every exception (SSHException, KeyError, anything else) is turned into "no key" by the caller *)
  Definition generate_key (default disabled : list name) (declared : name) (b : keyblob) : option pkey :=
    if negb (mem (strip_cert declared) (preferred_pubkeys default disabled)) then None
    else match assoc declared c07_key_info with
         | None => None
         | Some c =>
             match class_of c with
             | None => None
             | Some cls => match load_key cls b with Ok k => Some k | Raise _ => None end
             end
         end.

  Definition server_pubkey (default disabled : list name) (declared : name) (b : keyblob)
             (cb_failed sig_attached : bool) (data : list Z) (sg : sigblob) : pk_outcome :=
    match generate_key default disabled declared b with
    | None => PkDisconnect
    | Some key =>
        if cb_failed then PkRefused
        else if negb sig_attached then PkProbeOk
        else if negb (neq (s_alg sg) (strip_cert declared)) then PkSigRejected
        else if verify_ssh_sig key data sg then PkVerified key else PkSigRejected
    end.

  (* before the repair *)
  Definition server_pubkey_v0 (default disabled : list name) (declared : name) (b : keyblob)
             (cb_failed sig_attached : bool) (data : list Z) (sg : sigblob) : pk_outcome :=
    match generate_key default disabled declared b with
    | None => PkDisconnect
    | Some key =>
        if cb_failed then PkRefused
        else if negb sig_attached then PkProbeOk
        else if verify_ssh_sig key data sg then PkVerified key else PkSigRejected
    end.
End Verify.

(* base names are free of the cert suffix (true of the generated default tuples; a premise for
   caller-supplied _preferred_keys) *)
Definition names_plain (l : list name) : bool :=
  forallb (fun y => neq (strip_cert y) y && neq (strip_cert (y ++ c07_cert_suffix)) y) l.

(* ---- correspondence entry points ------------------------------------------------------------
   the primitive is instantiated by the list of hash ids under which the case's signature bytes
   really verify for the case's key (computed by the harness with the real keys) *)
Definition pv_of (valid : list Z) : Z -> Z -> list Z -> list Z -> bool :=
  fun _ h _ _ => existsb (Z.eqb h) valid.

Definition mat_of (code : Z) : result Z :=
  if code =? 0 then Ok 7 else if code =? 1 then Raise SSHExc else Raise ValueErr.

(* (negotiated, (blob type, material code), signature algorithm name, valid hashes) *)
Definition run_client (c : name * (name * Z) * name * list Z) : list Z :=
  let '(neg, (bt, mc), sa, valid) := c in
  match verify_key (pv_of valid) neg (MkBlob bt (mat_of mc)) [] (MkSig sa []) with
  | Ok k => 0 :: class_code (pk_class k) :: pk_ident k
  | Raise e => [exn_code e]
  end.

(* (default, disabled) -> preferred_keys ++ [-1] ++ preferred_pubkeys, names separated by -2 *)
Fixpoint flat (l : list name) : list Z :=
  match l with [] => [] | x :: r => x ++ (-2) :: flat r end.
Definition run_prefs (c : list name * list name * list name * list name) : list Z :=
  let '(dk, disk, dp, disp) := c in
  flat (preferred_keys dk disk) ++ (-1) :: flat (preferred_pubkeys dp disp).

Definition run_negotiate (c : list name * list name * list name) : list Z :=
  let '(dk, disk, sl) := c in
  match negotiate_hostkey dk disk sl with
  | Ok x => 0 :: x
  | Raise e => [exn_code e]
  end.

(* ((default pubkeys, disabled), declared, (blob type, material code), (cb_failed, sig_attached),
   signature algorithm name, valid hashes) *)
Definition run_server (c : (list name * list name) * name * (name * Z) * (bool * bool) * name * list Z)
  : list Z :=
  let '((dp, dis), decl, (bt, mc), (cbf, att), sa, valid) := c in
  match server_pubkey (pv_of valid) dp dis decl (MkBlob bt (mat_of mc)) cbf att [] (MkSig sa []) with
  | PkDisconnect => [1]
  | PkRefused => [2]
  | PkProbeOk => [3]
  | PkSigRejected => [4]
  | PkVerified k => 0 :: class_code (pk_class k) :: pk_ident k
  end.

(* direct call of <key>.verify_ssh_sig: (class code, the key's identifier, signature label, valid hashes) *)
Definition run_verify (c : Z * name * name * list Z) : list Z :=
  let '(cls, ident, lab, valid) := c in
  match class_of cls with
  | None => [9]
  | Some k => [if verify_ssh_sig (pv_of valid) (MkKey k ident 7) [] (MkSig lab []) then 1 else 0]
  end.
