(* C31 — model of SFTPServer.set_file_attr (paramiko/sftp_server.py) over a modelled
   local file.  Definitions only; proofs are in Proofs/C31_proofs.v.

   A served file is (bytes, permission bits, uid, gid, atime, mtime).  The os.* calls
   the helper makes are small re-implementations of their documented behaviour
   (section 5 of DESIGN.md); the correspondence run compares them, through the real
   client and server, with the real file system. *)
From PV Require Import Bytes.
Open Scope Z_scope.

Record file := mkfile {
  f_data : list Z; f_mode : Z; f_uid : Z; f_gid : Z; f_atime : Z; f_mtime : Z }.

(* SFTPAttributes as received by the server: _flags plus the fields *)
Record attrs := mkattrs {
  a_flags : Z; a_size : Z; a_uid : Z; a_gid : Z; a_mode : Z; a_atime : Z; a_mtime : Z }.

Definition FLAG_SIZE : Z := 1.
Definition FLAG_UIDGID : Z := 2.
Definition FLAG_PERMISSIONS : Z := 4.
Definition FLAG_AMTIME : Z := 8.

(* Python's `if attr._flags & attr.FLAG_X:` *)
Definition has (a : attrs) (flag : Z) : bool := negb (Z.land (a_flags a) flag =? 0).

(* ---- the local file system calls (specification side) ------------------- *)
(* os.chmod: the permission bits (incl. setuid/setgid/sticky) become mode & 07777 *)
Definition os_chmod (f : file) (mode : Z) : file :=
  mkfile (f_data f) (Z.land mode 4095) (f_uid f) (f_gid f) (f_atime f) (f_mtime f).

(* os.chown with both ids given *)
Definition os_chown (f : file) (uid gid : Z) : file :=
  mkfile (f_data f) (f_mode f) uid gid (f_atime f) (f_mtime f).

(* os.utime(path, (atime, mtime)) *)
Definition os_utime (f : file) (atime mtime : Z) : file :=
  mkfile (f_data f) (f_mode f) (f_uid f) (f_gid f) atime mtime.

(* the bytes of a file after truncate(n): leading bytes kept, zero padded *)
Definition resize (d : list Z) (n : Z) : list Z :=
  firstn (Z.to_nat n) d ++ repeat 0 (Z.to_nat n - length d).

(* os.truncate(path, n); the modification time becomes the current time `now`,
   an input of the step *)
Definition os_truncate (now : Z) (f : file) (n : Z) : file :=
  mkfile (resize (f_data f) n) (f_mode f) (f_uid f) (f_gid f) (f_atime f) now.

(* ---- Python file objects (what the size step is written with) ------------ *)
(* open(filename, "r+"): contents untouched *)
Definition py_open_rplus (f : file) : file := f.
(* open(filename, "w+"): O_TRUNC empties the file (and touches mtime) *)
Definition py_open_wplus (now : Z) (f : file) : file :=
  mkfile [] (f_mode f) (f_uid f) (f_gid f) (f_atime f) now.
(* f.truncate(n) on the open file *)
Definition py_ftruncate (now : Z) (f : file) (n : Z) : file := os_truncate now f n.

(* ---- SFTPServer.set_file_attr, statement by statement ---------------------- *)
Definition step_chmod (a : attrs) (f : file) : file :=
  if has a FLAG_PERMISSIONS then os_chmod f (a_mode a) else f.
Definition step_chown (a : attrs) (f : file) : file :=
  if has a FLAG_UIDGID then os_chown f (a_uid a) (a_gid a) else f.
Definition step_utime (a : attrs) (f : file) : file :=
  if has a FLAG_AMTIME then os_utime f (a_atime a) (a_mtime a) else f.
(* with open(filename, "r+") as f: f.truncate(attr.st_size) *)
Definition step_size (now : Z) (a : attrs) (f : file) : file :=
  if has a FLAG_SIZE then py_ftruncate now (py_open_rplus f) (a_size a) else f.

Definition set_file_attr (now : Z) (f : file) (a : attrs) : file :=
  step_size now a (step_utime a (step_chown a (step_chmod a f))).

(* the size step as it was before the repair (open "w+"), kept to state what the
   oracle of the harness guards against *)
Definition step_size_wplus (now : Z) (a : attrs) (f : file) : file :=
  if has a FLAG_SIZE then py_ftruncate now (py_open_wplus now f) (a_size a) else f.
Definition set_file_attr_wplus (now : Z) (f : file) (a : attrs) : file :=
  step_size_wplus now a (step_utime a (step_chown a (step_chmod a f))).

(* Both the by-path request (SETSTAT -> server.chattr(path, attr)) and the by-handle
   request (FSETSTAT -> handle.chattr(attr)) of the standard helper end in
   set_file_attr on the file's name. *)
Definition setstat (now : Z) (f : file) (a : attrs) : file := set_file_attr now f a.
Definition fsetstat (now : Z) (f : file) (a : attrs) : file := set_file_attr now f a.

(* SFTPAttributes._pack: the flags follow from which fields the client set *)
Definition flags_of (size : option Z) (ids : option (Z * Z)) (mode : option Z)
                    (times : option (Z * Z)) : Z :=
  (match size with Some _ => FLAG_SIZE | None => 0 end) +
  (match ids with Some _ => FLAG_UIDGID | None => 0 end) +
  (match mode with Some _ => FLAG_PERMISSIONS | None => 0 end) +
  (match times with Some _ => FLAG_AMTIME | None => 0 end).

Definition mk_attrs (size : option Z) (ids : option (Z * Z)) (mode : option Z)
                    (times : option (Z * Z)) : attrs :=
  mkattrs (flags_of size ids mode times)
          (match size with Some n => n | None => 0 end)
          (match ids with Some (u, _) => u | None => 0 end)
          (match ids with Some (_, g) => g | None => 0 end)
          (match mode with Some m => m | None => 0 end)
          (match times with Some (t, _) => t | None => 0 end)
          (match times with Some (_, t) => t | None => 0 end).

(* the four client calls (SFTPClient.chmod/chown/utime/truncate and the SFTPFile
   methods of the same names build exactly these attribute records) *)
Definition req_chmod (m : Z) : attrs := mk_attrs None None (Some m) None.
Definition req_chown (u g : Z) : attrs := mk_attrs None (Some (u, g)) None None.
Definition req_utime (t1 t2 : Z) : attrs := mk_attrs None None None (Some (t1, t2)).
Definition req_truncate (n : Z) : attrs := mk_attrs (Some n) None None None.

(* ---- correspondence run -------------------------------------------------- *)
Definition canon_file (f : file) : list Z :=
  [f_mode f; f_uid f; f_gid f; f_atime f; f_mtime f; Z.of_nat (length (f_data f))] ++ f_data f.

(* case: (now, initial file, request fields) *)
Definition run_set_attr
  (c : Z * (list Z * Z * Z * Z * Z * Z) *
       (option Z * option (Z * Z) * option Z * option (Z * Z))) : list Z :=
  let '(now, (d, m, u, g, t1, t2), (size, ids, mode, times)) := c in
  canon_file (set_file_attr now (mkfile d m u g t1 t2) (mk_attrs size ids mode times)).
