"""C08 — key exchange rejects invalid peer public values and out-of-range groups.

Proof: coq/Props/C08_props.v over coq/Model/C08.v + coq/Gen/C08_gen.v (range tests, handler step
lists, group constants, curve parameters regenerated from the source by gen/c08.py every run).
Tie: (a) the translator; (b) differential run of the model's run_fixed / run_gex / run_x25519 / run_ec
(vm_compute inside Coq) against the real engines' parse_next/_parse_* driven with a recording stub
transport.  Oracle: the property stated directly on the real engines' observables (accept / exception,
_set_K_H / _activate_outbound / _send_message not called on rejection, K = pow(v, x, p) in [1, p-1]).
"""
import importlib.util
import os

from common import coq, Raw

PID = "C08"
LEVEL_TEXT = ("Machine-checked proof (Coq, closed under the global context) over range tests and handler bodies "
              "translated from the source on every run: each of the eight DH call sites (kex_group1 reply/init, "
              "inherited by group14/16; kex_gex init/reply; kex_gss KexGSSGroup1 complete/init, inherited by "
              "KexGSSGroup14; KexGSSGex gex_init/complete) accepts v iff 1 <= v <= p-1 and on rejection raises "
              "SSHException before any transport call; for prime p an accepted v "
              "gives K = v^x mod p in [1, p-1]; the gex client (KexGex and KexGSSGex) accepts p iff 0 < p and "
              "1024 <= bit_length(p) <= 8192 (iff 2^1023 <= p < 2^8192); the curve25519 test rejects exactly the 32-zero-byte result; any of the "
              "nine handlers that raises has called none of _set_K_H/_verify_key/_send_message/_activate_outbound/"
              "_expect_packet; the NIST ECDH handlers, over an arbitrary library that decodes only valid SEC1 encodings, "
              "never reach _set_K_H/NEWKEYS on an invalid, off-curve, identity or wrong-length encoding; tied to the real engines by a differential run of the model (vm_compute) plus an "
              "implementation-level oracle on boundary and random peer values.")
LEVEL_NOTE = ("kex_gss.py handlers are modelled only as PREFIXES up to their first transport call (_set_K_H, or the "
              "send of KEXGSS_INIT for the group handler); the GSS context negotiation after it is not modelled and "
              "the engines are driven with a stub GSS context (every context operation succeeds).  The model has no "
              "transport/engine state (a handler's decision depends on the peer value and modulus only); that the real "
              "handlers agree with it on a second call / re-key / after KEXGSS_HOSTKEY is tested, not proved.  "
              "Elliptic curves: paramiko makes no check of its own on the peer's point; C08_ec_handler is proved for an "
              "ARBITRARY library (decode / exchange universally quantified) under the explicit premise that "
              "from_encoded_point returns a point only for a valid SEC1 encoding of an affine point of the curve "
              "(ec_valid, characterised completely by C08_ec_valid_shape); that premise is a fact about the "
              "`cryptography` library and is CHECKED, not proved: every run calls the live from_encoded_point on the "
              "grid of bad/good encodings for the three curves and the handlers on both sides.  In the correspondence "
              "the library step is instantiated by the executable spec ec_accept (uncompressed: length, range, curve "
              "equation in Gallina; compressed: prefix, length, x < p in Gallina, residuosity computed by the harness); "
              "gen/c08.py pins the handlers' data flow (K = exchange(ECDH, point decoded from the received bytes), "
              "exchange-hash input order).  X25519 from_public_bytes/exchange are library oracle bits in the model, queried "
              "from the live library per case; agreement is tested, not proved.  With this library version X25519 exchange itself raises "
              "ValueError on low-order points, so paramiko's own zero test is exercised by substituting the engine's "
              "private key object with one whose exchange() returns a chosen 32-byte secret.  Primality of the fixed "
              "groups' P is a premise of C08_dh_nonzero_secret (not proved for the 1024..4096-bit constants).  "
              "Rejections by the library surface as ValueError, not SSHException (the transport thread treats both "
              "as fatal).  v = 1 and v = p-1 are accepted, as RFC 4253 allows.  Trusted: Coq kernel + vm_compute, "
              "gen/c08.py (fail-closed AST translator), this harness.")
TECHNIQUE = "Coq proof over AST-translated range tests and handler step lists + vm_compute differential correspondence + boundary oracle"

EV = {"setKH": 1, "verify": 2, "send": 3, "activate": 4, "expect": 5}


# --------------------------------------------------------------------------- stub transport

def host_key(repo):
    import paramiko
    cands = [("tests/_support/ed25519.key", paramiko.Ed25519Key), ("tests/_support/rsa.key", paramiko.RSAKey),
             ("tests/test_rsa.key", paramiko.RSAKey), ("tests/test_ecdsa_384.key", paramiko.ECDSAKey)]
    for rel, cls in cands:
        p = os.path.join(repo, rel)
        if os.path.exists(p):
            try:
                return cls.from_private_key_file(p)
            except Exception:
                continue
    return paramiko.RSAKey.generate(2048)


class StubGSS:
    """Stands in for transport.kexgss_ctxt (no GSS-API library here): every context operation succeeds."""
    _gss_srv_ctxt_status = True

    def ssh_init_sec_context(self, target=None, desired_mech=None, username=None, recv_token=None):
        return b"gss-init-token"

    def ssh_accept_sec_context(self, hostname, recv_token, username=None):
        return b"gss-accept-token"

    def ssh_get_mic(self, session_id, gss_kex=False):
        return b"gss-mic"

    def ssh_check_mic(self, mic_token, session_id, username=None):
        return None


class StubTransport:
    gss_kex_used = False
    initial_kex_done = False
    local_version = "SSH-2.0-paramiko_verif"
    remote_version = "SSH-2.0-peer"
    local_kex_init = b"local-kex-init"
    remote_kex_init = b"remote-kex-init"

    def __init__(self, server_mode, key):
        self.server_mode = server_mode
        self.calls = []
        self.K = None
        self.sent = None
        self._key = key
        self.host_key_type = key.get_name()
        self.kexgss_ctxt = StubGSS()
        self.host_key = None
        self.session_id = None

    def _send_message(self, m):
        self.calls.append("send")
        self.sent = m.asbytes()

    def _expect_packet(self, *t):
        self.calls.append("expect")

    def _set_K_H(self, K, H):
        self.calls.append("setKH")
        self.K = K
        if self.session_id is None:
            self.session_id = H

    def _verify_key(self, host_key, sig):
        self.calls.append("verify")

    def _activate_outbound(self):
        self.calls.append("activate")

    def _log(self, *a):
        pass

    def get_server_key(self):
        return self._key

    def _get_modulus_pack(self):
        return None


def exc_code(e):
    import struct
    from paramiko.ssh_exception import SSHException
    if e is None:
        return 0
    for cls, c in ((SSHException, 1), (KeyError, 7), (IndexError, 8), (ValueError, 9), (TypeError, 10),
                   (struct.error, 12), (AssertionError, 13), (AttributeError, 15)):
        if isinstance(e, cls):
            return c
    return 98


def mpint_value(raw):
    """RFC 4251 mpint payload -> integer (independent of paramiko)."""
    return int.from_bytes(raw, "big", signed=True) if raw else 0


def mpint_raw(v):
    """minimal two's complement payload of v (RFC 4251)."""
    if v == 0:
        return b""
    n = (v if v >= 0 else ~v).bit_length() // 8 + 1
    return v.to_bytes(n, "big", signed=True)


def fixed_classes():
    from paramiko.transport import Transport
    from paramiko.kex_group1 import KexGroup1
    return sorted((n, c) for n, c in Transport._kex_info.items() if isinstance(c, type) and issubclass(c, KexGroup1))


def gex_classes():
    from paramiko.transport import Transport
    from paramiko.kex_gex import KexGex
    return sorted((n, c) for n, c in Transport._kex_info.items() if isinstance(c, type) and issubclass(c, KexGex))


def gss_fixed_classes():
    from paramiko.transport import Transport
    from paramiko.kex_gss import KexGSSGroup1
    return sorted((n, c) for n, c in Transport._kex_info.items() if isinstance(c, type) and issubclass(c, KexGSSGroup1))


def ec_classes():
    from paramiko.transport import Transport
    from paramiko.kex_ecdh_nist import KexNistp256
    return sorted((n, c) for n, c in Transport._kex_info.items() if isinstance(c, type) and issubclass(c, KexNistp256))


_CURVES = None


def curve_params():
    """(p, a, b, flen) per ECDH engine, same order as Gen's `curves` (table shared with gen/c08.py)."""
    global _CURVES
    if _CURVES is None:
        here = os.path.dirname(os.path.dirname(os.path.abspath(__file__)))
        spec = importlib.util.spec_from_file_location("c08_gen_tables", os.path.join(here, "gen", "c08.py"))
        mod = importlib.util.module_from_spec(spec)
        spec.loader.exec_module(mod)
        _CURVES = mod.CURVES
    out = []
    for name, cls in ec_classes():
        p, a, b = _CURVES[cls.curve.name]
        out.append((p, a, b, (cls.curve.key_size + 7) // 8))
    return out


def py_point_valid(cv, pt):
    """Independent SEC1 validation (what a correct from_encoded_point accepts)."""
    p, a, b, flen = cv
    if not pt:
        return False
    if pt[0] == 4:
        if len(pt) != 1 + 2 * flen:
            return False
        x = int.from_bytes(pt[1:1 + flen], "big")
        y = int.from_bytes(pt[1 + flen:], "big")
        return x < p and y < p and (y * y - (x * x * x + a * x + b)) % p == 0
    if pt[0] in (2, 3):
        if len(pt) != 1 + flen:
            return False
        x = int.from_bytes(pt[1:], "big")
        if x >= p:
            return False
        rhs = (x * x * x + a * x + b) % p
        return rhs == 0 or pow(rhs, (p - 1) // 2, p) == 1
    return False


class ForcedKey:
    """Stands in for the engine's X25519 private key: exchange() returns a chosen secret."""

    def __init__(self, real, secret):
        self.real = real
        self.secret = secret

    def exchange(self, peer_key):
        return self.secret

    def public_key(self):
        return self.real.public_key()


# --------------------------------------------------------------------------- executing one case

def is_server(case):
    return case.get("role") == "init" and case["kind"] not in ("gex-group", "gss-gex-group")


def prepare(case, t, engine=None):
    """Build (or re-use) the engine for one case on transport stub t and the message to feed it."""
    from paramiko.message import Message
    kind = case["kind"]
    server = is_server(case)
    m = Message()
    info = {}
    if kind == "fixed":
        cls = dict(fixed_classes())[case["group"]]
        k = engine or cls(t)
        k.x = case["x"]
        if server:
            k.f = pow(cls.G, k.x, cls.P)
            m.add_string(bytes.fromhex(case["raw"]))
            ptype, fn = 30, k._parse_kexdh_init
        else:
            k.e = pow(cls.G, k.x, cls.P)
            m.add_string(b"host-key-blob")
            m.add_string(bytes.fromhex(case["raw"]))
            m.add_string(b"signature")
            ptype, fn = 31, k._parse_kexdh_reply
        info["p"] = cls.P
    elif kind == "gex-group":
        cls = gex_classes()[case["cls"] % len(gex_classes())][1]
        k = engine or cls(t)
        if case["p"] <= 0:
            # a non-positive modulus that passes the size test would make _generate_x loop forever
            k._generate_x = lambda: setattr(k, "x", 3)
        if case.get("praw") is not None:
            m.add_string(bytes.fromhex(case["praw"]))
        else:
            m.add_mpint(case["p"])
        m.add_mpint(case["g"])
        ptype, fn = 31, k._parse_kexdh_gex_group
    elif kind in ("gex-init", "gex-reply"):
        cls = gex_classes()[case["cls"] % len(gex_classes())][1]
        k = engine or cls(t)
        k.p, k.g = case["p"], case["g"]
        if server:
            m.add_string(bytes.fromhex(case["raw"]))
            ptype, fn = 32, k._parse_kexdh_gex_init
        else:
            k.x = case["x"]
            k.e = pow(k.g, k.x, k.p)
            m.add_string(b"host-key-blob")
            m.add_string(bytes.fromhex(case["raw"]))
            m.add_string(b"signature")
            ptype, fn = 33, k._parse_kexdh_gex_reply
        info["p"] = case["p"]
    elif kind == "gss-fixed":
        cls = dict(gss_fixed_classes())[case["group"]]
        k = engine or cls(t)
        k.x = case["x"]
        if server:
            k.f = pow(cls.G, k.x, cls.P)
            m.add_string(b"client-gss-token")
            m.add_string(bytes.fromhex(case["raw"]))
            ptype, fn = 30, k._parse_kexgss_init
        else:
            k.e = pow(cls.G, k.x, cls.P)
            m.add_string(bytes.fromhex(case["raw"]))
            m.add_string(b"mic-token")
            m.add_boolean(case.get("tok", False))
            if case.get("tok", False):
                m.add_string(b"server-gss-token")
            ptype, fn = 32, k._parse_kexgss_complete
        info["p"] = cls.P
    elif kind == "gss-gex-group":
        from paramiko.kex_gss import KexGSSGex
        k = engine or KexGSSGex(t)
        if case["p"] <= 0:
            k._generate_x = lambda: setattr(k, "x", 3)
        if case.get("praw") is not None:
            m.add_string(bytes.fromhex(case["praw"]))
        else:
            m.add_mpint(case["p"])
        m.add_mpint(case["g"])
        ptype, fn = 41, k._parse_kexgss_group
    elif kind in ("gss-gex-init", "gss-gex-complete"):
        from paramiko.kex_gss import KexGSSGex
        k = engine or KexGSSGex(t)
        k.p, k.g = case["p"], case["g"]
        if server:
            m.add_string(b"client-gss-token")
            m.add_string(bytes.fromhex(case["raw"]))
            ptype, fn = 30, k._parse_kexgss_gex_init
        else:
            k.x = case["x"]
            k.e = pow(k.g, k.x, k.p)
            m.add_string(bytes.fromhex(case["raw"]))
            m.add_string(b"mic-token")
            m.add_boolean(case.get("tok", False))
            if case.get("tok", False):
                m.add_string(b"server-gss-token")
            ptype, fn = 32, k._parse_kexgss_complete
        info["p"] = case["p"]
    elif kind == "x25519":
        from cryptography.hazmat.primitives.asymmetric.x25519 import X25519PrivateKey
        from paramiko.kex_curve25519 import KexCurve25519
        k = engine or KexCurve25519(t)
        real = X25519PrivateKey.from_private_bytes(bytes.fromhex(case["priv"]))
        k.key = real if case.get("forced") is None else ForcedKey(real, bytes.fromhex(case["forced"]))
        pk = bytes.fromhex(case["pk"])
        if server:
            m.add_string(pk)
            ptype, fn = 30, k._parse_kexecdh_init
        else:
            m.add_string(b"host-key-blob")
            m.add_string(pk)
            m.add_string(b"signature")
            ptype, fn = 31, k._parse_kexecdh_reply
    elif kind == "ec":
        cls = ec_classes()[case["curve"]][1]
        k = engine or cls(t)
        k._generate_key_pair()
        pt = bytes.fromhex(case["pt"])
        if server:
            m.add_string(pt)
            ptype, fn = 30, k._parse_kexecdh_init
        else:
            m.add_string(b"host-key-blob")
            m.add_string(pt)
            m.add_string(b"signature")
            ptype, fn = 31, k._parse_kexecdh_reply
    else:
        raise ValueError(kind)
    m.rewind()
    return k, m, ptype, fn, info


def honest_variant(case):
    """The same exchange with a valid peer value (used to bring the transport stub into the re-key state)."""
    from cryptography.hazmat.primitives.asymmetric import ec
    from cryptography.hazmat.primitives.asymmetric.x25519 import X25519PrivateKey
    from cryptography.hazmat.primitives import serialization
    w = dict(case)
    kind = case["kind"]
    w["state"] = "first"
    if "raw" in case:
        w["raw"] = mpint_raw(0x1234567).hex()
    if kind in ("gex-group", "gss-gex-group"):
        w["p"], w["g"] = (1 << 1023) | 0x4d5, 2
    if kind == "x25519":
        w["forced"] = None
        w["pk"] = X25519PrivateKey.generate().public_key().public_bytes(
            serialization.Encoding.Raw, serialization.PublicFormat.Raw).hex()
    if kind == "ec":
        w["pt"] = ec.generate_private_key(ec_classes()[case["curve"]][1].curve).public_key().public_bytes(
            serialization.Encoding.X962, serialization.PublicFormat.UncompressedPoint).hex()
    return w


def drive(k, m, ptype, fn, via):
    try:
        if via == "parse_next":
            k.parse_next(ptype, m)
        else:
            fn(m)
    except Exception as e:   # noqa: the exception class is an observable
        return e
    return None


def execute(case, key):
    """Drive the real engine on one case; returns dict(code, events, K, sent, exc).

    case["state"]: "first"  - fresh transport stub (initial key exchange);
                   "rekey"  - the same transport stub has completed an honest exchange of the same kind and a NEW
                              engine object handles the case (what Transport does on every re-key);
                   "reuse"  - as "rekey", but the SAME engine object handles the case (second call);
                   "hostkey"- kex_gss client only: a KEXGSS_HOSTKEY message was processed first."""
    from paramiko.message import Message
    state = case.get("state", "first")
    t = StubTransport(is_server(case), key)
    engine = None
    warm = None
    if state in ("rekey", "reuse"):
        k0, m0, ptype0, fn0, _ = prepare(honest_variant(case), t)
        e0 = drive(k0, m0, ptype0, fn0, case.get("via"))
        warm = None if e0 is None else "%s: %s" % (type(e0).__name__, str(e0)[:80])
        t.initial_kex_done = True
        t.calls, t.K, t.sent = [], None, None
        if state == "reuse":
            engine = k0
    k, m, ptype, fn, info = prepare(case, t, engine)
    if state == "hostkey":
        hm = Message()
        hm.add_string(b"host-key-blob")
        hm.add_string(b"host-key-signature")
        hm.rewind()
        e0 = drive(k, hm, 33, k._parse_kexgss_hostkey, case.get("via"))
        warm = None if e0 is None else "%s: %s" % (type(e0).__name__, str(e0)[:80])
        t.calls, t.K, t.sent = [], None, None
    exc = drive(k, m, ptype, fn, case.get("via"))
    info.update({"code": exc_code(exc), "events": [EV[c] for c in t.calls], "K": t.K, "sent": t.sent,
                 "exc": None if exc is None else "%s: %s" % (type(exc).__name__, str(exc)[:80]),
                 "x": getattr(k, "x", None), "engine": k, "warmup_exc": warm})
    return info


def canon(res):
    return [res["code"]] + res["events"]


def short(case):
    return {k: (v if not (isinstance(v, int) and abs(v) > 1 << 70) else "0x%x" % v if v >= 0 else "-0x%x" % -v)
            for k, v in case.items()}


# --------------------------------------------------------------------------- the property, on observables

def judge(ctx, case, res):
    """Implementation-level oracle: C08 stated directly over what the real handler did."""
    kind = case["kind"]
    site = {"fixed": "kex_group1._parse_kexdh_" + case.get("role", ""),
            "gex-init": "kex_gex._parse_kexdh_gex_init", "gex-reply": "kex_gex._parse_kexdh_gex_reply",
            "gex-group": "kex_gex._parse_kexdh_gex_group",
            "gss-fixed": "kex_gss.KexGSSGroup1._parse_kexgss_" + ("init" if case.get("role") == "init" else "complete"),
            "gss-gex-group": "kex_gss.KexGSSGex._parse_kexgss_group",
            "gss-gex-init": "kex_gss.KexGSSGex._parse_kexgss_gex_init",
            "gss-gex-complete": "kex_gss.KexGSSGex._parse_kexgss_complete", "x25519": "kex_curve25519._parse_kexecdh_" + case.get("role", ""),
            "ec": "kex_ecdh_nist._parse_kexecdh_" + case.get("role", "")}[kind]
    accepted = res["code"] == 0
    done = [e for e in res["events"] if e in (EV["setKH"], EV["activate"], EV["send"], EV["verify"])]
    if not accepted and done:
        ctx.fail("reject-side-effects:" + site, "handler raised %s after calling transport methods %s"
                 % (res["exc"], res["events"]), case=short(case), expected=[], observed=res["events"])
    if kind in ("fixed", "gex-init", "gex-reply", "gss-fixed", "gss-gex-init", "gss-gex-complete"):
        v = mpint_value(bytes.fromhex(case["raw"]))
        p = res["p"]
        ok = 1 <= v <= p - 1
        if accepted and not ok:
            ctx.fail("dh-out-of-range-accepted:" + site,
                     "peer DH value outside [1, p-1] accepted (keys derived: K=%s)" % (
                         "0" if res["K"] == 0 else "0x%x.." % (res["K"] or 0) if (res["K"] or 0) >= 0 else "negative"),
                     case=short(case), expected="SSHException", observed=res["events"])
        if ok and not accepted:
            ctx.fail("dh-in-range-rejected:" + site, "peer DH value inside [1, p-1] rejected: %s" % res["exc"],
                     case=short(case), expected="accept", observed=res["exc"])
        if ok and accepted:
            x = res["x"]
            if res["K"] != pow(v, x, p) or not (1 <= res["K"] <= p - 1) or EV["activate"] not in res["events"]:
                ctx.fail("dh-secret:" + site, "accepted value: K is not pow(v, x, p) in [1, p-1], or outbound not activated",
                         case=short(case), expected="K = v^x mod p", observed=res["events"])
    elif kind in ("gex-group", "gss-gex-group"):
        p = case["p"]
        ok = p > 0 and 1024 <= p.bit_length() <= 8192
        if accepted and not ok:
            key = ("gss-" if kind == "gss-gex-group" else "") + ("gex-nonpositive-prime-accepted" if p <= 0 else "gex-size-accepted")
            ctx.fail(key, "client accepted a group-exchange modulus %s (%d bits)" % (
                "that is not positive" if p <= 0 else "outside 1024..8192 bits", p.bit_length()),
                case=short(case), expected="SSHException", observed=res["events"])
        if ok and not accepted:
            ctx.fail(("gss-" if kind == "gss-gex-group" else "") + "gex-in-range-rejected", "client rejected a %d-bit modulus: %s" % (p.bit_length(), res["exc"]),
                     case=short(case), expected="accept", observed=res["exc"])
    elif kind == "x25519":
        pk = bytes.fromhex(case["pk"])
        secret = case.get("secret")
        bad = len(pk) != 32 or secret is None or bytes.fromhex(secret) == b"\x00" * 32
        if accepted and bad:
            ctx.fail("x25519-zero-secret-accepted" if secret is not None and len(pk) == 32 else "x25519-invalid-key-accepted",
                     "curve25519 handler derived keys from an all-zero / invalid exchange result",
                     case=short(case), expected="exception", observed=res["events"])
        if accepted and not bad and res["K"] != int.from_bytes(bytes.fromhex(secret), "big"):
            ctx.fail("x25519-secret", "K is not the exchange result", case=short(case),
                     expected=secret, observed=res["K"])
    elif kind == "ec":
        valid = py_point_valid(curve_params()[case["curve"]], bytes.fromhex(case["pt"]))
        if accepted and not valid:
            ctx.fail("ec-invalid-point-accepted", "ECDH handler derived keys from a point that is not on the curve "
                     "(%s)" % case.get("label"), case=short(case), expected="exception", observed=res["events"])


def canon_gss(res):
    """GSS prefixes are modelled up to and including the first transport call."""
    return [res["code"] if not res["events"] else 0] + res["events"][:1]


def zl(v):
    """Gallina term for an integer of any size: Coq's numeral parser overflows its stack beyond ~16k bits, so
    larger values are rendered as 8192-bit limbs combined with Z.shiftl (evaluated by vm_compute)."""
    if abs(v) < 1 << 8192:
        return v
    m = abs(v)
    limbs = []
    while m:
        limbs.append(m & ((1 << 8192) - 1))
        m >>= 8192
    t = coq(limbs[-1])
    for limb in reversed(limbs[:-1]):
        t = "(%s + Z.shiftl %s 8192)" % (coq(limb), t)
    return Raw("(Z.opp %s)" % t if v < 0 else t)


def model_input(case, res):
    kind = case["kind"]
    if kind == "gss-fixed":
        gi = [n for n, _ in gss_fixed_classes()].index(case["group"])
        return "run_gss", "(Z * Z * Z * Z)", coq((1 if case["role"] == "init" else 0, gi,
                                                   zl(mpint_value(bytes.fromhex(case["raw"]))), 0))
    if kind == "gss-gex-group":
        return "run_gss", "(Z * Z * Z * Z)", coq((2, 0, 0, zl(case["p"])))
    if kind in ("gss-gex-init", "gss-gex-complete"):
        return "run_gss", "(Z * Z * Z * Z)", coq((3 if kind == "gss-gex-init" else 4, 0,
                                                   zl(mpint_value(bytes.fromhex(case["raw"]))), zl(case["p"])))
    if kind == "fixed":
        gi = [n for n, _ in fixed_classes()].index(case["group"])
        return "run_fixed", "(Z * Z * Z)", coq((gi, 1 if case["role"] == "init" else 0,
                                               zl(mpint_value(bytes.fromhex(case["raw"])))))
    if kind == "gex-group":
        return "run_gex", "(Z * Z * Z)", coq((0, 0, zl(case["p"])))
    if kind in ("gex-init", "gex-reply"):
        return "run_gex", "(Z * Z * Z)", coq((1 if kind == "gex-init" else 2,
                                             zl(mpint_value(bytes.fromhex(case["raw"]))), zl(case["p"])))
    if kind == "x25519":
        sec = case.get("secret")
        return "run_x25519", "(Z * Z * bool * list Z)", "(%s, %s, %s, %s)" % (
            1 if case["role"] == "init" else 0, len(bytes.fromhex(case["pk"])),
            coq(sec is not None), coq(list(bytes.fromhex(sec))) if sec is not None else "[]")
    if kind == "ec":
        pt = bytes.fromhex(case["pt"])
        sq = False
        if pt[:1] in (b"\x02", b"\x03"):
            # residuosity oracle for the compressed forms (Euler's criterion), see Model/C08.v ec_accept
            p, a, b, flen = curve_params()[case["curve"]]
            x = int.from_bytes(pt[1:], "big")
            rhs = (x * x * x + a * x + b) % p
            sq = rhs == 0 or pow(rhs, (p - 1) // 2, p) == 1
        return "run_ec", "(Z * Z * bool * list Z)", "(%d, %d, %s, %s)" % (
            case["curve"], 1 if case["role"] == "init" else 0, coq(sq), coq(list(pt)))
    raise ValueError(kind)


# --------------------------------------------------------------------------- generators

def wire_values(rng, p, everything):
    """mpint payloads that a decoding helper (Message.get_mpint / util.inflate_long) could treat specially; the
    value each denotes is computed independently by mpint_value (RFC 4251) and the bytes go through the real
    Message decoding inside the handler:
     * very long mpints whose LOW bytes denote an in-range value (v0 + 2^(8k), v0 - 2^(8k), k up to > 2 KiB):
       anything that truncates, wraps or caps the decoding makes them look in range;
     * in-range / out-of-range values behind thousands of padding bytes (non-minimal but legal two's complement);
     * negative values of every length mod 4, short and about as long as p (sign detection / limb padding);
     * positive values whose length is a multiple of 4, top byte 0x7f / 0x80-with-00-prefix (limb boundaries)."""
    pb = (p.bit_length() + 7) // 8
    v0 = rng.randrange(2, p - 1)
    out = []
    ks = [pb + 1, pb + 3, pb + 4, 600, 1025, 2049, 2050, 4100]
    for k in ([2050] + rng.sample([x for x in ks if x != 2050], 2) if not everything else ks):
        out.append((mpint_raw(v0 + (1 << (8 * k))), "long-high-garbage"))
    for k in ([rng.choice([pb + 1, 2049, 2050, 3000])] if not everything else [pb + 1, pb + 4, 2049, 2050, 3000]):
        out.append((mpint_raw(v0 - (1 << (8 * k))), "long-negative-low-in-range"))
    pads = [rng.choice([2049, 2100, 4096])] if not everything else [1, 3, 4, 2048, 2049, 2100, 4096]
    for n in pads:
        out.append((b"\x00" * n + mpint_raw(v0), "long-padding-in-range"))
        out.append((b"\x00" * n + mpint_raw(rng.choice([p, p + 1, 2 * p])), "long-padding-out-of-range"))
        out.append((b"\xff" * n + mpint_raw(-v0), "long-padding-negative"))
    lens = [4, 8, 5, 6, 7]
    base = pb - (pb % 4)
    lens += [base, base + 1, base + 2, base + 3, base + 4]
    for L in (lens if everything else [rng.choice([4, 8]), base, base + 4, rng.choice([5, 6, 7, base + 1, base + 2, base + 3])]):
        body = bytes(rng.getrandbits(8) for _ in range(L - 1))
        out.append((bytes([0x80 | rng.getrandbits(7)]) + body, "negative-len%%4=%d" % (L % 4)))
        if everything or rng.random() < 0.5:
            out.append((b"\xff" * (L - 1) + bytes([rng.randrange(1, 255)]), "negative-ff-len%%4=%d" % (L % 4)))
    for L in ([base, base + 4] if not everything else [4, 8, base - 4, base, base + 4]):
        out.append((b"\x7f" + bytes(rng.getrandbits(8) for _ in range(L - 1)), "limb-aligned-7f"))
        out.append((b"\x00\x80" + bytes(rng.getrandbits(8) for _ in range(L - 2)), "limb-aligned-0080"))
    return [(mpint_value(raw), raw, lab) for raw, lab in out]


def dh_values(rng, p, n_random, everything=False):
    """peer values as mpint payloads: boundaries, negative encodings, random in/out of range, wire-level specials."""
    vals = [0, 1, 2, p - 2, p - 1, p, p + 1, 2 * p - 1, 2 * p, -1, -2, -(p - 1), -p, p // 2, (p // 2) + 1,
            1 << (p.bit_length() - 1), (1 << p.bit_length()) - 1, 1 << p.bit_length(), p - 1 + (1 << 64)]
    out = [(v, mpint_raw(v), "boundary") for v in vals]
    for _ in range(n_random):
        r = rng.random()
        if r < 0.45:
            v = rng.randrange(1, p)
            out.append((v, mpint_raw(v), "in-range"))
        elif r < 0.7:
            v = p + rng.getrandbits(rng.choice([1, 8, 64, p.bit_length()]))
            out.append((v, mpint_raw(v), "above"))
        elif r < 0.85:
            v = -rng.randrange(1, 2 * p)
            out.append((v, mpint_raw(v), "negative"))
        else:
            # non-minimal encodings: leading 00 / ff padding, or a raw byte string
            v = rng.choice([0, 1, p - 1, p, rng.randrange(1, p), -1])
            pad = (b"\x00" if v >= 0 else b"\xff") * rng.randrange(1, 6)
            raw = pad + mpint_raw(v) if v != 0 else pad
            out.append((mpint_value(raw), raw, "padded"))
    return out + wire_values(rng, p, everything)


LOW_ORDER_25519 = [
    "0000000000000000000000000000000000000000000000000000000000000000",
    "0100000000000000000000000000000000000000000000000000000000000000",
    "e0eb7a7c3b41b8ae1656e3faf19fc46ada098deb9c32b1fd866205165f49b800",
    "5f9c95bca3508c24b1d0b1559c83ef5b04445cc4581c8e86d8224eddd09f1157",
    "ecffffffffffffffffffffffffffffffffffffffffffffffffffffffffffff7f",
    "edffffffffffffffffffffffffffffffffffffffffffffffffffffffffffff7f",
    "eeffffffffffffffffffffffffffffffffffffffffffffffffffffffffffff7f",
]


def gen_cases(ctx):
    from cryptography.hazmat.primitives.asymmetric import ec
    from cryptography.hazmat.primitives.asymmetric.x25519 import X25519PrivateKey, X25519PublicKey
    from cryptography.hazmat.primitives import serialization
    rng = ctx.rng
    T = ctx.thorough
    cases = []

    # ---- fixed groups, both roles -------------------------------------------------------
    for name, cls in fixed_classes():
        for role in ("init", "reply"):
            for v, raw, lab in dh_values(rng, cls.P, 40 if T else 6, T):
                cases.append({"kind": "fixed", "group": name, "role": role, "raw": raw.hex(),
                              "x": rng.getrandbits(rng.choice([16, 160, 256])) | 2,
                              "via": rng.choice(["parse_next", "direct"]), "label": lab})

    # ---- group exchange: size test ---------------------------------------------------------
    sizes = [0, 1, 2, 512, 768, 1023, 1024, 1025, 2048, 3072, 4096, 8191, 8192, 8193, 8200, 12288, 16384]
    sizes += [rng.randrange(512, 16385) for _ in range(12 if T else 3)]
    sizes += [rng.randrange(1000, 1050) for _ in range(6 if T else 2)] + [rng.randrange(8170, 8215) for _ in range(4 if T else 1)]
    nbig = 0
    for bits in sizes:
        if bits == 0:
            ps = [0]
        else:
            ps = [1 << (bits - 1), (1 << bits) - 1]
            if bits > 2:
                ps.append((1 << (bits - 1)) | rng.getrandbits(bits - 1) | 1)
        if 4096 < bits <= 8192:
            # an accepted modulus costs a real pow() of that size in the client: keep a few
            ps = ps[:2] if nbig < (8 if T else 2) else ps[:1]
            nbig += 1
        for p in ps:
            cases.append({"kind": "gex-group", "p": p, "g": rng.choice([2, 5, 3]), "cls": rng.randrange(2),
                          "via": rng.choice(["parse_next", "direct"]), "label": "%d-bit" % bits})
    for bits in [1, 512, 1023, 1024, 2048, 4096, 8192, 8193] + [rng.randrange(1024, 8193) for _ in range(8 if T else 2)]:
        p = -((1 << (bits - 1)) | rng.getrandbits(bits - 1) | 1)
        cases.append({"kind": "gex-group", "p": p, "g": 2, "cls": rng.randrange(2), "via": "direct",
                      "label": "negative %d-bit" % bits})
    # moduli as raw mpint payloads the decoder could treat specially (see wire_values)
    for kind in ("gex-group", "gss-gex-group"):
        good = (1 << 2047) | rng.getrandbits(2046) << 1 | 1
        raws = [(mpint_raw(good + (1 << (8 * k))), "long-high-garbage") for k in ([2050, 2049, 4100] if T else [2050])]
        raws += [(mpint_raw(good - (1 << (8 * rng.choice([2049, 2050, 3000])))), "long-negative-low-in-range"),
                 (b"\x00" * rng.choice([2049, 2100]) + mpint_raw(good), "long-padding-in-range"),
                 (b"\x00" * rng.choice([2049, 2100]) + mpint_raw(1 << 8192), "long-padding-out-of-range")]
        for L in (128, 256, 257, 258, 259):
            raws.append((bytes([0x80 | rng.getrandbits(7)]) + bytes(rng.getrandbits(8) for _ in range(L - 1)),
                         "negative-len%%4=%d" % (L % 4)))
        for raw, lab in raws:
            cases.append({"kind": kind, "p": mpint_value(raw), "praw": raw.hex(), "g": 2, "cls": rng.randrange(2),
                          "via": rng.choice(["parse_next", "direct"]), "label": lab})

    # ---- group exchange: e / f range tests --------------------------------------------------
    g1 = dict(fixed_classes())
    pool = [c.P for _, c in fixed_classes()][:2]
    for _ in range(3 if T else 1):
        bits = rng.choice([1024, 1536, 2048])
        pool.append((1 << (bits - 1)) | rng.getrandbits(bits - 1) | 1)
    for p in pool:
        for kind, role in (("gex-init", "init"), ("gex-reply", "reply")):
            for v, raw, lab in dh_values(rng, p, 30 if T else 5, T):
                cases.append({"kind": kind, "role": role, "p": p, "g": 2, "raw": raw.hex(), "cls": rng.randrange(2),
                              "x": rng.getrandbits(160) | 2, "via": rng.choice(["parse_next", "direct"]), "label": lab})

    # ---- kex_gss.py engines (stub GSS context) ---------------------------------------------------------
    for name, cls in gss_fixed_classes():
        for role in ("init", "complete"):
            for v, raw, lab in dh_values(rng, cls.P, 20 if T else 3, T):
                cases.append({"kind": "gss-fixed", "group": name, "role": role, "raw": raw.hex(),
                              "x": rng.getrandbits(160) | 2, "tok": rng.random() < 0.5,
                              "via": rng.choice(["parse_next", "direct"]), "label": lab})
    for p in pool[:2]:
        for kind, role in (("gss-gex-init", "init"), ("gss-gex-complete", "complete")):
            for v, raw, lab in dh_values(rng, p, 20 if T else 3, T):
                cases.append({"kind": kind, "role": role, "p": p, "g": 2, "raw": raw.hex(),
                              "x": rng.getrandbits(160) | 2, "tok": rng.random() < 0.5,
                              "via": rng.choice(["parse_next", "direct"]), "label": lab})
    for bits in [0, 1, 512, 1023, 1024, 1025, 2048, 4096, 8192, 8193, 16384] + [rng.randrange(512, 16385) for _ in range(8 if T else 2)]:
        ps = [0] if bits == 0 else [1 << (bits - 1), (1 << bits) - 1]
        if 4096 < bits <= 8192:
            ps = ps[:1] if bits < 8192 else ps[1:]
        for p in ps:
            cases.append({"kind": "gss-gex-group", "p": p, "g": 2, "via": rng.choice(["parse_next", "direct"]),
                          "label": "%d-bit" % bits})
    for bits in (1023, 1024, 2048, 8192):
        cases.append({"kind": "gss-gex-group", "p": -((1 << (bits - 1)) | rng.getrandbits(bits - 1) | 1), "g": 2,
                      "via": "direct", "label": "negative %d-bit" % bits})

    # ---- curve25519 -------------------------------------------------------------------------------
    def x_case(role, pk, forced=None):
        priv = bytes(rng.getrandbits(8) for _ in range(32))
        secret = None
        if len(pk) == 32:
            if forced is not None:
                secret = forced
            else:
                try:   # oracle query: what does the library's exchange do with this peer key
                    secret = X25519PrivateKey.from_private_bytes(priv).exchange(X25519PublicKey.from_public_bytes(pk))
                except ValueError:
                    secret = None
        return {"kind": "x25519", "role": role, "pk": pk.hex(), "priv": priv.hex(),
                "forced": None if forced is None else forced.hex(), "secret": None if secret is None else secret.hex(),
                "via": rng.choice(["parse_next", "direct"])}

    for role in ("init", "reply"):
        for h in LOW_ORDER_25519:
            cases.append(dict(x_case(role, bytes.fromhex(h)), label="low-order"))
            hb = bytearray.fromhex(h)
            hb[31] |= 0x80
            cases.append(dict(x_case(role, bytes(hb)), label="low-order-highbit"))
        for n in (0, 1, 31, 33, 64):
            cases.append(dict(x_case(role, bytes(rng.getrandbits(8) for _ in range(n))), label="wrong-length"))
        for _ in range(20 if T else 4):
            cases.append(dict(x_case(role, bytes(rng.getrandbits(8) for _ in range(32))), label="random"))
        good = bytes(rng.getrandbits(8) for _ in range(32))
        forced = [b"\x00" * 32, b"\x00" * 31 + b"\x01", b"\x01" + b"\x00" * 31, b"\x80" + b"\x00" * 31,
                  b"\x00" * 16 + b"\x01" + b"\x00" * 15, b"\xff" * 32]
        forced += [bytes(rng.getrandbits(8) for _ in range(32)) for _ in range(6 if T else 2)]
        for f in forced:
            cases.append(dict(x_case(role, good, forced=f), label="forced-zero" if f == b"\x00" * 32 else "forced"))
        cases.append(dict(x_case(role, good[:31], forced=b"\x00" * 32), label="forced-zero-wrong-length"))

    # ---- NIST ECDH ----------------------------------------------------------------------------------
    cvs = curve_params()
    for ci, (name, cls) in enumerate(ec_classes()):
        p, a, b, flen = cvs[ci]
        for role in ("init", "reply"):
            pub = ec.generate_private_key(cls.curve).public_key()
            unc = pub.public_bytes(serialization.Encoding.X962, serialization.PublicFormat.UncompressedPoint)
            comp = pub.public_bytes(serialization.Encoding.X962, serialization.PublicFormat.CompressedPoint)
            x = int.from_bytes(unc[1:1 + flen], "big")
            y = int.from_bytes(unc[1 + flen:], "big")
            fb = lambda n: (n % (1 << (8 * flen))).to_bytes(flen, "big")   # noqa
            other = ec_classes()[(ci + 1) % len(ec_classes())][1].curve
            pts = [
                ("valid", unc),
                ("valid-negated", b"\x04" + fb(x) + fb(p - y)),
                ("off-curve-y", b"\x04" + fb(x) + fb(y ^ (1 << rng.randrange(8 * flen - 8)))),
                ("off-curve-x", b"\x04" + fb(x ^ (1 << rng.randrange(8 * flen - 8))) + fb(y)),
                ("off-curve-y+1", b"\x04" + fb(x) + fb((y + 1) % p)),
                ("random-coordinates", b"\x04" + fb(rng.randrange(p)) + fb(rng.randrange(p))),
                ("zero-zero", b"\x04" + bytes(2 * flen)),
                ("x-equals-p", b"\x04" + fb(p) + fb(y)),
                ("x-all-ones", b"\x04" + b"\xff" * flen + fb(y)),
                ("y-plus-p", b"\x04" + fb(x) + (b"\xff" * flen if y + p >= 1 << (8 * flen) else fb(y + p))),
                ("short", unc[:-1]),
                ("long", unc + b"\x00"),
                ("half", unc[:1 + flen]),
                ("infinity", b"\x00"),
                ("empty", b""),
                ("prefix-only", b"\x04"),
                ("hybrid", bytes([6 + (unc[-1] & 1)]) + unc[1:]),
                ("prefix-05", b"\x05" + unc[1:]),
                ("other-curve", ec.generate_private_key(other).public_key().public_bytes(
                    serialization.Encoding.X962, serialization.PublicFormat.UncompressedPoint)),
            ]
            if True:
                xbad = x
                while py_point_valid(cvs[ci], b"\x02" + fb(xbad)):
                    xbad = (xbad + 1) % p
                pts += [("compressed-valid", comp), ("compressed-no-such-point", b"\x02" + fb(xbad)),
                        ("compressed-long", comp + b"\x00"), ("compressed-x-equals-p", b"\x03" + fb(p))]
            if T:
                for _ in range(6):
                    pts.append(("random-coordinates", b"\x04" + fb(rng.randrange(p)) + fb(rng.randrange(p))))
                    pub2 = ec.generate_private_key(cls.curve).public_key()
                    pts.append(("valid", pub2.public_bytes(serialization.Encoding.X962,
                                                           serialization.PublicFormat.UncompressedPoint)))
            for lab, pt in pts:
                cases.append({"kind": "ec", "curve": ci, "role": role, "pt": pt.hex(), "label": lab,
                              "via": rng.choice(["parse_next", "direct"])})

    # ---- second call on the same objects: re-key on the same transport (new engine), the same engine
    #      object used twice, and (kex_gss client) a KEXGSS_HOSTKEY message first.  Every site gets its
    #      core accepted / rejected inputs again in each of these states.
    fixedP = {n: c.P for n, c in fixed_classes() + gss_fixed_classes()}
    seen = set()
    extra = []
    for c in cases:
        kind = c["kind"]
        if "raw" in c:
            pm = c["p"] if "p" in c else fixedP[c["group"]]
            v = mpint_value(bytes.fromhex(c["raw"]))
            core = c["label"] == "boundary" and (T or v in (0, 1, pm - 1, pm, pm + 1, -1))
            sig = (kind, c.get("group"), c.get("role"), pm, v)
        elif kind in ("gex-group", "gss-gex-group"):
            core = c["label"] in ("1023-bit", "1024-bit", "8193-bit", "negative 2048-bit", "2048-bit")
            sig = (kind, c["label"])
        elif kind == "x25519":
            core = c["label"] in ("low-order", "forced-zero", "wrong-length", "random", "forced")
            sig = (kind, c["role"], c["label"])
        else:
            core = c["label"] in ("valid", "off-curve-y", "infinity", "empty", "x-equals-p", "compressed-valid", "zero-zero")
            sig = (kind, c["curve"], c["role"], c["label"])
        if not core or sig in seen:
            continue
        seen.add(sig)
        states = ["rekey", "reuse"]
        if kind in ("gss-fixed", "gss-gex-complete") and c.get("role") == "complete":
            states.append("hostkey")
        for st in states:
            extra.append(dict(c, state=st))
    return cases + extra


def check_library_premise(ctx, cases):
    """Premise of C08_ec_handler, on the live `cryptography` library: from_encoded_point returns a key only
    for a valid SEC1 encoding of an affine point of the curve (and then reports exactly that point), for
    every encoding of the EC grid (identity 00, empty, wrong lengths, off-curve, out-of-range coordinates,
    hybrid / unknown prefixes, compressed forms, a point of another curve) on all three curves."""
    from cryptography.hazmat.primitives.asymmetric import ec
    cvs = curve_params()
    seen = set()
    for case in cases:
        if case["kind"] != "ec" or (case["curve"], case["pt"]) in seen:
            continue
        seen.add((case["curve"], case["pt"]))
        cls = ec_classes()[case["curve"]][1]
        p, a, b, flen = cvs[case["curve"]]
        pt = bytes.fromhex(case["pt"])
        ctx.count(("ec-premise", case["curve"], case["pt"]), nontrivial=True, kind="ec-premise:" + str(case.get("label")))
        try:
            pub = ec.EllipticCurvePublicKey.from_encoded_point(cls.curve, pt)
        except Exception:   # noqa: any refusal satisfies the premise
            continue
        n = pub.public_numbers()
        ok = (py_point_valid(cvs[case["curve"]], pt) and 0 <= n.x < p and 0 <= n.y < p
              and (n.y * n.y - (n.x ** 3 + a * n.x + b)) % p == 0
              and n.x == int.from_bytes(pt[1:1 + flen], "big")
              and (pt[0] != 4 or n.y == int.from_bytes(pt[1 + flen:], "big"))
              and (pt[0] == 4 or (n.y & 1) == pt[0] - 2))
        if ok:
            try:
                z = ec.generate_private_key(cls.curve).exchange(ec.ECDH(), pub)
                ok = len(z) == flen
            except Exception:   # noqa: exchange may refuse; that is allowed by the premise
                pass
        if not ok:
            ctx.fail("ec-library-premise", "from_encoded_point returned a key for an encoding that is not a valid SEC1 "
                     "encoding of a point of the curve (%s): the ECDH handlers rely on the library alone"
                     % case.get("label"), case=short(case), expected="ValueError", observed="(%x, %x)" % (n.x, n.y))


# --------------------------------------------------------------------------- run / replay

def run(ctx):
    ctx.rule = ("seeded generator (random.Random('C08-<seed>')): for every fixed group engine registered in "
                "Transport._kex_info (incl. the kex_gss.py engines, with a stub GSS context) and both roles, and for gex init/reply over the group1/group14 primes and random "
                "1024..2048-bit moduli: peer values 0, 1, 2, p-2, p-1, p, p+1, 2p-1, 2p, negatives, powers of two around "
                "p, random in-range / above / negative values and non-minimal mpint encodings, plus wire-level payloads a decoding "
                "helper could treat specially (decoded by the real Message.get_mpint inside the handler, denoted value computed "
                "independently): mpints longer than 2 KiB whose low bytes are in range, thousands of padding bytes, negative "
                "values of every length mod 4, limb-aligned lengths; gex moduli of 0..16384 bits "
                "(min, max and a random value per size; every boundary 1023/1024/8192/8193) and negative moduli; X25519 "
                "low-order points, wrong lengths, random keys, and chosen exchange results incl. 32 zero bytes; NIST points: "
                "valid, negated, off-curve, out-of-range coordinates, wrong length, infinity, empty, hybrid, compressed "
                "(valid / no such point), other curve.  Every site's core accepted / rejected inputs are repeated in the "
                "re-key state (same transport stub after an honest exchange, new engine object), on the same engine "
                "object a second time, and (kex_gss client) after a KEXGSS_HOSTKEY message.  A case is non-trivial when distinct and it reaches a rejection "
                "test or library validation (all do)")
    ctx.trusted += ["gen/c08.py translator (fail-closed) - reject_xxx / steps_xxx / fixed_groups / curves in Gen/C08_gen.v",
                    "EC / X25519 point validation is the cryptography library's; the Gallina spec ec_accept and the "
                    "library are only compared on generated points",
                    "the shared secret value K is checked by the Python oracle (K = pow(v, x, p)), not by the Coq run"]
    ctx.assumptions += ["C08_dh_nonzero_secret assumes the modulus is prime (not proved for the fixed groups' constants)",
                        "handlers are modelled as the ordered list of their rejection tests, library validations and "
                        "transport calls; other statements (hashing, signing, message building) are not modelled"]
    try:
        ctx.prove()
    except Exception as e:   # noqa: a build/translator problem must never stop the implementation-level oracle
        ctx.disagree("proof build raised: %s" % str(e)[-800:])
    key = host_key(ctx.repo)
    import time
    t0 = time.time()
    cases = gen_cases(ctx)
    by_fn = {}
    queued = set()
    for case in cases:
        res = execute(case, key)
        res.pop("engine", None)
        ctx.count(("case", sorted((k, str(v)) for k, v in short(case).items() if k not in ("x", "priv", "via"))),
                  nontrivial=True, kind=case["kind"] + ":" + str(case.get("label")))
        judge(ctx, case, res)
        if res.get("warmup_exc"):
            ctx.disagree("the honest warm-up exchange of a re-key case failed: %s" % res["warmup_exc"], case=short(case))
        try:
            fn, ty, inp = model_input(case, res)
        except Exception as e:   # noqa
            ctx.disagree("cannot render a model input: %s" % e, case=short(case))
            continue
        exp = canon_gss(res) if case["kind"].startswith("gss-") else canon(res)
        # the model has no state: a (model input, implementation output) pair already queued need not be
        # evaluated again (a different implementation output for the same input IS queued and will mismatch)
        dk = (fn, inp, tuple(exp))
        if dk in queued:
            continue
        queued.add(dk)
        by_fn.setdefault((fn, ty), []).append((inp, exp, case, res))
        if case.get("label") in ("boundary", "forced-zero", "off-curve-y", "1023-bit", "negative 2048-bit"):
            if not any(s.get("kind") == case["kind"] for s in ctx.samples):
                ctx.sample({"kind": case["kind"], "case": short(case), "impl": canon(res), "exc": res["exc"]})
    check_library_premise(ctx, cases)
    ctx.log("drove the real engines on %d cases in %.1fs" % (len(cases), time.time() - t0))
    # the four model functions are evaluated concurrently (each is its own set of coqc processes)
    import threading
    results = {}

    def work(k, lst):
        try:
            results[k] = ctx.model_mismatches(k[0], k[1], [(inp, exp) for inp, exp, _, _ in lst], shard=100)
        except Exception as e:   # noqa: reported below as a broken correspondence
            results[k] = e
    threads = [threading.Thread(target=work, args=(k, lst)) for k, lst in sorted(by_fn.items())]
    for th in threads:
        th.start()
    for th in threads:
        th.join()
    for k, lst in sorted(by_fn.items()):
        bad = results.get(k)
        if isinstance(bad, Exception) or bad is None:
            ctx.disagree("model evaluation of %s failed: %s" % (k[0], str(bad)[-600:]))
            continue
        for i in bad[:3]:
            _, exp, case, res = lst[i]
            ctx.disagree("%s differs from the real handler (result code :: transport calls)" % k[0],
                         case=short(case), impl={"canon": exp, "exc": res["exc"]})


def replay(ctx, rep):
    case = rep.get("case")
    if not isinstance(case, dict) or "kind" not in case:
        return run(ctx)
    case = dict(case)
    for k, v in list(case.items()):
        if isinstance(v, str) and (v.startswith("0x") or v.startswith("-0x")) and k in ("p", "x", "g"):
            case[k] = int(v, 16)
    res = execute(case, host_key(ctx.repo))
    ctx.count(("replay", str(short(case))))
    ctx.count(("replay2", str(short(case))))
    ctx.log("replayed:", res["exc"], res["events"])
    judge(ctx, case, res)
