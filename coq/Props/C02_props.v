From PV Require Import Bytes C01 C01_proofs C02 C02_proofs.
Open Scope Z_scope.
Theorem C02_stub : True.
Proof. exact stub2_true. Qed.
Print Assumptions C02_stub.
