(* C10 - model of the re-key accounting of paramiko/packet.py (Packetizer counters,
   need_rekey, set_*_cipher resets, overflow drop, NeedRekeyException on an idle read)
   and of the part of the transport run loop (paramiko/transport.py) that turns
   need_rekey into a KEXINIT.  Definitions only; proofs are in Proofs/C10_proofs.v.
   Every function mirrors the Python source statement by statement; the thresholds
   are parameters (record cfg), the real ones come from Gen/C10_gen.v. *)
From PV Require Import Bytes C10_gen.
Open Scope Z_scope.

(* Packetizer.REKEY_PACKETS, REKEY_BYTES, REKEY_PACKETS_OVERFLOW_MAX, REKEY_BYTES_OVERFLOW_MAX *)
Record cfg := mkCfg { RP : Z; RB : Z; OP : Z; OB : Z }.

Definition real_cfg : cfg :=
  mkCfg gen_REKEY_PACKETS gen_REKEY_BYTES gen_REKEY_PACKETS_OVERFLOW_MAX gen_REKEY_BYTES_OVERFLOW_MAX.

Definition cfg_pos (c : cfg) : Prop := 0 < RP c /\ 0 < RB c /\ 0 < OP c /\ 0 < OB c.

(* the private fields of Packetizer that take part in re-key accounting:
   __sent_bytes, __sent_packets, __received_bytes, __received_packets,
   __received_bytes_overflow, __received_packets_overflow, __need_rekey, __init_count *)
Record pstate := mkP {
  sb : Z; sp : Z; rb : Z; rp : Z; rbo : Z; rpo : Z; flag : bool; ic : Z }.

(* Packetizer.__init__ *)
Definition init : pstate := mkP 0 0 0 0 0 0 false 0.

(* Packetizer.need_rekey() *)
Definition need_rekey (s : pstate) : bool := flag s.

(* result codes of an operation *)
Definition c_ok : Z := 0.
Definition c_ssh : Z := exn_code SSHExc.      (* SSHException("Remote transport is ignoring rekey requests") *)
Definition c_needrekey : Z := 50.             (* NeedRekeyException *)

(* send_message, after write_all(out); len = len(out) = bytes put on the wire (length field,
   padded packet, MAC):
     self.__sent_bytes += len(out); self.__sent_packets += 1
     sent_too_much = sent_packets >= REKEY_PACKETS or sent_bytes >= REKEY_BYTES
     if sent_too_much and not self.__need_rekey:
         received_bytes_overflow = 0; received_packets_overflow = 0; _trigger_rekey() *)
Definition send_op (c : cfg) (s : pstate) (len : Z) : pstate :=
  let sb' := sb s + len in
  let sp' := sp s + 1 in
  if ((RP c <=? sp') || (RB c <=? sb')) && negb (flag s)
  then mkP sb' sp' (rb s) (rp s) 0 0 true (ic s)
  else mkP sb' sp' (rb s) (rp s) (rbo s) (rpo s) (flag s) (ic s).

(* read_message, "check for rekey" block; len = raw_packet_size = packet_size + mac_size_in + 4
   (again every byte of the packet on the wire).  The state is updated before the raise. *)
Definition recv_op (c : cfg) (s : pstate) (len : Z) : pstate * Z :=
  let rb' := rb s + len in
  let rp' := rp s + 1 in
  if flag s then
    let rbo' := rbo s + len in
    let rpo' := rpo s + 1 in
    let s' := mkP (sb s) (sp s) rb' rp' rbo' rpo' true (ic s) in
    if (OP c <=? rpo') || (OB c <=? rbo') then (s', c_ssh) else (s', c_ok)
  else if (RP c <=? rp') || (RB c <=? rb')
  then (mkP (sb s) (sp s) rb' rp' 0 0 true (ic s), c_ok)
  else (mkP (sb s) (sp s) rb' rp' (rbo s) (rpo s) false (ic s), c_ok).

(* the tail shared by set_outbound_cipher / set_inbound_cipher:
     self.__init_count |= bit
     if self.__init_count == 3: self.__init_count = 0; self.__need_rekey = False *)
Definition both_done (s : pstate) (bit : Z) : pstate :=
  let ic' := Z.lor (ic s) bit in
  if ic' =? 3 then mkP (sb s) (sp s) (rb s) (rp s) (rbo s) (rpo s) false 0
  else mkP (sb s) (sp s) (rb s) (rp s) (rbo s) (rpo s) (flag s) ic'.

(* set_outbound_cipher: __sent_bytes = 0; __sent_packets = 0; ... *)
Definition set_out (s : pstate) : pstate :=
  both_done (mkP 0 0 (rb s) (rp s) (rbo s) (rpo s) (flag s) (ic s)) 1.

(* set_inbound_cipher: the four received counters = 0; ... *)
Definition set_in (s : pstate) : pstate :=
  both_done (mkP (sb s) (sp s) 0 0 0 0 (flag s) (ic s)) 2.

(* read_message -> read_all(block_size, check_rekey=True) when the socket times out before any
   byte arrived: raise NeedRekeyException iff __need_rekey; otherwise the read keeps waiting *)
Definition idle_op (s : pstate) : Z := if flag s then c_needrekey else c_ok.

Inductive op := Send (len : Z) | Recv (len : Z) | SetOut | SetIn | Idle.

Definition step (c : cfg) (s : pstate) (o : op) : pstate * Z :=
  match o with
  | Send len => (send_op c s len, c_ok)
  | Recv len => recv_op c s len
  | SetOut => (set_out s, c_ok)
  | SetIn => (set_in s, c_ok)
  | Idle => (s, idle_op s)
  end.

(* state after a sequence of operations (exceptions do not stop the packetizer object: the
   caller decides; the transport closes, see titer below) *)
Fixpoint run (c : cfg) (s : pstate) (ops : list op) : pstate :=
  match ops with
  | [] => s
  | o :: r => run c (fst (step c s o)) r
  end.

(* result codes of each operation of a sequence *)
Fixpoint codes (c : cfg) (s : pstate) (ops : list op) : list Z :=
  match ops with
  | [] => []
  | o :: r => snd (step c s o) :: codes c (fst (step c s o)) r
  end.

Definition is_set_in (o : op) : bool := match o with SetIn => true | _ => false end.
Definition is_set (o : op) : bool := match o with SetIn | SetOut => true | _ => false end.
Definition op_len_ok (o : op) : bool :=
  match o with Send l | Recv l => 0 <=? l | _ => true end.

(* number of packets / bytes received resp. sent in a sequence *)
Fixpoint nrecv (ops : list op) : Z :=
  match ops with [] => 0 | Recv _ :: r => 1 + nrecv r | _ :: r => nrecv r end.
Fixpoint brecv (ops : list op) : Z :=
  match ops with [] => 0 | Recv l :: r => l + brecv r | _ :: r => brecv r end.
Fixpoint nsend (ops : list op) : Z :=
  match ops with [] => 0 | Send _ :: r => 1 + nsend r | _ :: r => nsend r end.
Fixpoint bsend (ops : list op) : Z :=
  match ops with [] => 0 | Send l :: r => l + bsend r | _ :: r => bsend r end.

Definition dropped (c : cfg) (s : pstate) (ops : list op) : bool :=
  existsb (fun k => k =? c_ssh) (codes c s ops).

(* ---- transport run loop --------------------------------------------------------------- *)
(* in_kex, local_kex_init is not None, active, and the number of KEXINIT messages emitted *)
Record tstate := mkT { pk : pstate; in_kex : bool; lki : bool; alive : bool; kexinits : Z }.

Definition tinit : tstate := mkT init false false true 0.

(* _send_kex_init: in_kex = True; local_kex_init = m; _send_message(m)  (klen wire bytes) *)
Definition send_kex_init (c : cfg) (t : tstate) (klen : Z) : tstate :=
  mkT (send_op c (pk t) klen) true true (alive t) (kexinits t + 1).

(* what read_message delivers in one iteration of the loop *)
Inductive rd :=
  | RIdle                       (* socket timeout with nothing read *)
  | RData (len : Z)             (* a packet whose handler does not touch the re-key state *)
  | RKexInit (len : Z)          (* peer's KEXINIT: _negotiate_keys *)
  | RKexDone (len nlen : Z)     (* peer's last kex message: the engine calls _activate_outbound,
                                   which sends NEWKEYS (nlen wire bytes) and set_outbound_cipher *)
  | RNewKeys (len : Z).         (* peer's NEWKEYS: _parse_newkeys -> _activate_inbound *)

Definition rd_len (r : rd) : Z :=
  match r with RIdle => 0 | RData l | RKexInit l | RKexDone l _ | RNewKeys l => l end.

(* one iteration of `while self.active:` in Transport.run; klen = wire size of a KEXINIT
       if self.packetizer.need_rekey() and not self.in_kex: self._send_kex_init()
       try: ptype, m = self.packetizer.read_message()
       except NeedRekeyException: continue
       ... handler ...
   an SSHException ends the loop (active = False, packetizer closed) *)
Definition titer (c : cfg) (klen : Z) (t : tstate) (r : rd) : tstate :=
  if negb (alive t) then t else
  let t1 := if flag (pk t) && negb (in_kex t) then send_kex_init c t klen else t in
  match r with
  | RIdle => t1
  | _ =>
    let '(p2, code) := recv_op c (pk t1) (rd_len r) in
    if code =? c_ssh then mkT p2 (in_kex t1) (lki t1) false (kexinits t1) else
    let t2 := mkT p2 (in_kex t1) (lki t1) true (kexinits t1) in
    match r with
    | RKexInit _ =>
        (* if self.local_kex_init is None: self._send_kex_init() *)
        if lki t2 then t2 else send_kex_init c t2 klen
    | RKexDone _ nlen =>
        (* _send_message(NEWKEYS); set_outbound_cipher(...);
           if not self.packetizer.need_rekey(): self.in_kex = False *)
        let p3 := set_out (send_op c (pk t2) nlen) in
        mkT p3 (if flag p3 then in_kex t2 else false) (lki t2) true (kexinits t2)
    | RNewKeys _ =>
        (* _activate_inbound(); local_kex_init = None;
           if not self.packetizer.need_rekey(): self.in_kex = False *)
        let p3 := set_in (pk t2) in
        mkT p3 (if flag p3 then in_kex t2 else false) false true (kexinits t2)
    | _ => t2
    end
  end.

(* whether the idle read of an iteration returns control to the loop (NeedRekeyException ->
   continue) instead of waiting for the peer *)
Definition idle_returns (t : tstate) : bool := flag (pk t).

(* a send by another thread (channel data, ...) *)
Definition tsend (c : cfg) (t : tstate) (len : Z) : tstate :=
  if alive t then mkT (send_op c (pk t) len) (in_kex t) (lki t) (alive t) (kexinits t) else t.

Inductive tev := TIter (r : rd) | TSend (len : Z).

Definition tstep (c : cfg) (klen : Z) (t : tstate) (e : tev) : tstate :=
  match e with TIter r => titer c klen t r | TSend l => tsend c t l end.

Fixpoint trun (c : cfg) (klen : Z) (t : tstate) (es : list tev) : tstate :=
  match es with [] => t | e :: r => trun c klen (tstep c klen t e) r end.

(* a complete, well-behaved re-key as seen by this side after it sent KEXINIT:
   peer KEXINIT, peer's last kex message (we answer NEWKEYS), peer NEWKEYS *)
Definition rekey_round (a b n d : Z) : list tev :=
  [TIter (RKexInit a); TIter (RKexDone b n); TIter (RNewKeys d)].

(* ---- vocabulary of the theorems ------------------------------------------------------------- *)
Definition ic_ok (s : pstate) : Prop := ic s = 0 \/ ic s = 1 \/ ic s = 2.

Definition counters_zero (s : pstate) : Prop :=
  sb s = 0 /\ sp s = 0 /\ rb s = 0 /\ rp s = 0 /\ rbo s = 0 /\ rpo s = 0.

(* ordinary events: sends, data packets, idle reads (no key-exchange message from the peer) *)
Definition is_plain (e : tev) : bool :=
  match e with TSend l => 0 <=? l | TIter RIdle => true | TIter (RData l) => 0 <=? l | _ => false end.
Fixpoint ndata (es : list tev) : Z :=
  match es with [] => 0 | TIter (RData _) :: r => 1 + ndata r | _ :: r => ndata r end.
Fixpoint bdata (es : list tev) : Z :=
  match es with [] => 0 | TIter (RData l) :: r => l + bdata r | _ :: r => bdata r end.

(* transport between two exchanges, k KEXINITs sent so far *)
Definition tfresh (k : Z) : tstate := mkT init false false true k.

(* one round: traffic that crosses a threshold (and stays within the allowance), then an iteration
   (idle or not is irrelevant: we use an idle one), then the peer's three kex messages *)
Definition round_ok (c : cfg) (klen : Z) (x : list tev * (Z * Z * Z * Z)) : Prop :=
  let '(tr, (a, b, n, d)) := x in
  forallb is_plain tr = true /\
  let t := trun c klen (tfresh 0) tr in
  alive t = true /\ flag (pk t) = true /\
  rpo (pk t) + 3 < OP c /\ rbo (pk t) + (a + b + d) < OB c /\ 0 <= a /\ 0 <= b /\ 0 <= d.

Definition round_events (x : list tev * (Z * Z * Z * Z)) : list tev :=
  let '(tr, (a, b, n, d)) := x in tr ++ TIter RIdle :: rekey_round a b n d.

(* ---- canonical output for the correspondence run ------------------------------------------ *)
Definition b2z (b : bool) : Z := if b then 1 else 0.

Fixpoint run_trace (c : cfg) (s : pstate) (ops : list op) : list Z :=
  match ops with
  | [] => []
  | o :: r =>
      let '(s', k) := step c s o in
      k :: b2z (need_rekey s') :: run_trace c s' r
  end.

(* input: ((RP, RB, OP, OB), ops); output: for each op its result code and need_rekey() after it *)
Definition run_ops (x : (Z * Z * Z * Z) * list op) : list Z :=
  let '((a, b, cc, d), ops) := x in run_trace (mkCfg a b cc d) init ops.
