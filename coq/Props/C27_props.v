(* C27 — remote SFTP files behave like local Python binary files.
   Property statements only; every proof is `exact <lemma from Proofs/C27_proofs.v>`.

   Full statement (C27_refines), NOT proved and in fact false for the code as it is (see the
   _refuted theorems): for every mode in {r, r+, w, w+, a, a+, x}, buffer size, initial file and
   op sequence over read / readline / readlines / write / seek / tell / truncate / flush,
       fst (sf_run fuel f0 ops) = fst (ref_run r0 ops)  /\
       final_content fuel (snd (sf_run fuel f0 ops)) = r_content (snd (ref_run r0 ops)).
   What is proved: C27_refines_partial — the same conclusion for every op sequence made of
   read(n) / read() / readline(size) / seek / tell (read_only_op), every readable mode, buffer
   size, initial file and chunk behaviour of the server; missing cases: write, flush, truncate,
   readlines, and the non-readable modes (w, a, x), which are covered by the differential run
   only.  sf_* is the model of SFTPFile over BufferedFile (C42) over the server handle with its
   __tell cache; ref_* is Lib/FileSpec.v. *)
From PV Require Import Bytes C42 C42_proofs FileSpec C27 C27_proofs.
Open Scope Z_scope.

Theorem C27_refines_partial :
  forall (m : fmode) (bufsz : Z) (file : option (list Z)) (ops : list fop) (fuel : nat)
         (f0 : sfile) (r0 : rfile),
    sf_open m bufsz file = Some f0 -> ref_open m file = Some r0 ->
    m_read m = true -> forallb read_only_op ops = true ->
    (length (r_content r0) < fuel)%nat ->
    fst (sf_run fuel f0 ops) = fst (ref_run r0 ops) /\
    final_content fuel (snd (sf_run fuel f0 ops)) = r_content (snd (ref_run r0 ops)).
Proof. exact refines_partial. Qed.
Print Assumptions C27_refines_partial.

(* open() succeeds remotely exactly when it succeeds locally: every mode, missing or existing file *)
Theorem C27_open_agrees :
  forall (m : fmode) (bufsz : Z) (file : option (list Z)),
    sf_open m bufsz file = None <-> ref_open m file = None.
Proof. exact open_agrees. Qed.
Print Assumptions C27_open_agrees.

(* the server handle (after the repair of the append-mode __tell cache) serves exactly the bytes
   at the requested offset, whatever requests came before: it is a prefix reader *)
Theorem C27_server_read_exact :
  forall (c : list Z) (s : srv) (rp n : Z) (d : list Z) (s' : srv),
    sInv c s rp -> 0 < n -> s_read s rp n = (d, s') ->
    sRem s rp = d ++ sRem s' (rp + zlen d) /\ zlen d <= n /\ (d = [] -> sRem s rp = []) /\
    sInv c s' (rp + zlen d).
Proof. exact s_read_spec. Qed.
Print Assumptions C27_server_read_exact.

(* ---- divergences of the code as it is (known findings), each a concrete witness ---- *)
Theorem C27_read_with_pending_write_refuted :
  diverges Mrp 8 [10;10;121;10;121] [FWrite [97;10;97;97]; FReadline None].
Proof. exact refuted_read_pending. Qed.
Print Assumptions C27_read_with_pending_write_refuted.

Theorem C27_tell_with_pending_write_refuted : diverges Mw 65536 [] [FWrite [97;98;99]; FTell].
Proof. exact refuted_tell_pending. Qed.
Print Assumptions C27_tell_with_pending_write_refuted.

Theorem C27_write_after_readline_refuted :
  diverges Mrp 0 [97;10;98;10;99] [FReadline None; FWrite [88]].
Proof. exact refuted_write_after_readline. Qed.
Print Assumptions C27_write_after_readline_refuted.

Theorem C27_truncate_with_pending_write_refuted : diverges Mw 64 [] [FWrite [97;98]; FTruncate 0].
Proof. exact refuted_truncate_pending. Qed.
Print Assumptions C27_truncate_with_pending_write_refuted.

Theorem C27_truncate_read_only_refuted : diverges Mr 0 [97;98;99] [FTruncate 1].
Proof. exact refuted_truncate_readonly. Qed.
Print Assumptions C27_truncate_read_only_refuted.

Theorem C27_stale_after_truncate_refuted :
  diverges Ma 0 [] [FWrite [97;98]; FTruncate 0; FWrite [99]; FTell].
Proof. exact refuted_stale_after_truncate. Qed.
Print Assumptions C27_stale_after_truncate_refuted.

Theorem C27_bare_x_refuted :
  exists f0 r0, sf_open Mxbare 0 None = Some f0 /\ ref_open Mxbare None = Some r0 /\
    fst (sf_run 100 f0 [FWrite [97]]) <> fst (ref_run r0 [FWrite [97]]).
Proof. exact refuted_bare_x. Qed.
Print Assumptions C27_bare_x_refuted.

(* non-vacuity of C27_refines_partial: an "a+" file with bufsize 3, mixed reads and seeks incl.
   a rejected negative seek, meets the hypotheses; the results are the reference's *)
Example C27_example :
  let file := Some [97;98;10;99;100;10;101] in
  let ops := [FTell; FSeek 0 0; FReadline None; FRead (Some 2); FSeek (-9) 1; FSeek (-3) 2; FRead None; FTell] in
  exists f0 r0, sf_open Map 3 file = Some f0 /\ ref_open Map file = Some r0 /\
    m_read Map = true /\ forallb read_only_op ops = true /\
    fst (sf_run 20 f0 ops) =
      [FInt 7; FNone; FBytes [97;98;10]; FBytes [99;100]; FExn; FNone; FBytes [100;10;101]; FInt 7].
Proof. eexists _, _. repeat split. Qed.
