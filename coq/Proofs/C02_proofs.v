From PV Require Import Bytes C01 C01_proofs C02.
From Coq Require Import ZArith List Bool Lia ZifyBool.
Import ListNotations.
Open Scope Z_scope.
Lemma stub2_true : True. Proof. exact I. Qed.
