(* Shared byte-level library: stdlib + Lia only. *)
From Coq Require Export ZArith List Bool Lia.
Export ListNotations.
Open Scope Z_scope.

Definition byte_ok (b : Z) : bool := (0 <=? b) && (b <? 256).
Definition bytes_ok (l : list Z) : bool := forallb byte_ok l.

Lemma byte_ok_iff b : byte_ok b = true <-> 0 <= b < 256.
Proof. unfold byte_ok. rewrite andb_true_iff, Z.leb_le, Z.ltb_lt. tauto. Qed.

Lemma bytes_ok_app a b : bytes_ok (a ++ b) = bytes_ok a && bytes_ok b.
Proof. unfold bytes_ok. apply forallb_app. Qed.

Lemma bytes_ok_cons x l : bytes_ok (x :: l) = byte_ok x && bytes_ok l.
Proof. reflexivity. Qed.

Lemma bytes_ok_repeat b n : byte_ok b = true -> bytes_ok (repeat b n) = true.
Proof. intros H. induction n as [|n IH]; [reflexivity|]. cbn [repeat]. rewrite bytes_ok_cons, H, IH. reflexivity. Qed.

Lemma bytes_ok_firstn n l : bytes_ok l = true -> bytes_ok (firstn n l) = true.
Proof.
  revert n. induction l as [|x l IH]; intros [|n] H; cbn in *; try reflexivity.
  apply andb_true_iff in H as [Hx Hl]. now rewrite Hx, IH.
Qed.

Lemma bytes_ok_skipn n l : bytes_ok l = true -> bytes_ok (skipn n l) = true.
Proof.
  revert n. induction l as [|x l IH]; intros [|n] H; cbn in *; try reflexivity; try assumption.
  apply andb_true_iff in H as [Hx Hl]. now apply IH.
Qed.

(* unsigned big-endian value of a byte string *)
Fixpoint be_decode_acc (acc : Z) (l : list Z) : Z :=
  match l with
  | [] => acc
  | b :: r => be_decode_acc (acc * 256 + b) r
  end.
Definition be_decode (l : list Z) : Z := be_decode_acc 0 l.

(* the n low-order bytes of v, big-endian *)
Fixpoint be_encode (n : nat) (v : Z) : list Z :=
  match n with
  | O => []
  | S k => be_encode k (v / 256) ++ [v mod 256]
  end.

Lemma be_decode_acc_app acc a b :
  be_decode_acc acc (a ++ b) = be_decode_acc (be_decode_acc acc a) b.
Proof. revert acc. induction a as [|x a IH]; intros acc; cbn; [reflexivity|apply IH]. Qed.

Lemma be_decode_acc_shift acc l :
  be_decode_acc acc l = acc * 256 ^ Z.of_nat (length l) + be_decode l.
Proof.
  unfold be_decode. revert acc. induction l as [|x l IH]; intros acc.
  - cbn. lia.
  - cbn [be_decode_acc length]. rewrite IH. rewrite (IH (0 * 256 + x)).
    rewrite Nat2Z.inj_succ, Z.pow_succ_r by lia. lia.
Qed.

Lemma be_decode_app a b :
  be_decode (a ++ b) = be_decode a * 256 ^ Z.of_nat (length b) + be_decode b.
Proof. unfold be_decode at 1. rewrite be_decode_acc_app. apply be_decode_acc_shift. Qed.

Lemma be_decode_cons x l :
  be_decode (x :: l) = x * 256 ^ Z.of_nat (length l) + be_decode l.
Proof. change (x :: l) with ([x] ++ l). rewrite be_decode_app. cbn. lia. Qed.

Lemma be_decode_nil : be_decode [] = 0.
Proof. reflexivity. Qed.

Lemma be_decode_range l : bytes_ok l = true -> 0 <= be_decode l < 256 ^ Z.of_nat (length l).
Proof.
  induction l as [|x l IH]; intros H.
  - cbn. lia.
  - cbn in H. apply andb_true_iff in H as [Hx Hl]. apply byte_ok_iff in Hx.
    specialize (IH Hl). rewrite be_decode_cons. cbn [length].
    rewrite Nat2Z.inj_succ, Z.pow_succ_r by lia. nia.
Qed.

Lemma be_encode_length n v : length (be_encode n v) = n.
Proof. revert v. induction n as [|n IH]; intros v; cbn; [reflexivity|]. rewrite app_length, IH. cbn. lia. Qed.

Lemma be_encode_ok n v : bytes_ok (be_encode n v) = true.
Proof.
  revert v. induction n as [|n IH]; intros v; cbn; [reflexivity|].
  rewrite bytes_ok_app, IH. cbn. rewrite andb_true_r. apply byte_ok_iff.
  apply Z.mod_pos_bound. lia.
Qed.

Lemma be_decode_encode n v :
  0 <= v < 256 ^ Z.of_nat n -> be_decode (be_encode n v) = v.
Proof.
  revert v. induction n as [|n IH]; intros v Hv.
  - cbn in *. lia.
  - cbn [be_encode]. rewrite be_decode_app. cbn [length].
    rewrite Nat2Z.inj_succ, Z.pow_succ_r in Hv by lia.
    rewrite IH.
    + change (be_decode [v mod 256]) with (0 * 256 + v mod 256).
      change (256 ^ Z.of_nat 1) with 256. 
      pose proof (Z.div_mod v 256 ltac:(lia)). lia.
    + split; [apply Z.div_pos; lia|]. apply Z.div_lt_upper_bound; lia.
Qed.

Lemma be_decode_encode_mod n v :
  be_decode (be_encode n v) = v mod 256 ^ Z.of_nat n.
Proof.
  revert v. induction n as [|n IH]; intros v.
  - cbn. now rewrite Z.mod_1_r.
  - cbn [be_encode]. rewrite be_decode_app, IH. cbn [length].
    change (be_decode [v mod 256]) with (0 * 256 + v mod 256).
    change (256 ^ Z.of_nat 1) with 256.
    rewrite Nat2Z.inj_succ, Z.pow_succ_r by lia.
    assert (Hp : 0 < 256 ^ Z.of_nat n) by (apply Z.pow_pos_nonneg; lia).
    rewrite Z.rem_mul_r by lia. lia.
Qed.

Lemma be_encode_decode l :
  bytes_ok l = true -> be_encode (length l) (be_decode l) = l.
Proof.
  induction l as [|x l IH] using rev_ind; intros H; [reflexivity|].
  rewrite bytes_ok_app in H. apply andb_true_iff in H as [Hl Hx].
  cbn in Hx. rewrite andb_true_r in Hx. apply byte_ok_iff in Hx.
  rewrite app_length. cbn [length]. rewrite Nat.add_1_r. cbn [be_encode].
  rewrite be_decode_app. cbn [length]. change (256 ^ Z.of_nat 1) with 256.
  change (be_decode [x]) with (0 * 256 + x).
  assert (E1 : (be_decode l * 256 + (0 * 256 + x)) / 256 = be_decode l)
    by (rewrite Z.div_add_l by lia; rewrite Z.div_small by lia; lia).
  assert (E2 : (be_decode l * 256 + (0 * 256 + x)) mod 256 = x)
    by (rewrite Z.add_comm, Z.mod_add by lia; apply Z.mod_small; lia).
  rewrite E1, E2.
  now rewrite IH.
Qed.

(* Python exceptions, as a small enum, and results *)
Inductive exn :=
  | SSHExc | IncompatiblePeer | MessageOrderError | EOFErr | SocketTimeout
  | SocketErr | KeyErr | IndexErr | ValueErr | TypeErr | UnicodeErr | StructErr
  | AssertErr | PasswordRequired | AttrErr | IOErr | LibExc (k : Z) | OutOfFuel.

Inductive result (A : Type) := Ok (a : A) | Raise (e : exn).
Arguments Ok {A} a.
Arguments Raise {A} e.

Definition bind {A B} (r : result A) (f : A -> result B) : result B :=
  match r with Ok a => f a | Raise e => Raise e end.

Definition exn_code (e : exn) : Z :=
  match e with
  | SSHExc => 1 | IncompatiblePeer => 2 | MessageOrderError => 3 | EOFErr => 4
  | SocketTimeout => 5 | SocketErr => 6 | KeyErr => 7 | IndexErr => 8
  | ValueErr => 9 | TypeErr => 10 | UnicodeErr => 11 | StructErr => 12
  | AssertErr => 13 | PasswordRequired => 14 | AttrErr => 15 | IOErr => 16
  | LibExc k => 100 + k | OutOfFuel => 99
  end.

(* list equality used by correspondence case files *)
Fixpoint zlist_eqb (a b : list Z) : bool :=
  match a, b with
  | [], [] => true
  | x :: a', y :: b' => (x =? y) && zlist_eqb a' b'
  | _, _ => false
  end.

Lemma zlist_eqb_eq a b : zlist_eqb a b = true <-> a = b.
Proof.
  revert b. induction a as [|x a IH]; intros [|y b]; cbn; split; intros H; try congruence; try discriminate.
  - apply andb_true_iff in H as [H1 H2]. apply Z.eqb_eq in H1. apply IH in H2. congruence.
  - injection H as -> ->. rewrite Z.eqb_refl. cbn. now apply IH.
Qed.

(* indices (0-based) of the cases whose model output differs from the expected output *)
Fixpoint mismatches_from {A} (run : A -> list Z) (i : Z) (cs : list (A * list Z)) : list Z :=
  match cs with
  | [] => []
  | (a, e) :: r =>
      if zlist_eqb (run a) e then mismatches_from run (i + 1) r
      else i :: mismatches_from run (i + 1) r
  end.
Definition mismatches {A} (run : A -> list Z) (cs : list (A * list Z)) : list Z :=
  mismatches_from run 0 cs.
