(* C29 - lemmas.  Statements of the property theorems are in Props/C29_props.v. *)
From Coq Require Import ZArith List Bool Lia ZifyBool.
From PV Require Import Bytes C30_gen C30 C30_proofs C29.
Import ListNotations.
Open Scope Z_scope.

Lemma zlen_app a b : zlen (a ++ b) = zlen a + zlen b.
Proof. unfold zlen. rewrite app_length. lia. Qed.

Lemma apply_write_append file d : apply_write file (zlen file) d = file ++ d.
Proof.
  unfold apply_write, zlen. rewrite Nat2Z.id, Nat.sub_diag. cbn [repeat].
  rewrite app_nil_r, firstn_all, skipn_all2 by lia. rewrite app_nil_r. reflexivity.
Qed.

Lemma firstn_skipn_len {A} k (l : list A) : firstn k l ++ skipn (length (firstn k l)) l = l.
Proof.
  rewrite firstn_length. destruct (Nat.le_ge_cases k (length l)) as [H | H].
  - rewrite Nat.min_l by exact H. apply firstn_skipn.
  - rewrite Nat.min_r by exact H. rewrite firstn_all2 by exact H. rewrite skipn_all. apply app_nil_r.
Qed.

(* destruct the matches of a hypothesis, innermost scrutinee first *)
Ltac brkH H :=
  match type of H with
  | context [match ?x with _ => _ end] =>
      lazymatch x with
      | context [match _ with _ => _ end] => fail
      | _ => destruct x eqn:?
      end
  end.

(* write_op does not touch _closed *)
Lemma write_op_closed ready rp f c r f' c' :
  write_op true ready rp f c = (r, f', c') -> f_closed f' = f_closed f.
Proof.
  unfold write_op. intros H. repeat brkH H; inversion H; reflexivity.
Qed.

Definition synced (s : pst) : Prop := p_pos s = zlen (p_file s).
Definition good (s : pst) : Prop := accepted (p_env s) /\ synced s /\ f_closed (p_f s) = false.

Lemma fwrite1_acc mrs s data r n s1 :
  good s -> fwrite1 mrs s data = (r, n, s1) ->
  let chunk := firstn (Z.to_nat (Z.min (zlen data) mrs)) data in
  n = zlen chunk /\ p_file s1 = p_file s ++ chunk /\ p_pos s1 = p_pos s /\ p_wbuf s1 = p_wbuf s /\
  accepted (p_env s1) /\ f_closed (p_f s1) = false.
Proof.
  intros [Hacc [Hsync Hcl]] H. unfold fwrite1 in H.
  destruct (next_env (p_env s)) as [[ready code] env'] eqn:En.
  assert (code = g_SFTP_OK /\ accepted env') as [-> Hacc'].
  { unfold next_env in En. destruct (p_env s) as [|x rest]; inversion En; subst.
    - split; [reflexivity | constructor].
    - inversion Hacc as [|? ? Hx Hr]; subst. cbn in Hx. split; assumption. }
  rewrite Z.eqb_refl in H.
  destruct (write_op true ready (g_CMD_STATUS, g_SFTP_OK) (p_f s) (p_c s)) as [[r' f'] c'] eqn:Ew.
  apply write_op_closed in Ew. inversion H; subst. cbn [p_file p_pos p_wbuf p_env p_f].
  rewrite Hsync, apply_write_append. repeat split; auto. congruence.
Qed.

Lemma write_all_acc mrs fuel : forall s data s1,
  good s -> write_all mrs fuel s data = (ORet, s1) ->
  p_file s1 = p_file s ++ data /\ p_wbuf s1 = p_wbuf s /\ good s1.
Proof.
  induction fuel as [|k IH]; intros s data s1 Hg H; destruct data as [|x data']; cbn [write_all] in H;
    try (inversion H; subst; rewrite app_nil_r; auto; fail); try discriminate H.
  destruct (fwrite1 mrs s (x :: data')) as [[r n] s0] eqn:Ef.
  pose proof (fwrite1_acc _ _ _ _ _ _ Hg Ef) as [Hn [Hf [Hp [Hw [Ha Hc]]]]].
  destruct r; try discriminate H.
  apply IH in H.
  - cbn [p_file p_wbuf] in H. destruct H as [A [B C]]. split; [|split; [congruence | exact C]].
    rewrite A, Hf, <- app_assoc. f_equal. rewrite Hn. unfold zlen. rewrite Nat2Z.id.
    apply firstn_skipn_len.
  - repeat split; cbn [p_env p_pos p_file p_f]; auto.
    destruct Hg as [_ [Hs _]]. unfold synced in *. cbn [p_pos p_file]. rewrite Hp, Hs, Hf, Hn, zlen_app. reflexivity.
Qed.

Lemma flush_acc mrs s s1 :
  good s -> flush mrs s = (ORet, s1) ->
  p_file s1 = p_file s ++ p_wbuf s /\ p_wbuf s1 = [] /\ good s1.
Proof.
  intros Hg H. unfold flush in H.
  destruct (write_all mrs (length (p_wbuf s)) s (p_wbuf s)) as [r s0] eqn:Ew.
  destruct r; try discriminate H. apply write_all_acc in Ew; [|exact Hg].
  destruct Ew as [A [B [C [D E]]]]. inversion H; subst. cbn. repeat split; auto.
Qed.

Lemma bwrite_acc mrs s data s1 :
  good s -> bwrite mrs s data = (ORet, s1) ->
  p_file s1 = p_file s ++ data /\ p_wbuf s1 = p_wbuf s /\ good s1.
Proof.
  intros Hg H. unfold bwrite in H. destruct Hg as [Ha [Hs Hc]]. rewrite Hc in H.
  apply write_all_acc in H; [exact H | repeat split; assumption].
Qed.

Lemma transfer_acc mrs chunks : forall s size sz s1,
  good s -> transfer mrs s chunks size = (ORet, sz, s1) ->
  p_file s1 = p_file s ++ concat chunks /\ p_wbuf s1 = p_wbuf s /\ good s1.
Proof.
  induction chunks as [|ch rest IH]; intros s size sz s1 Hg H; cbn [transfer] in H.
  - destruct (bwrite mrs s []) as [r s0] eqn:Eb. inversion H; subst.
    apply bwrite_acc in Eb; [|exact Hg]. cbn [concat]. exact Eb.
  - destruct (bwrite mrs s ch) as [r s0] eqn:Eb. destruct r; try discriminate H.
    apply bwrite_acc in Eb; [|exact Hg]. destruct Eb as [A [B C]].
    apply IH in H; [|exact C]. destruct H as [D [E F]]. split; [|split; [congruence | exact F]].
    rewrite D, A. cbn [concat]. rewrite <- app_assoc. reflexivity.
Qed.

Lemma transfer_size mrs chunks : forall s size sz s1,
  transfer mrs s chunks size = (ORet, sz, s1) -> sz = size + zlen (concat chunks).
Proof.
  induction chunks as [|ch rest IH]; intros s size sz s1 H; cbn [transfer] in H.
  - destruct (bwrite mrs s []) as [r s0]. inversion H; subst. cbn. unfold zlen. cbn. lia.
  - destruct (bwrite mrs s ch) as [r s0]. destruct r; try discriminate H.
    apply IH in H. cbn [concat]. rewrite zlen_app. lia.
Qed.

Lemma pclose_acc mrs s rp s2 :
  good s -> pclose mrs s rp = (ORet, s2) -> p_file s2 = p_file s ++ p_wbuf s.
Proof.
  intros Hg H. unfold pclose in H. destruct Hg as [Ha [Hs Hc]]. rewrite Hc in H.
  destruct (flush mrs s) as [r s1] eqn:Ef. destruct r; try discriminate H.
  apply flush_acc in Ef; [|repeat split; assumption]. destruct Ef as [A _].
  destruct (request (p_c s1) rp) as [[[r2 t2] k2] c2].
  destruct r2 as [|e|]; [|destruct e|]; inversion H; subst; cbn [p_file]; exact A.
Qed.

(* request numbers stay fresh along the whole upload, whatever the server answers *)
Lemma fwrite1_wf mrs s data r n s1 : wf (p_c s) -> fwrite1 mrs s data = (r, n, s1) -> wf (p_c s1).
Proof.
  intros Hw H. unfold fwrite1 in H. destruct (next_env (p_env s)) as [[ready code] env'].
  destruct (write_op true ready (g_CMD_STATUS, code) (p_f s) (p_c s)) as [[r' f'] c'] eqn:Ew.
  apply write_op_wf in Ew; [|exact Hw]. inversion H; subst. exact Ew.
Qed.

Lemma write_all_wf mrs fuel : forall s data r s1, wf (p_c s) -> write_all mrs fuel s data = (r, s1) -> wf (p_c s1).
Proof.
  induction fuel as [|k IH]; intros s data r s1 Hw H; destruct data as [|x data']; cbn [write_all] in H;
    try (inversion H; subst; exact Hw).
  destruct (fwrite1 mrs s (x :: data')) as [[r0 n] s0] eqn:Ef.
  apply fwrite1_wf in Ef; [|exact Hw].
  destruct r0; try (inversion H; subst; exact Ef).
  apply IH in H; [exact H | exact Ef].
Qed.

Lemma flush_wf mrs s r s1 : wf (p_c s) -> flush mrs s = (r, s1) -> wf (p_c s1).
Proof.
  intros Hw H. unfold flush in H.
  destruct (write_all mrs (length (p_wbuf s)) s (p_wbuf s)) as [r0 s0] eqn:Ew.
  apply write_all_wf in Ew; [|exact Hw]. destruct r0; inversion H; subst; exact Ew.
Qed.

Lemma bwrite_wf mrs s data r s1 : wf (p_c s) -> bwrite mrs s data = (r, s1) -> wf (p_c s1).
Proof.
  intros Hw H. unfold bwrite in H. destruct (f_closed (p_f s)); [inversion H; subst; exact Hw|].
  apply write_all_wf in H; [exact H | exact Hw].
Qed.

Lemma transfer_wf mrs chunks : forall s size r sz s1,
  wf (p_c s) -> transfer mrs s chunks size = (r, sz, s1) -> wf (p_c s1).
Proof.
  induction chunks as [|ch rest IH]; intros s size r sz s1 Hw H; cbn [transfer] in H.
  - destruct (bwrite mrs s []) as [r0 s0] eqn:Eb. apply bwrite_wf in Eb; [|exact Hw].
    inversion H; subst. exact Eb.
  - destruct (bwrite mrs s ch) as [r0 s0] eqn:Eb. apply bwrite_wf in Eb; [|exact Hw].
    destruct r0; try (inversion H; subst; exact Eb). eapply IH; eauto.
Qed.

Lemma pclose_wf mrs s rp r s2 : wf (p_c s) -> pclose mrs s rp = (r, s2) -> wf (p_c s2).
Proof.
  intros Hw H. unfold pclose in H. destruct (f_closed (p_f s)); [inversion H; subst; exact Hw|].
  destruct (flush mrs s) as [r0 s1] eqn:Ef. apply flush_wf in Ef; [|exact Hw].
  destruct r0; try (inversion H; subst; exact Ef).
  destruct (request (p_c s1) rp) as [[[r2 t2] k2] c2] eqn:Er. apply request_wf in Er; [|exact Ef].
  destruct r2 as [|e|]; [|destruct e|]; inversion H; subst; exact Er.
Qed.

(* what putfo returned normally with *)
Lemma putfo_ret_inv mrs chunks confirm env orp crp srp dest :
  putfo mrs chunks confirm env orp crp srp = (ORet, dest) ->
  exists c1 sz s1 s2,
    wf c1 /\
    transfer mrs (mkP (mkF true [] false) c1 0 [] [] env) chunks 0 = (ORet, sz, s1) /\
    pclose mrs s1 crp = (ORet, s2) /\ dest = p_file s2 /\
    (confirm = true -> srp = None -> zlen dest = sz).
Proof.
  unfold putfo. intros H.
  destruct (request c_init orp) as [[[r0 t0] k0] c1] eqn:Eo.
  apply request_wf in Eo; [|exact wf_init].
  destruct r0; try discriminate H.
  destruct (negb (t0 =? g_CMD_HANDLE)); try discriminate H.
  destruct (transfer mrs (mkP (mkF true [] false) c1 0 [] [] env) chunks 0) as [[r1 sz] s1] eqn:Et.
  destruct (pclose mrs s1 crp) as [r2 s2] eqn:Ec.
  assert (W2 : wf (p_c s2)).
  { eapply pclose_wf; [|exact Ec]. eapply transfer_wf; [|exact Et]. exact Eo. }
  destruct r1, r2; try discriminate H.
  exists c1, sz, s1, s2. split; [exact Eo|]. split; [exact Et|]. split; [exact Ec|].
  destruct confirm.
  - destruct srp as [rp|].
    + destruct (request (p_c s2) rp) as [[[r3 t3] k3] c3]. destruct r3; try discriminate H.
      destruct (negb (t3 =? g_CMD_ATTRS)); try discriminate H.
      destruct (k3 =? sz); inversion H. split; [reflexivity | intros _ X; discriminate X].
    + destruct (request_spec (p_c s2) g_CMD_ATTRS (zlen (p_file s2)) W2) as [c' Hr].
      rewrite Hr in H. change (status_result g_CMD_ATTRS (zlen (p_file s2))) with (RFound g_CMD_ATTRS (zlen (p_file s2))) in H.
      cbv beta iota in H. change (negb (g_CMD_ATTRS =? g_CMD_ATTRS)) with false in H. cbv beta iota in H.
      destruct (zlen (p_file s2) =? sz) eqn:Ek; inversion H. subst dest.
      split; [reflexivity|]. intros _ _. apply Z.eqb_eq in Ek. exact Ek.
  - inversion H. split; [reflexivity | intros X; discriminate X].
Qed.

Lemma init_good c1 env : accepted env -> good (mkP (mkF true [] false) c1 0 [] [] env).
Proof. intros H. repeat split; assumption. Qed.

(* exact or raise, for a server that accepts every write it is sent *)
Lemma putfo_exact_if_accepted mrs chunks confirm env orp crp srp dest :
  accepted env ->
  putfo mrs chunks confirm env orp crp srp = (ORet, dest) -> dest = concat chunks.
Proof.
  intros Ha H. apply putfo_ret_inv in H as [c1 [sz [s1 [s2 [_ [Et [Ec [-> _]]]]]]]].
  apply transfer_acc in Et; [|apply init_good, Ha]. destruct Et as [A [B G]].
  apply pclose_acc in Ec; [|exact G]. rewrite Ec, A, B. cbn. rewrite app_nil_r. reflexivity.
Qed.

(* with confirm=True and an honest stat, a normal return means the remote size is the byte count sent *)
Lemma putfo_confirm_size mrs chunks env orp crp dest :
  putfo mrs chunks true env orp crp None = (ORet, dest) -> zlen dest = zlen (concat chunks).
Proof.
  intros H. apply putfo_ret_inv in H as [c1 [sz [s1 [s2 [_ [Et [_ [_ Hs]]]]]]]].
  apply transfer_size in Et. rewrite Hs by reflexivity. lia.
Qed.

(* hence: a rejected write that leaves the file short is caught by confirm=True *)
Lemma putfo_confirm_short_raises mrs chunks env orp crp r dest :
  putfo mrs chunks true env orp crp None = (r, dest) ->
  zlen dest <> zlen (concat chunks) -> r <> ORet.
Proof. intros H Hne ->. apply putfo_confirm_size in H. contradiction. Qed.

(* ---- the defect (known finding): rejected pipelined writes are discarded ------------------- *)
Definition ok_rp : reply := (g_CMD_STATUS, g_SFTP_OK).
Definition handle_rp : reply := (g_CMD_HANDLE, 0).

(* one byte; the server rejects the write: putfo(confirm=False)
   returns normally and the remote file is empty *)
Lemma exact_or_raise_refuted_noconfirm :
  exists chunks env dest,
    putfo g_MAX_REQUEST_SIZE chunks false env handle_rp ok_rp None = (ORet, dest) /\
    dest <> concat chunks.
Proof.
  exists [[1]], [(false, g_SFTP_PERMISSION_DENIED)], []. split; [vm_compute; reflexivity | discriminate].
Qed.

(* two reads of one byte: the first write is rejected, the second (offset 1) accepted: the size
   matches, so putfo(confirm=True) returns normally although the first byte is a zero *)
Lemma exact_or_raise_refuted_confirm :
  exists chunks env dest,
    putfo g_MAX_REQUEST_SIZE chunks true env handle_rp ok_rp None = (ORet, dest) /\
    dest <> concat chunks /\ zlen dest = zlen (concat chunks).
Proof.
  exists [[1]; [2]], [(false, g_SFTP_FAILURE); (false, g_SFTP_OK)], [0; 2].
  split; [vm_compute; reflexivity | split; [discriminate | reflexivity]].
Qed.

(* non-vacuity of the positive theorems: a three-request upload that returns, exactly *)
Lemma putfo_example :
  putfo 4 [[1; 2; 3; 4; 5; 6; 7; 8; 9]; [10]] true [] handle_rp ok_rp None = (ORet, [1; 2; 3; 4; 5; 6; 7; 8; 9; 10]).
Proof. vm_compute. reflexivity. Qed.
