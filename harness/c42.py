"""C42 — buffered file wrappers (paramiko.file.BufferedFile, ChannelFile) preserve stream
content and line structure.

Proof: coq/Props/C42_props.v over coq/Model/C42.v (BufferedFile written statement by statement
over an abstract stream with arbitrary read chunking and partial writes).
Tie: the model's own definitions (vm_compute) against a real BufferedFile subclass / a real
ChannelFile over a chunking stub stream on random op sequences.
Oracle: stream equality / line structure / write completeness stated directly over the real
objects after every call.
"""
from common import coq, Raw

PID = "C42"
LEVEL_TEXT = ("Machine-checked proof (Coq, closed under the global context) over a statement-by-statement model "
              "of BufferedFile (binary mode) on an abstract stream: for EVERY chunking of the stream and every "
              "sequence of read(n)/read()/readline(size)/readlines/next, each call returns exactly the "
              "specified next bytes of the logical stream (so the concatenation of results is the prefix "
              "consumed), a line ends at the first newline, at size, or at EOF; for every partial-write "
              "behaviour of the stream, delivered ++ write buffer is exactly the data written, the buffer is "
              "empty after flush/close, and a line-buffered write leaves no newline in the buffer.  The model "
              "is tied to file.py/channel.py by a differential run on random op sequences every run, and its "
              "constants (_DEFAULT_BUFSIZE, FLAG_* bits, the mode-string/bufsize table of _set_mode) by a proved "
              "equality with tables regenerated from the source (gen/c42.py).  ChannelFile, ChannelStdinFile and "
              "ChannelStderrFile are additionally driven over a REAL Channel with a recording stub transport: the "
              "peer-visible byte stream after flush/close (right stream, complete, in order, EOF after the data, "
              "packet-size bound) and the bytes read back are checked directly.  Timeouts: a model of read(n) over "
              "a stream whose _read raises socket.timeout on an arbitrary schedule is proved to lose nothing across "
              "retries (C42_read_n_stream_timeouts) and is compared with the real code; read() and readline() "
              "under exceptions are checked by the oracle only.  Write side under exceptions (oracle only): a "
              "stream / a real Channel with a timeout and an exhausted peer window that raises during flush, "
              "then recovers -- everything pending must still arrive exactly once, in order (known finding: a "
              "flush interrupted AFTER part was accepted re-sends that part).")
LEVEL_NOTE = ("Trusted: Coq kernel + vm_compute; hand-written model coq/Model/C42.v validated by the "
              "correspondence run; universal-newline ('U') and text decoding are outside the Coq model and are "
              "covered only by the implementation-level oracle on ASCII data (readline()/iteration without "
              "size); a stream whose _write returns 0 is outside the Coq model (hypothesis 1 <= count <= len(data)) "
              "but inside the direct oracle: with finitely many 0 / short counts everything must still arrive, in "
              "order, in every buffering mode (a stream returning 0 forever makes _write_all spin -- a liveness "
              "question C42's text does not cover); negative counts are not considered; exceptions raised by the "
              "stream are modelled for read(n) only, the write side under exceptions is oracle-only.")
TECHNIQUE = "Coq proof (loop invariants over fuelled loops, induction over op sequences) + vm_compute differential correspondence + direct oracle"

MODES = ["r", "w", "r+", "a", "a+", "w+"]
BUFSIZES = [-1, 0, 1, 2, 3, 4, 5, 7, 8, 16, 64, 100, 8192, 65536]


def mode_bits(mode):
    return ("r" in mode, "w" in mode, "a" in mode, "+" in mode)


def make_stub(mode, bufsize, data, ro, wo, eof_style=0, use_channel=False):
    from paramiko.file import BufferedFile
    from paramiko.channel import ChannelFile

    class Stream:
        """chunking stream: recv delivers min(size, max(1, c)) bytes, send accepts max(1, min(c, len))"""
        def __init__(self):
            self.data = bytes(data)
            self.ro = list(ro)
            self.wo = list(wo)
            self.delivered = bytearray()
            self.reads = 0

        def recv(self, size):
            c = self.ro.pop(0) if self.ro else 1
            k = min(size, max(1, c))
            d = self.data[:k]
            self.data = self.data[k:]
            self.reads += 1
            return d

        def send(self, d):
            c = self.wo.pop(0) if self.wo else len(d)
            k = max(1, min(c, len(d)))
            self.delivered += bytes(d[:k])
            return k

        def sendall(self, d):
            # the Channel.sendall contract; the oracle list is consumed the same way as the model
            # (ChannelFile._write reports len(data), i.e. one full "count")
            self.delivered += bytes(d)
            if self.wo:
                self.wo.pop(0)

    st = Stream()
    if use_channel:
        f = ChannelFile(st, mode + "b", bufsize)
        f._c42_stream = st
        return f, st

    class Stub(BufferedFile):
        def __init__(self):
            BufferedFile.__init__(self)
            self._set_mode(mode + "b", bufsize)

        def _read(self, size):
            d = st.recv(size)
            if not d:
                if eof_style == 1:
                    return None
                if eof_style == 2:
                    raise EOFError()
            return d

        def _write(self, d):
            return st.send(d)

    return Stub(), st


def spec_line(L, size):
    """independent statement of what readline(size) must return on logical stream L"""
    if size is not None and size >= 0:
        L = L[:size]
    i = L.find(b"\n")
    return L if i < 0 else L[:i + 1]


def gen_ops(rng, readable, writable, n):
    ops = []
    for _ in range(n):
        ks = []
        if readable or rng.random() < 0.1:
            ks += ["read", "read", "readall", "readline", "readline", "readline_n", "readline_n", "readlines",
                   "readlines_h", "next"]
        if writable or rng.random() < 0.1:
            ks += ["write", "write", "write", "write", "flush"]
        if rng.random() < 0.03:
            ks += ["close"]
        k = rng.choice(ks)
        if k == "read":
            ops.append(("ORead", rng.choice([0, 1, 2, 3, 5, 8, 13, rng.randrange(0, 40)])))
        elif k == "readall":
            ops.append(("OReadAll",))
        elif k == "readline":
            ops.append(("OReadline", None))
        elif k == "readline_n":
            ops.append(("OReadline", rng.choice([-1, 0, 1, 2, 3, 4, 6, 9, rng.randrange(0, 30)])))
        elif k == "readlines":
            ops.append(("OReadlines", None))
        elif k == "readlines_h":
            ops.append(("OReadlines", rng.choice([0, 1, 5, 12, rng.randrange(0, 40)])))
        elif k == "next":
            ops.append(("ONext",))
        elif k == "write":
            ln = rng.choice([0, 1, 2, 3, 5, 9, rng.randrange(0, 24)])
            ops.append(("OWrite", bytes(rng.choice(b"ab\n\nc\r") for _ in range(ln))))
        elif k == "flush":
            ops.append(("OFlush",))
        else:
            ops.append(("OClose",))
    return ops


def coq_op(o):
    if o[0] == "ORead":
        return "(ORead %s)" % coq(o[1])
    if o[0] in ("OReadline", "OReadlines"):
        return "(%s %s)" % (o[0], "None" if o[1] is None else "(Some %s)" % coq(o[1]))
    if o[0] == "OWrite":
        return "(OWrite %s)" % coq(list(o[1]))
    return o[0]


def canon_exc(e):
    if isinstance(e, StopIteration):
        return [0, 120]
    if isinstance(e, (IOError, OSError)):
        return [0, 16]
    if isinstance(e, ValueError):
        return [0, 9]
    return [0, 1]


def apply_op(f, o):
    """returns ('bytes', b) | ('lines', [..]) | ('none',) | ('exc', e)"""
    try:
        if o[0] == "ORead":
            return ("bytes", f.read(o[1]))
        if o[0] == "OReadAll":
            return ("bytes", f.read())
        if o[0] == "OReadline":
            return ("bytes", f.readline() if o[1] is None else f.readline(o[1]))
        if o[0] == "OReadlines":
            return ("lines", f.readlines() if o[1] is None else f.readlines(o[1]))
        if o[0] == "ONext":
            return ("bytes", next(f))
        if o[0] == "OWrite":
            r = f.write(o[1])
            return ("none",)
        if o[0] == "OFlush":
            f.flush()
            return ("none",)
        if o[0] == "OClose":
            f.close()
            return ("none",)
    except (IOError, OSError, ValueError, StopIteration) as e:
        return ("exc", e)
    raise AssertionError(o)


def canon(r):
    if r[0] == "bytes":
        return [1, len(r[1])] + list(r[1])
    if r[0] == "lines":
        out = [2, len(r[1])]
        for l in r[1]:
            out += [len(l)] + list(l)
        return out
    if r[0] == "none":
        return [3]
    return canon_exc(r[1])


def digest(b):
    a = 7
    for x in b:
        a = (a * 31 + x + 1) % 1000003
    return a


def canon_d(r):
    if r[0] == "bytes":
        return [1, len(r[1]), digest(r[1])]
    if r[0] == "lines":
        return [2, len(r[1]), digest(b"".join(r[1]))]
    return canon(r)


def run_case(ctx, case, check=True, digest_out=False):
    """Drive the real object; returns canonical output; evaluates the oracle after every call."""
    mode, bufsize, data, ro, wo, ops, eof_style, use_channel = case[:8]
    f, st = make_stub(mode, bufsize, data, ro, wo, eof_style, use_channel)
    out = []
    written = b""
    got = b""
    cdesc = {"mode": mode, "bufsize": bufsize, "data": data, "read_chunks": ro, "write_chunks": wo,
             "ops": [list(o) for o in ops], "eof_style": eof_style, "channel_file": use_channel}
    for i, o in enumerate(ops):
        L = bytes(f._rbuffer) + st.data          # logical unread stream before the call
        r = apply_op(f, o)
        out += canon_d(r) if digest_out else canon(r)
        if not check:
            continue
        L2 = bytes(f._rbuffer) + st.data
        if r[0] in ("bytes", "lines"):
            b = r[1] if r[0] == "bytes" else b"".join(r[1])
            got += b
            # -- read_stream: what was returned is exactly the next bytes of the stream, nothing lost
            if b + L2 != L:
                ctx.fail("read-stream", "returned data ++ unread stream differs from the stream before the call "
                         "(bytes lost, duplicated or reordered)", case=dict(cdesc, at=i),
                         expected=L, observed=b + L2)
            if not data.startswith(got):
                ctx.fail("read-stream", "concatenation of the results is not a prefix of the byte stream",
                         case=dict(cdesc, at=i), expected=data[:len(got)], observed=got)
            if o[0] == "ORead" and o[1] >= 0 and b != L[:o[1]]:
                ctx.fail("read-n", "read(n) did not return the next min(n, available) bytes",
                         case=dict(cdesc, at=i), expected=L[:o[1]], observed=b)
            if o[0] == "OReadAll" and b != L:
                ctx.fail("read-all", "read() did not return the whole remaining stream",
                         case=dict(cdesc, at=i), expected=L, observed=b)
            # -- lines
            if o[0] in ("OReadline", "ONext"):
                exp = spec_line(L, o[1] if o[0] == "OReadline" else None)
                if b != exp:
                    ctx.fail("line-structure", "a returned line does not end at the first newline / at size / at EOF",
                             case=dict(cdesc, at=i), expected=exp, observed=b)
            if o[0] == "OReadlines":
                for l in r[1][:-1]:
                    if not l.endswith(b"\n") or b"\n" in l[:-1]:
                        ctx.fail("line-structure", "readlines() returned a line not ending at its first newline",
                                 case=dict(cdesc, at=i), observed=l)
        if o[0] == "OWrite" and r[0] == "none":
            written += o[1]
        # -- write_complete (holds after every call)
        wb = f._wbuffer.getvalue()
        if bytes(st.delivered) + wb != written:
            ctx.fail("write-complete", "bytes delivered to the stream ++ write buffer differ from the data written",
                     case=dict(cdesc, at=i), expected=written, observed=bytes(st.delivered) + wb)
        if o[0] in ("OFlush", "OClose") and r[0] == "none" and wb:
            ctx.fail("flush-empties", "write buffer not empty after flush/close", case=dict(cdesc, at=i),
                     observed=wb)
        if o[0] == "OWrite" and r[0] == "none":
            if bufsize == 1 and b"\n" in wb:
                ctx.fail("line-buffered", "line-buffered write left a newline in the write buffer",
                         case=dict(cdesc, at=i), observed=wb)
            if bufsize <= 0 and wb:
                ctx.fail("unbuffered", "unbuffered write left data in the write buffer", case=dict(cdesc, at=i),
                         observed=wb)
            if bufsize > 1 and len(wb) >= bufsize:
                ctx.fail("buffer-bound", "write buffer holds bufsize or more bytes after a write",
                         case=dict(cdesc, at=i), observed=len(wb))
    if digest_out:
        out += [-1, digest(st.delivered), -2, f._pos, f._realpos, len(f._rbuffer), len(f._wbuffer.getvalue())]
        f._closed = True
        return out
    out += [-1] + list(st.delivered) + [-2, f._pos, f._realpos, len(f._rbuffer), len(f._wbuffer.getvalue())]
    f._closed = True    # keep __del__ from flushing into a finished case
    return out


def gen_case(rng, big=False):
    mode = rng.choice(MODES)
    bufsize = rng.choice(BUFSIZES) if rng.random() < 0.85 else rng.randrange(2, 65537)
    n = rng.choice([0, 1, 2, 5, 10, 20, 40, rng.randrange(0, 80)])
    if big:
        n = rng.choice([8191, 8192, 8193, 9000, 20000])
    alphabet = rng.choice([b"xy\n", b"xyz\n\n\n", b"ab\r\n", b"a\r\r\n\x0b\x0c\x1c\x1d\x1e\x85", bytes(range(256)), b"\n"])
    data = bytes(rng.choice(alphabet) for _ in range(n))
    if big:
        pat = bytes(rng.choice(alphabet) for _ in range(rng.choice([7, 64, 100])))
        reps = n // len(pat) + 1
        data = pat * reps
    style = rng.randrange(4)
    nro = rng.randrange(0, 30)
    if style == 0:
        ro = [1] * nro
    elif style == 1:
        ro = [rng.choice([1, 2, 3]) for _ in range(nro)]
    elif style == 2:
        ro = [rng.choice([1, 2, 5, 100000]) for _ in range(nro)]
    else:
        ro = [100000] * 40
    if big:
        ro = [rng.choice([1, 4096, 8192, 100000]) for _ in range(12)] + [100000] * 8
    wo = [rng.choice([1, 2, 3, 5, 100000]) for _ in range(rng.randrange(0, 30))]
    readable, writable = ("r" in mode or "+" in mode), ("w" in mode or "+" in mode or "a" in mode)
    ops = gen_ops(rng, readable, writable, rng.randrange(1, 6 if big else 14))
    eof_style = rng.randrange(3)
    use_channel = rng.random() < 0.3
    if use_channel:
        eof_style = 0
        wo = [100000] * len(wo)        # sendall: never partial
    if big:
        return (mode, bufsize, data, ro, wo, ops, eof_style, use_channel, pat, reps)
    return (mode, bufsize, data, ro, wo, ops, eof_style, use_channel)


def coq_case_big(case):
    mode, bufsize, data, ro, wo, ops, _, _, pat, reps = case
    return "((%s), %s, (%s, %s), %s, %s, [%s])" % (
        ", ".join(coq(b) for b in mode_bits(mode)), coq(bufsize), coq(list(pat)), coq(reps), coq(ro), coq(wo),
        ";".join(coq_op(o) for o in ops))


def coq_case(case):
    mode, bufsize, data, ro, wo, ops = case[:6]
    return "((%s), %s, %s, %s, %s, [%s])" % (
        ", ".join(coq(b) for b in mode_bits(mode)), coq(bufsize), coq(list(data)), coq(ro), coq(wo),
        ";".join(coq_op(o) for o in ops))


def text_mode_oracle(ctx, rng, n):
    """'U' / text mode (outside the Coq model): readline()/iteration on ASCII data with CR, LF, CRLF."""
    for _ in range(n):
        ln = rng.randrange(0, 40)
        data = bytes(rng.choice(b"ab\r\n") for _ in range(ln))
        ro = [rng.choice([1, 2, 3, 7]) for _ in range(rng.randrange(0, 40))]
        universal = rng.random() < 0.6
        from paramiko.file import BufferedFile

        st = {"data": data, "ro": list(ro)}

        class T(BufferedFile):
            def __init__(self):
                BufferedFile.__init__(self)
                self._set_mode("rU" if universal else "r", rng.choice([-1, 0, 1, 2, 5, 64]))

            def _read(self, size):
                c = st["ro"].pop(0) if st["ro"] else 1
                k = min(size, max(1, c))
                d = st["data"][:k]
                st["data"] = st["data"][k:]
                return d

        f = T()
        lines = []
        for _i in range(len(data) + 3):
            l = f.readline()
            if l == "":
                break
            lines.append(l)
        f._closed = True
        if universal:
            exp_text = data.decode().replace("\r\n", "\n").replace("\r", "\n")
        else:
            exp_text = data.decode()
        exp = exp_text.split("\n")
        exp = [x + "\n" for x in exp[:-1]] + ([exp[-1]] if exp[-1] else [])
        ctx.count(("text", data, tuple(ro), universal), nontrivial=ln > 0,
                  kind="text-universal" if universal else "text-plain")
        if not all(isinstance(l, str) for l in lines):
            ctx.fail("text-mode-type", "text-mode readline returned bytes", case={"data": data}, observed=lines)
        elif lines != exp:
            ctx.fail("text-universal-lines" if universal else "text-lines",
                     "text-mode lines differ from the newline-translated stream",
                     case={"data": data, "read_chunks": ro, "universal": universal}, expected=exp, observed=lines)



# ---------------------------------------------------------------- channel files --
class _StubTransport:
    """Stands in for Transport under a real Channel: records what reaches _send_user_message."""

    def __init__(self):
        from paramiko.common import DEFAULT_WINDOW_SIZE, DEFAULT_MAX_PACKET_SIZE
        self.default_window_size = DEFAULT_WINDOW_SIZE
        self.default_max_packet_size = DEFAULT_MAX_PACKET_SIZE
        self.sent = []
        self.server_object = None
        self.active = True

    def get_log_channel(self):
        return "paramiko.verif.c42"

    def _sanitize_window_size(self, w):
        from paramiko.transport import Transport
        return Transport._sanitize_window_size(self, w)

    def _sanitize_packet_size(self, p):
        from paramiko.transport import Transport
        return Transport._sanitize_packet_size(self, p)

    def _send_user_message(self, m):
        self.sent.append(m.asbytes())

    def _unlink_channel(self, chanid):
        pass

    def get_exception(self):
        return None

    def is_active(self):
        return True


def _wire(sent):
    """peer-visible events in wire order: ('data', bytes) | ('ext', code, bytes) | ('eof',) | ('close',) | ('other', t)"""
    import struct
    ev = []
    for raw in sent:
        t = raw[0]
        if t == 94:
            n = struct.unpack(">I", raw[5:9])[0]
            ev.append(("data", raw[9:9 + n]))
        elif t == 95:
            code, n = struct.unpack(">II", raw[5:13])
            ev.append(("ext", code, raw[13:13 + n]))
        elif t == 96:
            ev.append(("eof",))
        elif t == 97:
            ev.append(("close",))
        else:
            ev.append(("other", t))
    return ev


def channel_file_case(ctx, case):
    """makefile / makefile_stdin / makefile_stderr over a REAL Channel (stub transport): what the peer sees.
    case = (maker, bufsize, pieces, finish, max_packet)"""
    import logging
    import common
    from paramiko.channel import Channel
    from paramiko.message import Message
    maker, bufsize, pieces, finish, max_packet = case
    lg = logging.getLogger("paramiko.verif.c42")
    if not lg.handlers:
        lg.addHandler(logging.NullHandler())
    lg.propagate = False
    st = _StubTransport()
    ch = Channel(1)
    ch._set_transport(st)
    ch._set_window(1 << 21, 1 << 15)
    ch._set_remote_channel(2, 1 << 24, max_packet)
    desc = {"maker": maker, "bufsize": bufsize, "pieces": list(pieces), "finish": finish, "max_packet": max_packet}

    def body():
        f = getattr(ch, maker)("wb", bufsize)
        errs = []
        for p_ in pieces:
            f.write(p_)
        if finish == "flush":
            f.flush()
            pend = f._wbuffer.getvalue()
            snap = list(st.sent)    # what the peer saw after flush (the object's __del__ closes it later)
            return errs, pend, snap
        if finish == "flush+close":
            f.flush()
        try:
            f.close()
        except Exception as e:      # noqa
            errs.append(e)
            f._closed = True
        return errs, f._wbuffer.getvalue(), list(st.sent)

    status, val = common.with_watchdog(body, 5.0)
    if status != "ok":
        ctx.fail("channel-file-hang" if status == "hang" else "channel-file-raises",
                 "write/flush/close on a channel file %s" % ("blocks" if status == "hang" else "raises %r" % (val,)),
                 case=desc)
        return
    errs, pending, snap = val
    written = b"".join(pieces)
    ev = _wire(snap)
    if maker == "makefile_stderr":
        got = b"".join(e[2] for e in ev if e[0] == "ext" and e[1] == 1)
        wrong = [e for e in ev if e[0] == "data"]
    else:
        got = b"".join(e[1] for e in ev if e[0] == "data")
        wrong = [e for e in ev if e[0] == "ext"]
    if errs:
        ctx.fail("channel-file-close-raises", "close() of a channel file with pending buffered data raises",
                 case=desc, expected="no exception", observed=repr(errs[0]))
    if got != written or wrong or pending:
        ctx.fail("channel-file-write-complete",
                 "bytes seen by the peer after flush/close differ from the data written (lost, reordered or on "
                 "the wrong stream)", case=desc, expected=written, observed={"peer": got, "left_in_buffer": pending})
    kinds = [e[0] for e in ev]
    if "eof" in kinds:
        i = kinds.index("eof")
        if any(k in ("data", "ext") for k in kinds[i + 1:]):
            ctx.fail("channel-file-eof-before-data", "EOF reaches the peer before the last buffered data",
                     case=desc, observed=kinds)
    if maker == "makefile_stdin" and finish != "flush":
        if kinds.count("eof") != 1:
            ctx.fail("stdin-file-close-eof", "closing a stdin file must send exactly one EOF (after the data)",
                     case=desc, observed=kinds)
    elif "eof" in kinds or "close" in kinds:
        ctx.fail("channel-file-unexpected-eof", "flush/close of a plain channel file sent EOF/CLOSE", case=desc,
                 observed=kinds)
    for e in ev:
        if e[0] in ("data", "ext") and len(e[-1]) > ch.out_max_packet_size:
            ctx.fail("channel-file-packet-size", "a data message exceeds the peer's maximum packet size",
                     case=desc, observed=len(e[-1]))


def channel_read_case(ctx, rng):
    """makefile('rb') / makefile_stderr('rb') reading what a REAL Channel received in arbitrary message sizes"""
    import common
    from paramiko.channel import Channel
    from paramiko.message import Message
    st = _StubTransport()
    ch = Channel(1)
    ch._set_transport(st)
    ch._set_window(1 << 21, 1 << 15)
    ch._set_remote_channel(2, 1 << 24, 1 << 15)
    stderr = rng.random() < 0.5
    data = bytes(rng.choice(b"xy\n\n") for _ in range(rng.randrange(0, 60)))
    other = bytes(rng.choice(b"QR\n") for _ in range(rng.randrange(0, 20)))
    i = 0
    j = 0
    while i < len(data) or j < len(other):
        if j < len(other) and (i >= len(data) or rng.random() < 0.3):
            k = rng.randrange(1, 6)
            tgt, chunk = (not stderr), other[j:j + k]
            j += k
        else:
            k = rng.randrange(1, 6)
            tgt, chunk = stderr, data[i:i + k]
            i += k
        m = Message()
        if tgt:
            m.add_int(1)
            m.add_string(chunk)
            m.rewind()
            ch._feed_extended(m)
        else:
            m.add_string(chunk)
            m.rewind()
            ch._feed(m)
    ch._handle_eof(None)
    bufsize = rng.choice([-1, 0, 1, 2, 5, 64])
    f = (ch.makefile_stderr if stderr else ch.makefile)("rb", bufsize)
    ops = gen_ops(rng, True, False, rng.randrange(1, 8)) + [("OReadAll",)]
    desc = {"stderr": stderr, "data": data, "other_stream": other, "bufsize": bufsize, "ops": [list(o) for o in ops]}

    def body():
        got = b""
        for o in ops:
            if o[0] in ("OWrite", "OFlush", "OClose"):
                continue
            r = apply_op(f, o)
            if r[0] == "bytes":
                got += r[1]
            elif r[0] == "lines":
                got += b"".join(r[1])
        f._closed = True
        return got

    status, got = common.with_watchdog(body, 5.0)
    ctx.count(("chan-read", stderr, data, other, bufsize, repr(ops)), nontrivial=len(data) > 0,
              kind="channel-stderr-read" if stderr else "channel-read")
    if status != "ok":
        ctx.fail("channel-file-read-hang", "reading a channel file to EOF %s" % status, case=desc,
                 observed=repr(got))
    elif got != data:
        ctx.fail("channel-file-read-stream", "bytes read through makefile%s differ from the bytes received on "
                 "that stream" % ("_stderr" if stderr else ""), case=desc, expected=data, observed=got)


def channel_files_oracle(ctx, rng, n):
    makers = ["makefile", "makefile_stdin", "makefile_stderr"]
    fixed = []
    for mk in makers:                       # pending data at close, every buffering class
        for bs in (-1, 0, 1, 2, 64, 8192, 65536):
            fixed.append((mk, bs, [b"abc\ndef"], "close", 32768))
            fixed.append((mk, bs, [b"line1\n", b"tail-without-newline"], "close", 32768))
    cases = fixed
    for _ in range(n):
        pieces = [bytes(rng.choice(b"ab\n\nc") for _ in range(rng.choice([0, 1, 3, 9, rng.randrange(0, 40)])))
                  for _ in range(rng.randrange(0, 6))]
        if rng.random() < 0.1:
            pieces.append(bytes(rng.choice(b"ab\n") for _ in range(rng.choice([8191, 8192, 9000, 40000]))))
        cases.append((rng.choice(makers), rng.choice(BUFSIZES), pieces,
                      rng.choice(["close", "close", "close", "flush+close", "flush"]),
                      rng.choice([1, 4096, 5000, 32768, 1 << 20])))
    for c in cases:
        ctx.count(("chanfile", c), nontrivial=sum(len(p_) for p_ in c[2]) > 0, kind="channel-" + c[0])
        channel_file_case(ctx, c)
    for _ in range(n):
        channel_read_case(ctx, rng)



# ---------------------------------------------------------------- timeouts -----
def timeout_case(ctx, case, collect):
    """_read raises socket.timeout at chosen call positions; every call is retried until it returns.
    case = (kind, bufsize, data, ro, faults, sizes, use_channel); kind in read_n / read_all / readline"""
    import socket
    from paramiko.file import BufferedFile
    from paramiko.channel import ChannelFile
    kind, bufsize, data, ro, faults, sizes, use_channel = case
    st = {"data": bytes(data), "ro": list(ro), "faults": list(faults)}

    class Chan:
        def recv(self, size):
            if st["faults"]:
                if st["faults"].pop(0):
                    raise socket.timeout()
            c = st["ro"].pop(0) if st["ro"] else 1
            k = min(size, max(1, c))
            d = st["data"][:k]
            st["data"] = st["data"][k:]
            return d

    ch = Chan()
    if use_channel:
        f = ChannelFile(ch, "rb", bufsize)
    else:
        class Stub(BufferedFile):
            def __init__(self):
                BufferedFile.__init__(self)
                self._set_mode("rb", bufsize)

            def _read(self, size):
                return ch.recv(size)
        f = Stub()
    desc = {"kind": kind, "bufsize": bufsize, "data": data, "read_chunks": ro, "faults": faults, "sizes": sizes,
            "channel_file": use_channel}
    got = b""
    out = []
    lost_key = {"read_n": "read-n-loses-data-on-exception", "read_all": "read-all-loses-data-on-exception",
                "readline": "readline-loses-data-on-exception"}[kind]
    for n in sizes:
        before = bytes(f._rbuffer) + st["data"]
        try:
            if kind == "read_n":
                r = f.read(n)
            elif kind == "read_all":
                r = f.read()
            else:
                r = f.readline() if n < 0 else f.readline(n)
            out += [1, len(r)] + list(r)
            got += r
        except socket.timeout:
            out += [0, 5]
            r = b""
        after = bytes(f._rbuffer) + st["data"]
        if r + after != before:
            ctx.fail(lost_key, "an exception raised by the stream's _read (socket.timeout) between two chunks of one "
                     "%s call loses the chunks already received: the retried reads return a stream with a hole"
                     % {"read_n": "read(n)", "read_all": "read()", "readline": "readline()"}[kind],
                     case=desc, expected=before, observed=r + after)
            break
    out += [-2, f._pos, f._realpos, len(f._rbuffer)]
    f._closed = True
    if kind == "read_n" and collect is not None and not use_channel:
        collect.append(("(%s, %s, %s, %s, %s)" % (coq(bufsize), coq(list(data)), coq(ro),
                                              "[" + ";".join("true" if x else "false" for x in faults) + "]",
                                              coq(sizes)), out, desc))


def timeouts_oracle(ctx, rng, n):
    evcases = []
    for j in range(n):
        kind = ["read_n", "read_n", "read_all", "readline"][j % 4]
        data = bytes(rng.choice(b"xy\n") for _ in range(rng.choice([3, 8, 20, rng.randrange(1, 50)])))
        ro = [rng.choice([1, 2, 3, 5]) for _ in range(rng.randrange(0, 30))]
        faults = [rng.random() < 0.35 for _ in range(rng.randrange(1, 25))]
        if kind == "read_n":
            sizes = [rng.choice([1, 2, 4, 7, 12, rng.randrange(1, 30)]) for _ in range(rng.randrange(2, 10))]
        elif kind == "read_all":
            sizes = [-1] * rng.randrange(2, 8)
        else:
            sizes = [rng.choice([-1, -1, 3, 6]) for _ in range(rng.randrange(2, 10))]
        case = (kind, rng.choice(BUFSIZES), data, ro, faults, sizes, rng.random() < 0.3)
        ctx.count(("timeout", case), nontrivial=any(faults), kind="timeout-" + kind)
        timeout_case(ctx, case, evcases)
    return evcases



# ---------------------------------------------------------------- write faults --
def _is_subseq(a, b):
    it = iter(b)
    return all(x in it for x in a)


def write_fault_case(ctx, case):
    """the stream's _write raises socket.timeout on a schedule; the failed flush/close is retried.
    case = (bufsize, pieces, wo, faults, only_at_start): with only_at_start a fault strikes only the FIRST _write of
    a _write_all (nothing of that flush consumed yet); otherwise at any _write call."""
    import socket
    from paramiko.file import BufferedFile
    bufsize, pieces, wo, faults, only_at_start = case
    st = {"out": bytearray(), "wo": list(wo), "faults": list(faults), "first": False}

    class Stub(BufferedFile):
        def __init__(self):
            BufferedFile.__init__(self)
            self._set_mode("wb", bufsize)

        def _write_all(self, raw):          # only marks the beginning of a _write_all; the real method runs
            st["first"] = True
            return BufferedFile._write_all(self, raw)

        def _write(self, d):
            first, st["first"] = st["first"], False
            if st["faults"] and (first or not only_at_start):
                if st["faults"].pop(0):
                    raise socket.timeout()
            c = st["wo"].pop(0) if st["wo"] else len(d)
            # 0 = "nothing accepted right now" (finitely often): the rest must still be delivered later
            k = 0 if c == 0 else max(1, min(c, len(d)))
            st["out"] += bytes(d[:k])
            return k

    f = Stub()
    desc = {"bufsize": bufsize, "pieces": list(pieces), "write_chunks": wo, "write_faults": faults,
            "only_at_start": only_at_start}
    written = b""

    def attempt(fn):
        for _ in range(len(faults) + 2):
            try:
                fn()
                return True
            except socket.timeout:
                fn = f.flush            # the data of a failed buffered write() is in the buffer: retry = flush
        return False

    ok = True
    for p_ in pieces:
        written += p_
        ok = attempt(lambda: f.write(p_)) and ok
    ok = attempt(f.flush) and ok
    try:
        f.close()
    except socket.timeout:
        ok = False
    f._closed = True
    out = bytes(st["out"])
    if not ok:
        return          # the schedule never let the stream recover: nothing to say
    if out != written:
        if len(out) > len(written) and _is_subseq(written, out):
            ctx.fail("flush-resends-delivered-prefix-after-exception",
                     "a flush interrupted by an exception AFTER the stream accepted part of the data keeps the whole "
                     "buffer: the retry delivers the accepted prefix twice", case=desc, expected=written, observed=out)
        else:
            ctx.fail("write-lost-after-exception" if any(faults) else "write-lost-on-zero-or-short-count",
                     "data handed to write() never reaches the stream (or arrives out of order) although flush()/"
                     "close() succeed: %s" % ("the stream raised during a flush and then recovered" if any(faults)
                                              else "the stream's _write returned 0 / short counts"),
                     case=desc, expected=written, observed=out)


def channel_write_timeout_case(ctx, bufsize, pieces):
    """END-TO-END: a REAL Channel whose peer window is exhausted and which has a timeout: flush() raises
    socket.timeout before anything is sent; after the peer opens the window the retry must deliver everything"""
    import socket
    import common
    from paramiko.channel import Channel
    from paramiko.message import Message
    st = _StubTransport()
    ch = Channel(1)
    ch._set_transport(st)
    ch._set_window(1 << 21, 1 << 15)
    ch._set_remote_channel(2, 0, 1 << 15)          # the peer granted no window yet
    ch.settimeout(0.05)
    desc = {"channel_timeout": True, "bufsize": bufsize, "pieces": list(pieces)}

    def body():
        f = ch.makefile_stdin("wb", bufsize)
        raised = 0
        for p_ in pieces:
            try:
                f.write(p_)
            except socket.timeout:
                raised += 1
        try:
            f.flush()
        except socket.timeout:
            raised += 1
        m = Message()
        m.add_int(1 << 20)
        m.rewind()
        ch._window_adjust(m)                        # the peer opens the window
        ch.settimeout(2.0)
        f.flush()
        f.close()
        return raised, list(st.sent)

    status, val = common.with_watchdog(body, 8.0)
    written = b"".join(pieces)
    if status != "ok":
        ctx.fail("channel-file-raises", "flush/close after the peer opened the window %s" %
                 ("blocks" if status == "hang" else "raises %r" % (val,)), case=desc)
        return
    raised, sent = val
    got = b"".join(e[1] for e in _wire(sent) if e[0] == "data")
    if got != written:
        ctx.fail("write-lost-after-exception",
                 "data pending in the write buffer when Channel.sendall timed out during flush never reaches the "
                 "peer although flush()/close() later succeed", case=desc, expected=written, observed=got)


def write_faults_oracle(ctx, rng, n):
    for j in range(n):
        only_at_start = (j % 3 != 2)
        bufsize = rng.choice([2, 3, 8, 16, 64, 8192, 1, 1]) if only_at_start else rng.choice([4, 16, 64, 8192])
        base = rng.randrange(0, 200)
        total = 0
        pieces = []
        for _ in range(rng.randrange(1, 7)):
            ln = rng.choice([0, 1, 3, 7, 20, rng.randrange(0, 40)])
            piece = bytes((base + total + i) % 251 if (base + total + i) % 251 != 10 or bufsize != 1 else 11
                          for i in range(ln))
            if bufsize == 1 and ln and rng.random() < 0.5:
                piece = piece[:-1] + b"\n"
            pieces.append(piece)
            total += ln
        wo = [rng.choice([0, 0, 1, 2, 5, 100000]) for _ in range(rng.randrange(0, 20))]
        faults = [rng.random() < 0.4 for _ in range(rng.randrange(1, 12))]
        if j % 4 == 0:
            # no exceptions at all, every buffering mode incl. unbuffered: zero / short / full counts only
            faults = []
            bufsize = rng.choice([-1, 0, 1, 2, 8, 64, 8192])
        case = (bufsize, pieces, wo, faults, only_at_start)
        ctx.count(("wfault", case), nontrivial=(any(faults) or 0 in wo) and total > 0,
                  kind="write-zero-short-counts" if not faults else
                  "write-fault-at-start" if only_at_start else "write-fault-anywhere")
        write_fault_case(ctx, case)
    for bs in (2, 64, 8192, 1):
        pieces = [bytes(rng.randrange(32, 127) for _ in range(rng.randrange(1, 30))) for _ in range(rng.randrange(1, 4))]
        ctx.count(("chan-wtimeout", bs, pieces), kind="channel-write-timeout")
        channel_write_timeout_case(ctx, bs, pieces)


def run(ctx):
    rng = ctx.rng
    scale = 8 if ctx.thorough else 1
    ctx.rule = ("seeded generator (random.Random('C42-<seed>')): mode in r/w/r+/a/a+/w+ (binary), bufsize in "
                "{-1,0,1,2..65536}, byte streams over several alphabets (newline-dense, CR/LF, all 256 values) of "
                "0..80 bytes (plus 8191..20000-byte streams around _DEFAULT_BUFSIZE), stream chunk-size oracles "
                "(all 1, small, mixed, unlimited), partial-write oracles, 1..13 ops from read(n)/read()/"
                "readline(size)/readlines(hint)/next/write/flush/close incl. ops the mode forbids, three EOF "
                "styles (b'', None, EOFError), 30% through a real ChannelFile over a stub channel; a case is "
                "non-trivial when distinct and it has data or a non-empty write")
    ctx.trusted += ["model coq/Model/C42.v is hand-written; tied to paramiko/file.py (BufferedFile) and "
                    "channel.py (ChannelFile._read/_write) by this differential run",
                    "universal-newline and text decoding are checked only by the direct oracle (ASCII data)"]
    ctx.assumptions += ["stream _write returns a count with 1 <= count <= len(data) (ChannelFile returns len(data))",
                        "stream _read(n), n > 0, returns between 1 and n bytes while data remains, and b''/None/"
                        "EOFError at EOF"]
    ctx.prove()

    cases = []
    for j in range(300 * scale):
        case = gen_case(rng, big=(j % 50 == 49))
        impl = run_case(ctx, case, digest_out=len(case) > 8)
        nontrivial = len(case[2]) > 0 or any(o[0] == "OWrite" and o[1] for o in case[5])
        ctx.count(case, nontrivial=nontrivial, kind="mode-%s/%s" % (case[0], "chan" if case[7] else "stub"))
        for o in case[5]:
            ctx.dist["op-" + o[0]] = ctx.dist.get("op-" + o[0], 0) + 1
        cases.append((case, impl))
    text_mode_oracle(ctx, rng, 150 * scale)
    channel_files_oracle(ctx, rng, 120 * scale)
    evcases = timeouts_oracle(ctx, rng, 200 * scale)
    write_faults_oracle(ctx, rng, 150 * scale)
    small = [(c, i) for c, i in cases if len(c) == 8]
    bigc = [(c, i) for c, i in cases if len(c) > 8]
    def safe(fn, ty, cs, **kw):
        # the oracles are independent of the model: a model/translator failure is reported, not raised
        try:
            return ctx.model_mismatches(fn, ty, cs, **kw)
        except Exception as e:      # noqa
            ctx.corr_broken.append({"what": "model evaluation failed for " + fn, "error": str(e)[-1500:]})
            return []
    bad = safe("run_c42", "((bool * bool * bool * bool) * Z * list Z * list Z * list Z * list op)",
               [(coq_case(c), i) for c, i in small])
    for i in bad[:3]:
        ctx.disagree("BufferedFile differs from the model", case=small[i][0], impl=small[i][1])
    if bigc:
        bad = safe("run_c42_big", "((bool * bool * bool * bool) * Z * (list Z * Z) * list Z * list Z * list op)",
                   [(coq_case_big(c), i) for c, i in bigc], shard=4)
        for i in bad[:3]:
            ctx.disagree("BufferedFile differs from the model (large stream)", case=bigc[i][0][:2],
                         impl=bigc[i][1][:50])
    bad = safe("run_c42_ev", "(Z * list Z * list Z * list bool * list Z)", [(t, o) for t, o, _ in evcases])
    for i in bad[:3]:
        ctx.disagree("BufferedFile.read(n) under socket.timeout differs from the model", case=evcases[i][2],
                     impl=evcases[i][1])
    ctx.sample({"case": cases[0][0], "impl": cases[0][1]})
    ctx.sample({"case": cases[1][0], "impl": cases[1][1]})



def replay(ctx, rep):
    case = rep["case"]

    def unhex0(v):
        return bytes.fromhex(v["hex"]) if isinstance(v, dict) else v
    if isinstance(case, dict) and "write_faults" in case:
        c = (case["bufsize"], [unhex0(x) for x in case["pieces"]], case["write_chunks"], case["write_faults"],
             case["only_at_start"])
        ctx.count(("replay", c))
        ctx.count(("replay2", c))
        return write_fault_case(ctx, c)
    if isinstance(case, dict) and case.get("channel_timeout"):
        ctx.count(("replay", repr(case)))
        ctx.count(("replay2", repr(case)))
        return channel_write_timeout_case(ctx, case["bufsize"], [unhex0(x) for x in case["pieces"]])
    if isinstance(case, dict) and "faults" in case:
        c = (case["kind"], case["bufsize"], unhex0(case["data"]), case["read_chunks"], case["faults"], case["sizes"],
             case.get("channel_file", False))
        ctx.count(("replay", c))
        ctx.count(("replay2", c))
        return timeout_case(ctx, c, None)
    if isinstance(case, dict) and "maker" in case:
        c = (case["maker"], case["bufsize"], [unhex0(x) for x in case["pieces"]], case["finish"], case["max_packet"])
        ctx.count(("replay", c))
        ctx.count(("replay2", c))
        return channel_file_case(ctx, c)
    if "ops" not in case or "mode" not in case:
        return run(ctx)

    def unhex(v):
        return bytes.fromhex(v["hex"]) if isinstance(v, dict) else v
    ops = []
    for o in case["ops"]:
        o = [unhex(x) for x in o]
        ops.append(tuple(o))
    c = (case["mode"], case["bufsize"], unhex(case["data"]), case["read_chunks"], case["write_chunks"], ops,
         case.get("eof_style", 0), case.get("channel_file", False))
    ctx.count(c)
    ctx.count(("replay", c))
    run_case(ctx, c)
