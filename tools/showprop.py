#!/usr/bin/env python3
import json, sys
ids = [a.upper() for a in sys.argv[1:]]
for l in open('/verif/properties.jsonl'):
    p = json.loads(l)
    if p['id'] in ids:
        print(json.dumps(p, indent=1))
