"""C10 translator: re-key thresholds and a shape check of the re-key accounting code.

Reads paramiko/packet.py and paramiko/transport.py of the working tree (AST only, nothing is
imported), evaluates the four threshold class attributes of Packetizer and checks that every
statement the Coq model (coq/Model/C10.v) mirrors has exactly the modelled shape (comparison
operators, counter updates, resets, flag handling, run-loop rule).  Anything unrecognised raises
(fail closed): the check then reports a broken obligation.
"""
import ast
import os


class Shape(Exception):
    pass


def _const(node):
    """Evaluate a small constant integer expression (pow(2, 29), 2 ** 29, 1 << 29, a * b, ...)."""
    if isinstance(node, ast.Constant) and isinstance(node.value, int) and not isinstance(node.value, bool):
        return node.value
    if isinstance(node, ast.Call) and isinstance(node.func, ast.Name) and node.func.id == "pow" \
            and len(node.args) == 2 and not node.keywords:
        return _const(node.args[0]) ** _const(node.args[1])
    if isinstance(node, ast.BinOp):
        a, b = _const(node.left), _const(node.right)
        if isinstance(node.op, ast.Pow) and 0 <= b < 4096:
            return a ** b
        if isinstance(node.op, ast.LShift) and 0 <= b < 4096:
            return a << b
        if isinstance(node.op, ast.Mult):
            return a * b
        if isinstance(node.op, ast.Add):
            return a + b
        if isinstance(node.op, ast.Sub):
            return a - b
    raise Shape("threshold is not a recognised constant expression: " + ast.dump(node))


def _cls(tree, name):
    for n in tree.body:
        if isinstance(n, ast.ClassDef) and n.name == name:
            return n
    raise Shape("class %s not found" % name)


def _fn(cls, name):
    found = [n for n in cls.body if isinstance(n, ast.FunctionDef) and n.name == name]
    if len(found) != 1:
        raise Shape("method %s.%s not found exactly once" % (cls.name, name))
    return found[0]


def _norm(node):
    return " ".join(ast.unparse(node).split())


def _stmts(fn):
    """All statements of a function (nested ones included), normalised source text each."""
    out = []
    for n in ast.walk(fn):
        if isinstance(n, ast.stmt) and n is not fn:
            out.append(n)
    return out


def _find(fn, pred, what):
    got = [n for n in _stmts(fn) if pred(n)]
    if len(got) != 1:
        raise Shape("%s: expected exactly one `%s`, found %d" % (fn.name, what, len(got)))
    return got[0]


def _expect_block(fn, stmts, expected, what):
    got = [_norm(s) for s in stmts if not (isinstance(s, ast.Expr) and isinstance(s.value, ast.Constant))]
    # logging statements are not modelled
    got = [g for g in got if not g.startswith("self._log(") and not g.startswith("msg = ")
           and not g.startswith("err = ")]
    if got != expected:
        raise Shape("%s: %s has shape %r, expected %r" % (fn.name, what, got, expected))


def _writes(fn, field):
    """Statements that assign / aug-assign self.<field> in fn."""
    res = []
    for n in _stmts(fn):
        tg = []
        if isinstance(n, ast.Assign):
            tg = n.targets
        elif isinstance(n, ast.AugAssign):
            tg = [n.target]
        for t in tg:
            for x in ast.walk(t):
                if isinstance(x, ast.Attribute) and x.attr == field:
                    res.append(_norm(n))
    return res


COUNTERS = ["__sent_bytes", "__sent_packets", "__received_bytes", "__received_packets",
            "__received_bytes_overflow", "__received_packets_overflow", "__need_rekey", "__init_count"]


def check_packet(tree):
    P = _cls(tree, "Packetizer")
    vals = {}
    for n in P.body:
        if isinstance(n, ast.Assign) and len(n.targets) == 1 and isinstance(n.targets[0], ast.Name) \
                and n.targets[0].id.startswith("REKEY_"):
            if n.targets[0].id in vals:
                raise Shape("threshold %s assigned twice" % n.targets[0].id)
            vals[n.targets[0].id] = _const(n.value)
    want = ["REKEY_PACKETS", "REKEY_BYTES", "REKEY_PACKETS_OVERFLOW_MAX", "REKEY_BYTES_OVERFLOW_MAX"]
    if sorted(vals) != sorted(want):
        raise Shape("threshold attributes are %r, expected %r" % (sorted(vals), sorted(want)))
    for k, v in vals.items():
        if v <= 0:
            raise Shape("threshold %s = %d is not positive" % (k, v))

    # every write of a re-key field, per method, must be one the model has
    allowed = {
        "__init__": {
            "__need_rekey": ["self.__need_rekey = False"], "__init_count": ["self.__init_count = 0"],
            "__sent_bytes": ["self.__sent_bytes = 0"], "__sent_packets": ["self.__sent_packets = 0"],
            "__received_bytes": ["self.__received_bytes = 0"], "__received_packets": ["self.__received_packets = 0"],
            "__received_bytes_overflow": ["self.__received_bytes_overflow = 0"],
            "__received_packets_overflow": ["self.__received_packets_overflow = 0"]},
        "set_outbound_cipher": {
            "__sent_bytes": ["self.__sent_bytes = 0"], "__sent_packets": ["self.__sent_packets = 0"],
            "__init_count": ["self.__init_count |= 1", "self.__init_count = 0"],
            "__need_rekey": ["self.__need_rekey = False"]},
        "set_inbound_cipher": {
            "__received_bytes": ["self.__received_bytes = 0"], "__received_packets": ["self.__received_packets = 0"],
            "__received_bytes_overflow": ["self.__received_bytes_overflow = 0"],
            "__received_packets_overflow": ["self.__received_packets_overflow = 0"],
            "__init_count": ["self.__init_count |= 2", "self.__init_count = 0"],
            "__need_rekey": ["self.__need_rekey = False"]},
        "send_message": {
            "__sent_bytes": ["self.__sent_bytes += len(out)"], "__sent_packets": ["self.__sent_packets += 1"],
            "__received_bytes_overflow": ["self.__received_bytes_overflow = 0"],
            "__received_packets_overflow": ["self.__received_packets_overflow = 0"]},
        "read_message": {
            "__received_bytes": ["self.__received_bytes += raw_packet_size"],
            "__received_packets": ["self.__received_packets += 1"],
            "__received_bytes_overflow": ["self.__received_bytes_overflow += raw_packet_size",
                                          "self.__received_bytes_overflow = 0"],
            "__received_packets_overflow": ["self.__received_packets_overflow += 1",
                                            "self.__received_packets_overflow = 0"]},
        "_trigger_rekey": {"__need_rekey": ["self.__need_rekey = True"]},
    }
    for m in P.body:
        if not isinstance(m, ast.FunctionDef):
            continue
        for f in COUNTERS:
            w = sorted(_writes(m, f))
            exp = sorted(allowed.get(m.name, {}).get(f, []))
            if w != exp:
                raise Shape("Packetizer.%s writes self.%s as %r, the model has %r" % (m.name, f, w, exp))

    # need_rekey()
    fn = _fn(P, "need_rekey")
    _expect_block(fn, fn.body, ["return self.__need_rekey"], "body")
    fn = _fn(P, "_trigger_rekey")
    _expect_block(fn, fn.body, ["self.__need_rekey = True"], "body")

    # set_*_cipher tails
    for name, bit in (("set_outbound_cipher", 1), ("set_inbound_cipher", 2)):
        fn = _fn(P, name)
        last2 = fn.body[-2:]
        _expect_block(fn, last2, ["self.__init_count |= %d" % bit,
                                  "if self.__init_count == 3: self.__init_count = 0 self.__need_rekey = False"],
                      "tail")
        # nothing in these methods is conditional except the tail
        for s in fn.body[:-1]:
            if not isinstance(s, (ast.Assign, ast.AugAssign, ast.Expr)):
                raise Shape("%s: unexpected compound statement %s" % (name, _norm(s)[:60]))

    # send_message accounting
    fn = _fn(P, "send_message")
    a = _find(fn, lambda n: isinstance(n, ast.Assign) and _norm(n).startswith("sent_too_much ="), "sent_too_much = ...")
    if _norm(a) != "sent_too_much = self.__sent_packets >= self.REKEY_PACKETS or self.__sent_bytes >= self.REKEY_BYTES":
        raise Shape("send_message: threshold test is `%s`" % _norm(a))
    i = _find(fn, lambda n: isinstance(n, ast.If) and "sent_too_much" in _norm(n.test), "if sent_too_much ...")
    if _norm(i.test) != "sent_too_much and (not self.__need_rekey)" or i.orelse:
        raise Shape("send_message: trigger condition is `%s`" % _norm(i.test))
    _expect_block(fn, i.body, ["self.__received_bytes_overflow = 0", "self.__received_packets_overflow = 0",
                               "self._trigger_rekey()"], "trigger block")
    # order: write_all(out); counters; test; if  -- all in the same block, consecutively
    parent = [n for n in ast.walk(fn) if isinstance(n, ast.Try) and i in n.body]
    if len(parent) != 1:
        raise Shape("send_message: accounting is not directly inside the try block")
    tail = [_norm(s) for s in parent[0].body[-5:-1]]
    if tail != ["self.write_all(out)", "self.__sent_bytes += len(out)", "self.__sent_packets += 1", _norm(a)] \
            or parent[0].body[-1] is not i:
        raise Shape("send_message: accounting sequence is %r" % tail)

    # read_message accounting
    fn = _fn(P, "read_message")
    a = _find(fn, lambda n: isinstance(n, ast.Assign) and _norm(n).startswith("raw_packet_size ="), "raw_packet_size = ...")
    if _norm(a) != "raw_packet_size = packet_size + self.__mac_size_in + 4":
        raise Shape("read_message: raw_packet_size is `%s`" % _norm(a))
    k = fn.body.index(a) if a in fn.body else -1
    if k < 0:
        raise Shape("read_message: accounting is not at the top level of the method")
    seq = fn.body[k:k + 4]
    if [_norm(s) for s in seq[:3]] != [_norm(a), "self.__received_bytes += raw_packet_size",
                                       "self.__received_packets += 1"] or not isinstance(seq[3], ast.If):
        raise Shape("read_message: accounting sequence is %r" % [_norm(s)[:50] for s in seq])
    i = seq[3]
    if _norm(i.test) != "self.__need_rekey":
        raise Shape("read_message: outer test is `%s`" % _norm(i.test))
    body = [s for s in i.body]
    if len(body) != 3 or not isinstance(body[2], ast.If):
        raise Shape("read_message: overflow block has %d statements" % len(body))
    _expect_block(fn, body[:2], ["self.__received_bytes_overflow += raw_packet_size",
                                 "self.__received_packets_overflow += 1"], "overflow counters")
    ov = body[2]
    if _norm(ov.test) != ("self.__received_packets_overflow >= self.REKEY_PACKETS_OVERFLOW_MAX or "
                          "self.__received_bytes_overflow >= self.REKEY_BYTES_OVERFLOW_MAX") or ov.orelse:
        raise Shape("read_message: overflow test is `%s`" % _norm(ov.test))
    if len(ov.body) != 1 or not isinstance(ov.body[0], ast.Raise) \
            or not _norm(ov.body[0]).startswith("raise SSHException("):
        raise Shape("read_message: overflow action is `%s`" % _norm(ov.body[0])[:60])
    if len(i.orelse) != 1 or not isinstance(i.orelse[0], ast.If):
        raise Shape("read_message: else branch is not a single elif")
    e = i.orelse[0]
    if _norm(e.test) != ("self.__received_packets >= self.REKEY_PACKETS or "
                         "self.__received_bytes >= self.REKEY_BYTES") or e.orelse:
        raise Shape("read_message: threshold test is `%s`" % _norm(e.test))
    _expect_block(fn, e.body, ["self.__received_bytes_overflow = 0", "self.__received_packets_overflow = 0",
                               "self._trigger_rekey()"], "trigger block")
    # the header read is the one that may raise NeedRekeyException
    if _norm(fn.body[1] if isinstance(fn.body[0], ast.Expr) else fn.body[0]) != \
            "header = self.read_all(self.__block_size_in, check_rekey=True)":
        raise Shape("read_message: first read is not read_all(block_size_in, check_rekey=True)")

    # read_all idle rule
    fn = _fn(P, "read_all")
    i = _find(fn, lambda n: isinstance(n, ast.If) and "check_rekey" in _norm(n.test), "if check_rekey ...")
    if _norm(i.test) != "check_rekey and len(out) == 0 and self.__need_rekey" or i.orelse \
            or [_norm(s) for s in i.body] != ["raise NeedRekeyException()"]:
        raise Shape("read_all: idle rule is `%s: %s`" % (_norm(i.test), [_norm(s) for s in i.body]))
    return vals


def check_transport(tree):
    T = _cls(tree, "Transport")
    run = _fn(T, "run")
    loops = [n for n in ast.walk(run) if isinstance(n, ast.While) and _norm(n.test) == "self.active"]
    if len(loops) != 1:
        raise Shape("Transport.run: expected one `while self.active` loop")
    w = loops[0]
    if _norm(w.body[0]) != "if self.packetizer.need_rekey() and (not self.in_kex): self._send_kex_init()":
        raise Shape("Transport.run: first statement of the loop is `%s`" % _norm(w.body[0])[:100])
    t = w.body[1]
    if not isinstance(t, ast.Try) or [_norm(s).replace("(ptype, m)", "ptype, m") for s in t.body] != ["ptype, m = self.packetizer.read_message()"] \
            or len(t.handlers) != 1 or _norm(t.handlers[0].type) != "NeedRekeyException" \
            or [_norm(s) for s in t.handlers[0].body] != ["continue"] or t.orelse or t.finalbody:
        raise Shape("Transport.run: read_message / NeedRekeyException handling has changed")
    ski = _fn(T, "_send_kex_init")
    # in_kex is set either at top level or (after the C11 repair) inside the clear_to_send_lock section
    if [_norm(s) for s in _stmts(ski) if isinstance(s, ast.Assign) and _norm(s).startswith("self.in_kex")] \
            != ["self.in_kex = True"]:
        raise Shape("_send_kex_init does not set in_kex exactly once, unconditionally")
    for s in ast.walk(ski):
        if isinstance(s, (ast.If, ast.While, ast.For)) and any(
                isinstance(a, ast.Assign) and _norm(a).startswith("self.in_kex") for a in ast.walk(s)):
            raise Shape("_send_kex_init sets in_kex conditionally")
    if _norm(ski.body[-1]) != "self._send_message(m)":
        raise Shape("_send_kex_init does not end with _send_message(m)")
    for name in ("_activate_outbound", "_parse_newkeys"):
        fn = _fn(T, name)
        got = [_norm(s) for s in _stmts(fn) if isinstance(s, ast.If) and "need_rekey" in _norm(s.test)]
        if got != ["if not self.packetizer.need_rekey(): self.in_kex = False"]:
            raise Shape("%s: in_kex release is %r" % (name, got))
        w_in_kex = [_norm(s) for s in _stmts(fn) if isinstance(s, ast.Assign) and _norm(s).startswith("self.in_kex")]
        if w_in_kex != ["self.in_kex = False"]:
            raise Shape("%s: writes of in_kex are %r" % (name, w_in_kex))
    nk = _fn(T, "_negotiate_keys")
    got = [_norm(s) for s in nk.body if isinstance(s, ast.If)]
    if got != ["if self.local_kex_init is None: self._send_kex_init()"]:
        raise Shape("_negotiate_keys: %r" % got)
    ao = [_norm(s) for s in _fn(T, "_activate_outbound").body]
    if not any(s.startswith("self.packetizer.set_outbound_cipher(") for s in ao):
        raise Shape("_activate_outbound does not call set_outbound_cipher")
    ai = [_norm(s) for s in _fn(T, "_activate_inbound").body]
    if not any(s.startswith("self.packetizer.set_inbound_cipher(") for s in ai):
        raise Shape("_activate_inbound does not call set_inbound_cipher")
    pn = [_norm(s) for s in _fn(T, "_parse_newkeys").body]
    if "self._activate_inbound()" not in pn or "self.local_kex_init = self.remote_kex_init = None" not in pn:
        raise Shape("_parse_newkeys: shape changed")
    # other writers of in_kex anywhere in the class
    for m in T.body:
        if isinstance(m, ast.FunctionDef) and m.name not in ("__init__", "_send_kex_init", "_activate_outbound",
                                                             "_parse_newkeys"):
            for s in _stmts(m):
                if isinstance(s, (ast.Assign, ast.AugAssign)) and "self.in_kex" in _norm(s).split("=")[0]:
                    raise Shape("Transport.%s also writes in_kex: %s" % (m.name, _norm(s)))


def generate(repo):
    ptree = ast.parse(open(os.path.join(repo, "paramiko", "packet.py")).read())
    ttree = ast.parse(open(os.path.join(repo, "paramiko", "transport.py")).read())
    vals = check_packet(ptree)
    check_transport(ttree)
    text = """(* GENERATED by gen/c10.py from paramiko/packet.py and paramiko/transport.py - do not edit.
   The four re-key thresholds of Packetizer; the generator has also checked that the counter
   updates, comparisons (all `>=`), resets, the init_count rule, the idle-read rule and the
   run-loop rule have exactly the shape modelled in Model/C10.v (it fails otherwise). *)
From Coq Require Import ZArith.
Open Scope Z_scope.
Definition gen_REKEY_PACKETS : Z := %d.
Definition gen_REKEY_BYTES : Z := %d.
Definition gen_REKEY_PACKETS_OVERFLOW_MAX : Z := %d.
Definition gen_REKEY_BYTES_OVERFLOW_MAX : Z := %d.
""" % (vals["REKEY_PACKETS"], vals["REKEY_BYTES"], vals["REKEY_PACKETS_OVERFLOW_MAX"],
       vals["REKEY_BYTES_OVERFLOW_MAX"])
    return {"C10_gen.v": text}


if __name__ == "__main__":
    import sys
    print(generate(sys.argv[1] if len(sys.argv) > 1 else "/repo")["C10_gen.v"])
