(* C25 — Channel.sendall / sendall_stderr either hand every byte to the transport or raise;
   they never return early and never loop forever.
   Property statements only; every proof is `exact <lemma from Proofs/C25_proofs.v>`. *)
From PV Require Import Bytes C25_gen C25 C25_proofs.
Open Scope Z_scope.

(* For every channel state, data, stream, environment (events between and during the calls of
   send) and fuel: the bytes handed to the transport followed by the unsent rest are exactly
   the data (nothing lost, duplicated or reordered); every message is of the stream's type;
   normal return happens only when every byte was handed over; any other outcome leaves
   unsent data (so it is never reported as success). *)
Theorem C25_total :
  forall (fuel : nat) (stderr : bool) (c : chan) (s : list Z) (rounds : list round),
    let f := sendall fuel stderr c s rounds [] in
    payload (f_trace f) ++ f_rest f = s /\
    Forall (fun m => fst m = kind stderr) (f_trace f) /\
    (f_out f = Done -> payload (f_trace f) = s /\ f_rest f = []) /\
    (f_out f <> Done -> f_rest f <> []).
Proof. exact total. Qed.
Print Assumptions C25_total.

(* The loop terminates: len(data) iterations always suffice (the model never runs out of
   fuel), because every iteration that does not raise hands over a non-empty chunk.
   Side conditions: window >= 0, window adjustments >= 0 (they are uint32 on the wire) and
   out_max_packet_size > 64 (Transport._sanitize_packet_size gives >= 4096). *)
Theorem C25_terminates :
  forall (stderr : bool) (c : chan) (s : list Z) (rounds : list round),
    chan_ok c = true -> Forall (fun r => round_ok r = true) rounds ->
    let f := sendall (length s) stderr c s rounds [] in
    f_out f <> Fuel /\ Forall (fun m => snd m <> []) (f_trace f).
Proof. exact terminates. Qed.
Print Assumptions C25_terminates.

(* ... and the only outcomes are: return, socket.error, socket.timeout, or asleep in
   out_buffer_cv.wait with no further wake-up (waiting for the peer, not looping) *)
Theorem C25_outcomes :
  forall (fuel : nat) (stderr : bool) (c : chan) (s : list Z) (rounds : list round),
    chan_ok c = true -> Forall (fun r => round_ok r = true) rounds -> (length s <= fuel)%nat ->
    let f := sendall fuel stderr c s rounds [] in
    f_out f = Done \/ f_out f = Raised SocketErr \/ f_out f = Raised SocketTimeout \/ f_out f = Blocked.
Proof. exact outcomes. Qed.
Print Assumptions C25_outcomes.

(* closed (close, peer CLOSE, transport loss) or shut down for writing (shutdown_write): a
   sendall of non-empty data raises socket.error at once and hands nothing to the transport;
   `pre` are the events that precede the call, so this covers "closed / shut down at any time
   before a call of send", for the first call and (c, s being arbitrary) every later one *)
Theorem C25_raises_when_closed_or_shutdown :
  forall (fuel : nat) (stderr : bool) (c : chan) (s : list Z) (pre : list ev) (wakes : list wake)
         (rest : list round),
    s <> [] -> dead (apply_evs pre c) = true ->
    sendall (S fuel) stderr c s ((pre, wakes) :: rest) [] =
      mkFinal (Raised SocketErr) (apply_evs pre c) [] s.
Proof. exact raises_when_dead. Qed.
Print Assumptions C25_raises_when_closed_or_shutdown.

(* non-blocking mode and no window: socket.timeout at once *)
Theorem C25_nonblocking_times_out :
  forall (fuel : nat) (stderr : bool) (c : chan) (s : list Z) (pre : list ev) (wakes : list wake)
         (rest : list round),
    s <> [] -> dead (apply_evs pre c) = false -> window (apply_evs pre c) = 0 ->
    timeout c = Some 0 ->
    sendall (S fuel) stderr c s ((pre, wakes) :: rest) [] =
      mkFinal (Raised SocketTimeout) (apply_evs pre c) [] s.
Proof. exact raises_timeout_nonblocking. Qed.
Print Assumptions C25_nonblocking_times_out.

(* with a timeout set (timed or non-blocking) sendall never stays asleep *)
Theorem C25_blocked_only_in_blocking_mode :
  forall (fuel : nat) (stderr : bool) (c : chan) (s : list Z) (rounds : list round) (tr : list msg),
    f_out (sendall fuel stderr c s rounds tr) = Blocked -> timeout c = None.
Proof. exact blocked_only_blocking. Qed.
Print Assumptions C25_blocked_only_in_blocking_mode.

(* why the repair was needed: the loop as it was (no test of send's result) never ends after
   shutdown_write — for every fuel the model runs out of fuel having sent nothing *)
Theorem C25_unrepaired_loop_diverges :
  forall (fuel : nat) (stderr : bool) (c : chan) (s : list Z),
    s <> [] -> closed c = false -> eof_sent c = true ->
    sendall_v0 fuel stderr c s [] [] = mkFinal Fuel c [] s.
Proof. exact v0_diverges. Qed.
Print Assumptions C25_unrepaired_loop_diverges.

(* the message numbers and the per-packet overhead (max packet - 64) written in the model are
   the ones gen/c25.py reads from common.py / channel.py on every run *)
Theorem C25_source_constants :
  MSG_CHANNEL_DATA = src_msg_channel_data /\
  MSG_CHANNEL_EXTENDED_DATA = src_msg_channel_extended_data /\
  take_window (mkChan false false 1000 (src_packet_overhead + 1) None) 1000
    = WSize 1 (mkChan false false 999 (src_packet_overhead + 1) None).
Proof. exact source_constants. Qed.
Print Assumptions C25_source_constants.

(* non-vacuity: a well-formed channel with a 5-byte window and a 7-byte packet limit sends 12
   bytes in two chunks while the peer re-opens the window; then the same data after
   shutdown_write raises *)
Example C25_example :
  let c := mkChan false false 5 71 None in
  let rounds := [([], []); ([], [(Some (EvAdjust 20), 1)]); ([], [])] in
  chan_ok c = true /\ Forall (fun r => round_ok r = true) rounds /\
  f_out (sendall 12 false c [1;2;3;4;5;6;7;8;9;10;11;12] rounds []) = Done /\
  f_trace (sendall 12 false c [1;2;3;4;5;6;7;8;9;10;11;12] rounds [])
    = [(94, [1;2;3;4;5]); (94, [6;7;8;9;10;11;12])] /\
  f_out (sendall 12 true c [1;2;3] [([EvShutWrite], [])] []) = Raised SocketErr.
Proof.
  cbv zeta. split; [reflexivity|]. split; [repeat constructor|].
  split; [vm_compute; reflexivity|]. split; vm_compute; reflexivity.
Qed.
