(* C26 -- proofs over Model/C26.v.  Every invariant is shown to be preserved by each
   atomic action and lifted to all interleavings with Sched.interleave_invariant. *)
From Coq Require Import ZArith List Bool Lia ZifyBool.
From PV Require Import Bytes Sched C26_gen C26.
Import ListNotations.
Open Scope Z_scope.

(* ---- small facts -------------------------------------------------------------- *)
Lemma is_nil_true {A} (l : list A) : is_nil l = true <-> l = [].
Proof. destruct l; cbn; split; intros H; try reflexivity; discriminate. Qed.

Lemma is_nil_false {A} (l : list A) : is_nil l = false <-> l <> [].
Proof. destruct l; cbn; split; intros H; try reflexivity; try discriminate; congruence. Qed.

Lemma firstn_nonempty {A} (n : Z) (l : list A) :
  1 <= n -> l <> [] -> firstn (Z.to_nat n) l <> [].
Proof.
  intros Hn Hl. destruct l as [|x l]; [congruence|].
  destruct (Z.to_nat n) as [|k] eqn:E; [lia|]. cbn. discriminate.
Qed.

Lemma some_pair_inj {A B} (a c : A) (b d : B) : Some (a, b) = Some (c, d) -> a = c /\ b = d.
Proof. intros H. injection H as -> ->. auto. Qed.

(* Break  H : step_core r s a = Some (s', o)  into its leaf cases; each leaf leaves
   Hs : <concrete state> = s'  and  Ho : <concrete outcome> = o  plus the tests taken. *)
Ltac core_cases H i x w :=
  unfold step_core in H;
  match type of H with (let '(_, _) := ?a in _) = _ => destruct a as [i x] end;
  destruct (waiters _ i) as [w|] eqn:Ew; destruct x; try discriminate H;
  unfold loop, take, has_timeout in H; cbv zeta in H;
  cbn [buf closed has_ev ev waiters hist set_waiter] in H;
  repeat match type of H with
         | context [if ?c then _ else _] => destruct c eqn:?
         | context [match w_t ?w with _ => _ end] => destruct (w_t w) eqn:?
         end;
  try discriminate H;
  apply some_pair_inj in H; destruct H as [Hs Ho].

(* ---- what one critical section does to buffer and history ----------------------- *)
Lemma core_frame r s a s' o :
  step_core r s a = Some (s', o) ->
  out_of o ++ buf s' = buf s ++ in_of (snd a) /\ hist s' = hist s.
Proof.
  intros H. core_cases H i x w; subst s' o; cbn [out_of in_of snd buf hist set_waiter];
    rewrite ?app_nil_r, ?firstn_skipn; auto.
  all: match goal with
       | E : is_nil _ = true |- _ => apply is_nil_true in E; rewrite E; auto
       | _ => idtac
       end.
Qed.

Lemma core_closed r s a s' o :
  step_core r s a = Some (s', o) ->
  closed s' = true -> closed s = true \/ snd a = AClose.
Proof.
  intros H. core_cases H i x w; subst s' o; cbn [closed set_waiter snd]; auto;
    intros Hc; left; congruence.
Qed.

(* a read of size >= 1 that returns the empty string saw a closed, drained pipe *)
Lemma core_ret_empty r s a s' n :
  step_core r s a = Some (s', ORet n []) -> 1 <= n ->
  buf s = [] /\ closed s = true.
Proof.
  intros H Hn. core_cases H i x w; try discriminate Ho; inversion Ho; clear Ho.
  all: repeat match goal with
       | E : _ \/ _ |- _ => destruct E
       | E : _ && _ = false |- _ => apply andb_false_iff in E
       | E : is_nil _ = true |- _ => apply is_nil_true in E
       | E : is_nil _ = false |- _ => apply is_nil_false in E
       | E : negb _ = false |- _ => apply negb_false_iff in E
       end.
  all: try (split; congruence).
  all: exfalso;
       match goal with
       | Hd : firstn (Z.to_nat ?k) ?l = [] |- _ =>
           apply (firstn_nonempty k l) in Hd;
           [ exact Hd | lia | intros Hb; rewrite Hb in *; cbn in *; lia ]
       end.
Qed.

(* PipeTimeout changes nothing; after the repair it is raised only on an empty buffer *)
Lemma core_timeout r s a s' :
  step_core r s a = Some (s', OTimeout) ->
  buf s' = buf s /\ closed s' = closed s /\ (r = true -> buf s = []).
Proof.
  intros H. core_cases H i x w; try discriminate Ho; subst s'; cbn [buf closed set_waiter];
    repeat split; auto; intros ->; cbn [negb orb] in *.
  all: repeat match goal with
       | E : _ && _ = true |- _ => apply andb_true_iff in E; destruct E
       | E : is_nil _ = true |- _ => apply is_nil_true in E
       end; cbn in *; auto; try discriminate.
Qed.

(* ---- step / next ------------------------------------------------------------------ *)
Lemma step_inv r s a s' o :
  step_gen r s a = Some (s', o) ->
  exists s1, step_core r s a = Some (s1, o) /\ s' = log s1 (a, o).
Proof.
  unfold step_gen. destruct (step_core r s a) as [[s1 o1]|]; [|discriminate].
  intros H. injection H as <- <-. eauto.
Qed.

Lemma next_inv s a s' :
  next s a = Some s' ->
  exists s1 o, step_core true s a = Some (s1, o) /\ s' = log s1 (a, o).
Proof.
  unfold next, step. destruct (step_gen true s a) as [[s2 o]|] eqn:E; [|discriminate].
  cbn. intros H. injection H as <-. apply step_inv in E as (s1 & H1 & ->). eauto.
Qed.

Lemma next_of_step s a s' o : step s a = Some (s', o) -> next s a = Some s'.
Proof. unfold next. intros ->. reflexivity. Qed.

(* ---- invariant 1: FIFO -------------------------------------------------------------- *)
Definition Ififo (s : state) : Prop := got_of (hist s) ++ buf s = fed_of (hist s).

Lemma fifo_step s a s' : Ififo s -> next s a = Some s' -> Ififo s'.
Proof.
  unfold Ififo. intros I H. apply next_inv in H as (s1 & o & H & ->).
  apply core_frame in H as [Hb Hh]. destruct a as [i x].
  cbn [log hist buf got_of fed_of snd] in *. rewrite Hh.
  rewrite <- app_assoc, Hb, app_assoc, I. reflexivity.
Qed.

Lemma fed_hist l : forall s s', run s l = Some s' -> fed_of (hist s') = fed_of (hist s) ++ feeds l.
Proof.
  induction l as [|a l IH]; intros s s' H; cbn in H.
  - injection H as <-. cbn. now rewrite app_nil_r.
  - destruct (next s a) as [s1|] eqn:E; [|discriminate].
    rewrite (IH _ _ H). apply next_inv in E as (s0 & o & Hc & ->).
    apply core_frame in Hc as [_ Hh]. destruct a as [i x].
    cbn [log hist fed_of feeds flat_map snd]. rewrite Hh, app_assoc. reflexivity.
Qed.

Lemma closed_hist l : forall s s',
  run s l = Some s' -> closed s' = true -> closed s = true \/ exists j, In (j, AClose) l.
Proof.
  induction l as [|a l IH]; intros s s' H Hc; cbn in H.
  - injection H as <-. auto.
  - destruct (next s a) as [s1|] eqn:E; [|discriminate].
    destruct (IH _ _ H Hc) as [H1 | [j Hj]].
    + apply next_inv in E as (s0 & o & Hcore & ->). cbn [log closed] in H1.
      destruct (core_closed _ _ _ _ _ Hcore H1) as [|Hx]; [auto|].
      right. destruct a as [i x]. cbn in Hx. subst x. exists i. left. reflexivity.
    + right. exists j. right. exact Hj.
Qed.

Lemma fifo_all (ps : list (list action)) sched s :
  interleave ps sched -> run init sched = Some s ->
  got_of (hist s) ++ buf s = feeds sched.
Proof.
  intros Hil Hrun.
  assert (I : Ififo s).
  { apply (interleave_invariant next Ififo ps) with (l := sched) (s := init); auto.
    - intros s0 a s1 _. apply fifo_step.
    - reflexivity. }
  unfold Ififo in I. rewrite I. apply (fed_hist _ _ _ Hrun).
Qed.

(* reachable states: after any prefix of any interleaving *)
Lemma reach_fifo (ps : list (list action)) sched pre post s :
  interleave ps sched -> sched = pre ++ post -> run init pre = Some s ->
  got_of (hist s) ++ buf s = feeds pre.
Proof.
  intros Hil Heq Hrun.
  assert (I : Ififo s).
  { apply (interleave_invariant_prefix next Ififo ps) with (l := sched) (pre := pre) (post := post) (s := init); auto.
    - intros s0 a s1 _. apply fifo_step.
    - reflexivity. }
  unfold Ififo in I. rewrite I. apply (fed_hist _ _ _ Hrun).
Qed.

Lemma empty_only_when_closed (ps : list (list action)) sched pre a post s s' n :
  interleave ps sched -> sched = pre ++ a :: post ->
  run init pre = Some s -> step s a = Some (s', ORet n []) -> 1 <= n ->
  closed s = true /\ buf s = [] /\
  (exists j, In (j, AClose) pre) /\ got_of (hist s) = feeds pre.
Proof.
  intros Hil Heq Hrun Hstep Hn.
  apply step_inv in Hstep as (s1 & Hcore & _).
  destruct (core_ret_empty _ _ _ _ _ Hcore Hn) as (Hb & Hc).
  pose proof (reach_fifo ps sched pre (a :: post) s Hil Heq Hrun) as F.
  rewrite Hb, app_nil_r in F.
  repeat split; auto.
  destruct (closed_hist _ _ _ Hrun Hc) as [H0|H0]; [discriminate H0|exact H0].
Qed.

Lemma timeout_keeps_data (ps : list (list action)) sched pre a post s s' :
  interleave ps sched -> sched = pre ++ a :: post ->
  run init pre = Some s -> step s a = Some (s', OTimeout) ->
  buf s' = buf s /\ closed s' = closed s /\ got_of (hist s') = got_of (hist s).
Proof.
  intros _ _ _ Hstep. apply step_inv in Hstep as (s1 & Hcore & ->).
  destruct (core_timeout _ _ _ _ Hcore) as (Hb & Hc & _).
  apply core_frame in Hcore as [_ Hh]. destruct a as [i x].
  cbn [log buf closed hist got_of out_of]. rewrite Hh, app_nil_r. auto.
Qed.

Lemma timeout_only_if_no_data (ps : list (list action)) sched pre a post s s' :
  interleave ps sched -> sched = pre ++ a :: post ->
  run init pre = Some s -> step s a = Some (s', OTimeout) ->
  buf s = [] /\ got_of (hist s) = feeds pre.
Proof.
  intros Hil Heq Hrun Hstep. apply step_inv in Hstep as (s1 & Hcore & _).
  destruct (core_timeout _ _ _ _ Hcore) as (_ & _ & Hb). specialize (Hb eq_refl).
  pose proof (reach_fifo ps sched pre (a :: post) s Hil Heq Hrun) as F.
  rewrite Hb, app_nil_r in F. auto.
Qed.

(* ---- invariant 2: no lost wake-up ------------------------------------------------------ *)
(* a reader that is waiting un-notified sees an empty, open pipe *)
Definition Iwake (s : state) : Prop :=
  forall i w, waiters s i = Some w -> w_notified w = false -> buf s = [] /\ closed s = false.

Lemma wake_step s a s' : Iwake s -> next s a = Some s' -> Iwake s'.
Proof.
  unfold Iwake. intros I H. apply next_inv in H as (s1 & o & H & ->).
  cbn [log waiters buf closed].
  core_cases H i x w; subst s1; cbn [waiters buf closed set_waiter notify_all];
    intros j wj Hj Hnot.
  all: repeat match goal with
       | E : _ && _ = true |- _ => apply andb_true_iff in E; destruct E
       | E : is_nil _ = true |- _ => apply is_nil_true in E
       | E : negb _ = true |- _ => apply negb_true_iff in E
       end.
  (* feed / close: everybody is notified *)
  all: try (unfold notify_all in Hj; destruct (waiters s j) as [w0|]; [|discriminate Hj];
            injection Hj as <-; cbn in Hnot; discriminate Hnot).
  (* the acting thread's own slot *)
  all: try (destruct (j =? i) eqn:Eji;
            [ try discriminate Hj; injection Hj as <-; auto
            | destruct (I j wj Hj Hnot) as [Hb Hc]; rewrite ?Hb in *; cbn; auto ]).
  all: try (destruct (I j wj Hj Hnot) as [Hb Hc]; rewrite ?Hb in *; cbn in *; auto;
            try discriminate; try congruence).
  all: try (split; [destruct (Z.to_nat _); reflexivity | assumption]).
Qed.

Lemma reach_inv (I : state -> Prop) (ps : list (list action)) sched pre post s :
  I init -> (forall s a s', I s -> next s a = Some s' -> I s') ->
  interleave ps sched -> sched = pre ++ post -> run init pre = Some s -> I s.
Proof.
  intros I0 Hpres Hil Heq Hrun.
  apply (interleave_invariant_prefix next I ps) with (l := sched) (pre := pre) (post := post) (s := init); auto.
  intros s0 a s1 _. apply Hpres.
Qed.

Lemma Iwake_init : Iwake init.
Proof. intros i w H. discriminate H. Qed.

(* once data is buffered or the pipe is closed, every blocked reader can wake up, and
   its wake-up completes the read (it does not go back to waiting) *)
Lemma no_lost_wakeup (ps : list (list action)) sched pre post s i w :
  interleave ps sched -> sched = pre ++ post -> run init pre = Some s ->
  waiters s i = Some w -> (buf s <> [] \/ closed s = true) ->
  w_notified w = true /\
  forall dt, exists s' o, step s (i, AWake dt) = Some (s', o) /\ o <> OBlocked.
Proof.
  intros Hil Heq Hrun Hw Hready.
  pose proof (reach_inv Iwake ps sched pre post s Iwake_init wake_step Hil Heq Hrun) as I.
  assert (Hn : w_notified w = true).
  { destruct (w_notified w) eqn:E; [reflexivity|].
    destruct (I i w Hw E) as [Hb Hc]. destruct Hready; congruence. }
  split; [exact Hn|]. intros dt.
  assert (Hl : is_nil (buf s) && negb (closed s) = false).
  { destruct Hready as [Hb|Hc].
    - apply is_nil_false in Hb. rewrite Hb. reflexivity.
    - rewrite Hc. apply andb_false_r. }
  unfold step, step_gen, step_core. rewrite Hw, Hn. cbn [orb].
  destruct (w_t w) as [t|].
  - destruct ((t - dt <=? 0) && (negb true || is_nil (buf s))).
    + eexists _, _. split; [reflexivity|discriminate].
    + unfold loop. cbn [buf closed set_waiter]. rewrite Hl. unfold take.
      destruct (_ <=? _); eexists _, _; (split; [reflexivity|discriminate]).
  - unfold loop. cbn [buf closed set_waiter]. rewrite Hl. unfold take.
    destruct (_ <=? _); eexists _, _; (split; [reflexivity|discriminate]).
Qed.

(* ---- invariant 3: the event is set whenever the pipe is readable ---------------------------- *)
Definition Iev (s : state) : Prop :=
  has_ev s = true -> (buf s <> [] \/ closed s = true) -> ev s = true.

Lemma ev_step s a s' : Iev s -> next s a = Some s' -> Iev s'.
Proof.
  unfold Iev. intros I H. apply next_inv in H as (s1 & o & H & ->).
  cbn [log has_ev buf closed ev].
  core_cases H i x w; subst s1; cbn [has_ev buf closed ev set_waiter]; intros He Hr.
  all: repeat match goal with
       | E : _ && _ = true |- _ => apply andb_true_iff in E; destruct E
       | E : _ && _ = false |- _ => apply andb_false_iff in E
       | E : is_nil _ = true |- _ => apply is_nil_true in E
       | E : is_nil _ = false |- _ => apply is_nil_false in E
       | E : negb _ = true |- _ => apply negb_true_iff in E
       | E : negb _ = false |- _ => apply negb_false_iff in E
       end.
  (* feed: whichever way the generated flag says the event is set *)
  all: try match goal with
       | E : _ \/ feed_sets_event_always || _ = false |- _ =>
           destruct E as [E|E]; [congruence|];
           apply orb_false_iff in E as [_ E]; apply negb_false_iff, is_nil_true in E;
           destruct Hr as [Hr|Hr]; [congruence | apply I; auto]
       end.
  all: try (rewrite He; reflexivity).
  all: try (destruct Hr as [Hr|Hr]; [congruence|]; try congruence).
  all: try (apply I; auto; fail).
  all: try (apply I; auto; right; intuition congruence).
  all: try (apply I; auto; left; intros Hb; rewrite Hb in *; cbn in *;
            first [congruence | lia | intuition congruence]).
  all: try (apply I; auto; destruct Hr as [Hr|Hr];
            [ left; intros Hb; apply Hr; rewrite Hb; apply skipn_nil | right; exact Hr ]; fail).
  all: try (destruct Hr as [Hr|Hr];
            [ apply is_nil_false in Hr; rewrite Hr; apply orb_true_r
            | rewrite Hr; reflexivity ]).
Qed.

Lemma Iev_init : Iev init.
Proof. intros H. discriminate H. Qed.

Lemma event_set_when_ready (ps : list (list action)) sched pre post s :
  interleave ps sched -> sched = pre ++ post -> run init pre = Some s ->
  has_ev s = true -> (buf s <> [] \/ closed s = true) -> ev s = true.
Proof.
  intros Hil Heq Hrun.
  exact (reach_inv Iev ps sched pre post s Iev_init ev_step Hil Heq Hrun).
Qed.

(* ---- the original order of tests: timeout although data is buffered ------------------------- *)
Definition v0_sched : list action := [(1, ARead 2 (Some 5)); (0, AFeed [7])].

Lemma v0_timeout_with_data :
  exists sched s a s',
    run_v0 init sched = Some s /\ step_v0 s a = Some (s', OTimeout) /\ buf s <> [].
Proof.
  exists v0_sched. eexists. exists (1, AWake 5). eexists.
  split; [vm_compute; reflexivity|]. split; [vm_compute; reflexivity|].
  cbn. discriminate.
Qed.

(* the same schedule on the repaired code delivers the data *)
Lemma v1_same_schedule :
  exists s s', run init v0_sched = Some s /\ step s (1, AWake 5) = Some (s', ORet 2 [7]).
Proof.
  eexists. eexists. split; vm_compute; reflexivity.
Qed.

(* ---- non-vacuity: a three-thread interleaving that exercises blocking, a wake-up exactly
   at the deadline, a partial read, empty(), close and end-of-file ------------------------------ *)
Definition ex_progs : list (list action) :=
  [ [(0, AFeed [1; 2; 3]); (0, AClose)];
    [(1, ARead 2 (Some 5)); (1, AWake 5); (1, ARead 2 None); (1, AWake 0)];
    [(2, AEmpty)] ].
Definition ex_order : list nat := [1; 0; 1; 2; 1; 0; 1]%nat.
Definition ex_sched : list action :=
  [(1, ARead 2 (Some 5)); (0, AFeed [1; 2; 3]); (1, AWake 5); (2, AEmpty);
   (1, ARead 2 None); (0, AClose); (1, AWake 0)].

Lemma example_interleaving :
  interleave ex_progs ex_sched /\
  exists s, run init ex_sched = Some s /\ buf s = [] /\ closed s = true /\
            got_of (hist s) = [1; 2; 3] /\
            map (fun e => snd e) (rev (hist s)) =
              [OBlocked; ODone; ORet 2 [1; 2]; OEmptied [3]; OBlocked; ODone; ORet 2 []].
Proof.
  split.
  - apply (merge_by_sound ex_order). vm_compute. reflexivity.
  - eexists. split; [vm_compute; reflexivity|]. repeat split; reflexivity.
Qed.
