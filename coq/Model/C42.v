(* C42 — model of paramiko/file.py BufferedFile (binary mode, no universal newlines),
   written statement by statement over an abstract stream:
     sread  s realpos n    = (data, s')   models self._read(n)   (data = [] : EOF / None / EOFError)
     swrite s realpos data = (count, s')  models self._write(data) (partial writes allowed)
   `realpos` is handed to the stream because SFTPFile._read/_write use self._realpos (C27);
   the channel-like stream of C42 ignores it.  Definitions only; proofs in Proofs/C42_proofs.v. *)
From PV Require Import Bytes.
Open Scope Z_scope.

Definition LF : Z := 10.
Definition DEFAULT_BUFSIZE : Z := 8192.

Definition zlen (l : list Z) : Z := Z.of_nat (length l).
(* Python slices b[:n] and b[n:] for n >= 0 (n < 0 never occurs at the modelled call sites;
   the Z.min keeps the nat small under vm_compute) *)
Definition take (n : Z) (l : list Z) : list Z := firstn (Z.to_nat (Z.min n (zlen l))) l.
Definition drop (n : Z) (l : list Z) : list Z := skipn (Z.to_nat (Z.min n (zlen l))) l.
Definition is_nil (l : list Z) : bool := match l with [] => true | _ => false end.

(* bytes.find(c) / bytes.rfind(c) *)
Fixpoint index_of (c : Z) (l : list Z) : option nat :=
  match l with
  | [] => None
  | x :: r => if x =? c then Some O else option_map S (index_of c r)
  end.
Fixpoint rindex_of (c : Z) (l : list Z) : option nat :=
  match l with
  | [] => None
  | x :: r => match rindex_of c r with
              | Some i => Some (S i)
              | None => if x =? c then Some O else None
              end
  end.
Definition has_lf (l : list Z) : bool :=
  match index_of LF l with Some _ => true | None => false end.

(* ---- BufferedFile state ---------------------------------------------------- *)
Record bf (S : Type) := mkbf {
  rbuf : list Z;          (* _rbuffer *)
  wbuf : list Z;          (* _wbuffer.getvalue() *)
  pos : Z;                (* _pos *)
  realpos : Z;            (* _realpos *)
  fsize : Z;              (* _size *)
  fl_read : bool; fl_write : bool; fl_append : bool;
  fl_buffered : bool; fl_linebuf : bool;
  bufsize : Z;            (* _bufsize *)
  closed : bool;
  strm : S }.
Arguments mkbf {S}. Arguments rbuf {S}. Arguments wbuf {S}. Arguments pos {S}.
Arguments realpos {S}. Arguments fsize {S}. Arguments fl_read {S}. Arguments fl_write {S}.
Arguments fl_append {S}. Arguments fl_buffered {S}. Arguments fl_linebuf {S}.
Arguments bufsize {S}. Arguments closed {S}. Arguments strm {S}.

(* fields touched by the read paths / by the write paths *)
Definition upd_rd {S} (f : bf S) (rb : list Z) (ps rp : Z) (s : S) : bf S :=
  mkbf rb (wbuf f) ps rp (fsize f) (fl_read f) (fl_write f) (fl_append f)
       (fl_buffered f) (fl_linebuf f) (bufsize f) (closed f) s.
Definition upd_wr {S} (f : bf S) (wb : list Z) (ps rp sz : Z) (s : S) : bf S :=
  mkbf (rbuf f) wb ps rp sz (fl_read f) (fl_write f) (fl_append f)
       (fl_buffered f) (fl_linebuf f) (bufsize f) (closed f) s.
Definition set_closed {S} (f : bf S) : bf S :=
  mkbf (rbuf f) (wbuf f) (pos f) (realpos f) (fsize f) (fl_read f) (fl_write f) (fl_append f)
       (fl_buffered f) (fl_linebuf f) (bufsize f) true (strm f).

(* BufferedFile.__init__ + _set_mode(mode, bufsize); size0 = self._get_size() *)
Definition set_mode {S} (has_r has_w has_a has_plus : bool) (bufsz size0 : Z) (s : S) : bf S :=
  let b := if bufsz <? 0 then 0 else bufsz in
  let p0 := if has_a then size0 else 0 in
  mkbf [] [] p0 p0 p0
       (has_r || has_plus) (has_w || has_plus || has_a) has_a
       (1 <=? b) (b =? 1)
       (if 1 <? b then b else DEFAULT_BUFSIZE) false s.

Section Ops.
  Variable S : Type.
  Variable sread : S -> Z -> Z -> list Z * S.
  Variable swrite : S -> Z -> list Z -> Z * S.
  Notation bfs := (bf S).

  (* ---- read() : "go for broke" loop ---------------------------------------- *)
  Fixpoint read_all_loop (fuel : nat) (res : list Z) (f : bfs) : option (list Z * bfs) :=
    match fuel with
    | O => None
    | Datatypes.S k =>
        let '(d, s') := sread (strm f) (realpos f) DEFAULT_BUFSIZE in
        if is_nil d then Some (res, upd_rd f (rbuf f) (pos f) (realpos f) s')
        else read_all_loop k (res ++ d)
               (upd_rd f (rbuf f) (pos f + zlen d) (realpos f + zlen d) s')
    end.

  (* ---- read(size) : while len(self._rbuffer) < size ------------------------- *)
  Fixpoint fill_loop (fuel : nat) (size : Z) (f : bfs) : option bfs :=
    if size <=? zlen (rbuf f) then Some f
    else match fuel with
         | O => None
         | Datatypes.S k =>
             let rs0 := size - zlen (rbuf f) in
             let rs := if fl_buffered f then Z.max (bufsize f) rs0 else rs0 in
             let '(d, s') := sread (strm f) (realpos f) rs in
             if is_nil d then Some (upd_rd f (rbuf f) (pos f) (realpos f) s')
             else fill_loop k size (upd_rd f (rbuf f ++ d) (pos f) (realpos f + zlen d) s')
         end.

  Definition bf_read (fuel : nat) (f : bfs) (size : option Z) : result (list Z) * bfs :=
    if closed f then (Raise IOErr, f)
    else if negb (fl_read f) then (Raise IOErr, f)
    else
      let neg := match size with None => true | Some n => n <? 0 end in
      let n := match size with None => 0 | Some n => n end in
      if neg then
        match read_all_loop fuel (rbuf f)
                (upd_rd f [] (pos f + zlen (rbuf f)) (realpos f) (strm f)) with
        | None => (Raise OutOfFuel, f)
        | Some (res, f') => (Ok res, f')
        end
      else if n <=? zlen (rbuf f) then
        (Ok (take n (rbuf f)),
         upd_rd f (drop n (rbuf f)) (pos f + zlen (take n (rbuf f))) (realpos f) (strm f))
      else
        match fill_loop fuel n f with
        | None => (Raise OutOfFuel, f)
        | Some f1 =>
            let res := take n (rbuf f1) in
            (Ok res, upd_rd f1 (drop n (rbuf f1)) (pos f1 + zlen res) (realpos f1) (strm f1))
        end.

  (* ---- readline(size) -------------------------------------------------------- *)
  Inductive rl_out :=
    | RLEof (line : list Z) (f : bfs)                       (* the return inside the loop *)
    | RLBreak (line : list Z) (truncated : bool) (f : bfs)  (* a break *)
    | RLFuel.

  Fixpoint rl_loop (fuel : nat) (size : option Z) (line : list Z) (f : bfs) : rl_out :=
    let sized := match size with Some s => 0 <=? s | None => false end in
    let sz := match size with Some s => s | None => 0 end in
    if sized && (sz <=? zlen line) then
      (* self._rbuffer = line[size:]; line = line[:size]; truncated = True; break *)
      RLBreak (take sz line) true (upd_rd f (drop sz line) (pos f) (realpos f) (strm f))
    else
      let n := if sized then sz - zlen line else bufsize f in
      if has_lf line then RLBreak line false f
      else match fuel with
           | O => RLFuel
           | Datatypes.S k =>
               let '(d, s') := sread (strm f) (realpos f) n in
               if is_nil d then RLEof line (upd_rd f (rbuf f) (pos f) (realpos f) s')
               else rl_loop k size (line ++ d)
                      (upd_rd f (rbuf f) (pos f) (realpos f + zlen d) s')
           end.

  Definition bf_readline (fuel : nat) (f : bfs) (size : option Z) : result (list Z) * bfs :=
    if closed f then (Raise IOErr, f)
    else if negb (fl_read f) then (Raise IOErr, f)
    else
      match rl_loop fuel size (rbuf f) f with
      | RLFuel => (Raise OutOfFuel, f)
      | RLEof line f1 =>
          (Ok line, upd_rd f1 [] (pos f1 + zlen line) (realpos f1) (strm f1))
      | RLBreak line truncated f1 =>
          match index_of LF line with
          | None => (Ok line, upd_rd f1 (rbuf f1) (pos f1 + zlen line) (realpos f1) (strm f1))
          | Some p =>
              let xpos := Z.of_nat p + 1 in
              let rb := if truncated then drop xpos line ++ rbuf f1 else drop xpos line in
              let line' := take (Z.of_nat p) line ++ [LF] in
              (Ok line', upd_rd f1 rb (pos f1 + zlen line') (realpos f1) (strm f1))
          end
      end.

  (* __next__ : StopIteration is reported as LibExc 20 *)
  Definition bf_next (fuel : nat) (f : bfs) : result (list Z) * bfs :=
    match bf_readline fuel f None with
    | (Ok line, f') => if is_nil line then (Raise (LibExc 20), f') else (Ok line, f')
    | r => r
    end.

  (* readlines(sizehint) *)
  Fixpoint readlines_loop (lfuel fuel : nat) (hint : option Z) (count : Z) (f : bfs)
    : result (list (list Z)) * bfs :=
    match lfuel with
    | O => (Raise OutOfFuel, f)
    | Datatypes.S k =>
        match bf_readline fuel f None with
        | (Raise e, f') => (Raise e, f')
        | (Ok line, f') =>
            if is_nil line then (Ok [], f')
            else
              let count' := count + zlen line in
              let stop := match hint with Some h => h <=? count' | None => false end in
              if stop then (Ok [line], f')
              else match readlines_loop k fuel hint count' f' with
                   | (Ok ls, f'') => (Ok (line :: ls), f'')
                   | r => r
                   end
        end
    end.
  Definition bf_readlines (fuel : nat) (f : bfs) (hint : option Z) :=
    readlines_loop fuel fuel hint 0 f.

  (* ---- _write_all ------------------------------------------------------------ *)
  Fixpoint write_all (fuel : nat) (f : bfs) (data : list Z) : option bfs :=
    if is_nil data then Some f
    else match fuel with
         | O => None
         | Datatypes.S k =>
             let '(count, s') := swrite (strm f) (realpos f) data in
             let f' := if fl_append f
                       then upd_wr f (wbuf f) (fsize f + count) (fsize f + count) (fsize f + count) s'
                       else upd_wr f (wbuf f) (pos f + count) (realpos f + count) (fsize f) s' in
             write_all k f' (drop count data)
         end.

  Definition bf_flush (fuel : nat) (f : bfs) : result unit * bfs :=
    match write_all fuel f (wbuf f) with
    | None => (Raise OutOfFuel, f)
    | Some f' => (Ok tt, upd_wr f' [] (pos f') (realpos f') (fsize f') (strm f'))
    end.

  Definition bf_close (fuel : nat) (f : bfs) : result unit * bfs :=
    match bf_flush fuel f with
    | (Ok _, f') => (Ok tt, set_closed f')
    | r => r
    end.

  Definition bf_write (fuel : nat) (f : bfs) (data : list Z) : result unit * bfs :=
    if closed f then (Raise IOErr, f)
    else if negb (fl_write f) then (Raise IOErr, f)
    else if negb (fl_buffered f) then
      match write_all fuel f data with
      | None => (Raise OutOfFuel, f)
      | Some f' => (Ok tt, f')
      end
    else
      let wb := wbuf f ++ data in
      let f1 := upd_wr f wb (pos f) (realpos f) (fsize f) (strm f) in
      if fl_linebuf f then
        match rindex_of LF data with
        | None => (Ok tt, f1)
        | Some p =>
            let lnp := Z.of_nat p + (zlen wb - zlen data) in
            match write_all fuel f1 (take (lnp + 1) wb) with
            | None => (Raise OutOfFuel, f)
            | Some f2 => (Ok tt, upd_wr f2 (drop (lnp + 1) wb) (pos f2) (realpos f2) (fsize f2) (strm f2))
            end
        end
      else if bufsize f <=? zlen wb then bf_flush fuel f1
      else (Ok tt, f1).
End Ops.

Arguments read_all_loop {S}. Arguments fill_loop {S}. Arguments bf_read {S}.
Arguments rl_loop {S}. Arguments bf_readline {S}. Arguments bf_next {S}.
Arguments readlines_loop {S}. Arguments bf_readlines {S}. Arguments write_all {S}.
Arguments bf_flush {S}. Arguments bf_close {S}. Arguments bf_write {S}.
Arguments RLEof {S}. Arguments RLBreak {S}. Arguments RLFuel {S}.

(* ---- specification functions (what a read call must return) ------------------ *)
Definition upto_lf (l : list Z) : list Z :=
  match index_of LF l with Some i => firstn (Datatypes.S i) l | None => l end.
Definition sized (size : option Z) : bool :=
  match size with Some s => 0 <=? s | None => false end.
Definition line_spec (size : option Z) (L : list Z) : list Z :=
  match size with
  | Some s => if 0 <=? s then upto_lf (take s L) else upto_lf L
  | None => upto_lf L
  end.

(* ---- the channel-like stream of C42 ------------------------------------------- *)
(* sdata: bytes the peer will still send; roracle / woracle: the chunk sizes the stream
   chooses for successive _read / _write calls (arbitrary); delivered: bytes the stream
   accepted so far *)
Record cstream := mkcs { sdata : list Z; roracle : list Z; woracle : list Z; delivered : list Z }.

Definition c_sread (s : cstream) (_ : Z) (n : Z) : list Z * cstream :=
  let k := Z.min n (Z.max 1 (hd 1 (roracle s))) in
  (take k (sdata s), mkcs (drop k (sdata s)) (tl (roracle s)) (woracle s) (delivered s)).

Definition c_swrite (s : cstream) (_ : Z) (data : list Z) : Z * cstream :=
  let k := Z.max 1 (Z.min (hd (zlen data) (woracle s)) (zlen data)) in
  (k, mkcs (sdata s) (roracle s) (tl (woracle s)) (delivered s ++ take k data)).

Definition cbf := bf cstream.

Inductive op :=
  | ORead (n : Z) | OReadAll | OReadline (size : option Z) | OReadlines (hint : option Z)
  | ONext | OWrite (d : list Z) | OFlush | OClose.

Inductive oresult :=
  | RBytes (b : list Z) | RLines (ls : list (list Z)) | RNone | RExn (e : exn).

Definition of_bytes (r : result (list Z) * cbf) : oresult * cbf :=
  match r with (Ok b, f) => (RBytes b, f) | (Raise e, f) => (RExn e, f) end.
Definition of_unit (r : result unit * cbf) : oresult * cbf :=
  match r with (Ok _, f) => (RNone, f) | (Raise e, f) => (RExn e, f) end.

Definition step (fuel : nat) (f : cbf) (o : op) : oresult * cbf :=
  match o with
  | ORead n => of_bytes (bf_read c_sread fuel f (Some n))
  | OReadAll => of_bytes (bf_read c_sread fuel f None)
  | OReadline size => of_bytes (bf_readline c_sread fuel f size)
  | OReadlines hint =>
      match bf_readlines c_sread fuel f hint with
      | (Ok ls, f') => (RLines ls, f') | (Raise e, f') => (RExn e, f')
      end
  | ONext => of_bytes (bf_next c_sread fuel f)
  | OWrite d => of_unit (bf_write c_swrite fuel f d)
  | OFlush => of_unit (bf_flush c_swrite fuel f)
  | OClose => of_unit (bf_close c_swrite fuel f)
  end.

Fixpoint run_ops (fuel : nat) (f : cbf) (ops : list op) : list oresult * cbf :=
  match ops with
  | [] => ([], f)
  | o :: r => let '(x, f1) := step fuel f o in
              let '(xs, f2) := run_ops fuel f1 r in (x :: xs, f2)
  end.

(* bytes handed to the caller by a result *)
Definition result_bytes (r : oresult) : list Z :=
  match r with RBytes b => b | RLines ls => concat ls | _ => [] end.

(* the logical unread stream: read buffer followed by what the peer has not delivered *)
Definition logical (f : cbf) : list Z := rbuf f ++ sdata (strm f).
(* fuel sufficient for every loop of one call *)
Definition enough (fuel : nat) (f : cbf) : Prop :=
  (length (sdata (strm f)) + length (rbuf f) + length (wbuf f) + 2 <= fuel)%nat.

(* ---- canonical encoding for the correspondence run ----------------------------- *)
Definition canon_res (r : oresult) : list Z :=
  match r with
  | RBytes b => 1 :: zlen b :: b
  | RLines ls => 2 :: zlen (map (fun _ => 0) ls) :: flat_map (fun l => zlen l :: l) ls
  | RNone => [3]
  | RExn e => [0; exn_code e]
  end.

(* case = ((has_r, has_w, has_a, has_plus), bufsize, stream data, read oracle, write oracle, ops) *)
Definition run_c42 (c : (bool * bool * bool * bool) * Z * list Z * list Z * list Z * list op) : list Z :=
  let '(m, bufsz, data, ro, wo, ops) := c in
  let '(hr, hw, ha, hp) := m in
  let f0 : cbf := set_mode hr hw ha hp bufsz 0 (mkcs data ro wo []) in
  let fuel := (length data + 2 + fold_right (fun o a => match o with OWrite d => length d + a | _ => a end) O ops)%nat in
  let '(rs, f) := run_ops fuel f0 ops in
  flat_map canon_res rs ++ [-1] ++ delivered (strm f) ++ [-2; pos f; realpos f; zlen (rbuf f); zlen (wbuf f)].

(* large streams (around _DEFAULT_BUFSIZE): data = pattern repeated; results reported as
   (length, digest) so that the case files stay small *)
Definition digest (l : list Z) : Z := fold_left (fun a x => (a * 31 + x + 1) mod 1000003) l 7.
Definition canon_res_d (r : oresult) : list Z :=
  match r with
  | RBytes b => [1; zlen b; digest b]
  | RLines ls => [2; zlen (map (fun _ => 0) ls); digest (concat ls)]
  | RNone => [3]
  | RExn e => [0; exn_code e]
  end.
Definition run_c42_big (c : (bool * bool * bool * bool) * Z * (list Z * Z) * list Z * list Z * list op) : list Z :=
  let '(m, bufsz, (pat, reps), ro, wo, ops) := c in
  let '(hr, hw, ha, hp) := m in
  let data := concat (repeat pat (Z.to_nat (Z.min reps 4000))) in
  let f0 : cbf := set_mode hr hw ha hp bufsz 0 (mkcs data ro wo []) in
  let fuel := (length data + 2 + fold_right (fun o a => match o with OWrite d => length d + a | _ => a end) O ops)%nat in
  let '(rs, f) := run_ops fuel f0 ops in
  flat_map canon_res_d rs ++ [-1; digest (delivered (strm f)); -2; pos f; realpos f; zlen (rbuf f); zlen (wbuf f)].

(* ---- timeouts: _read may raise socket.timeout (a Channel with a timeout whose peer pauses) --------
   efaults: for each successive _read call, does it raise?  efault: did the last _read call raise?
   A raising _read delivers nothing and consumes nothing; the exception leaves read(n) at the point
   it was raised, i.e. with the chunks gathered so far in _rbuffer (fill_loop's state).
   Only read(n) is modelled under timeouts (read() and readline() lose the gathered chunks in the
   source as it is: known findings read-all-loses-data-on-exception / readline-loses-data-on-exception). *)
Record estream := mkes { ebase : cstream; efault : bool; efaults : list bool }.
Definition e_sread (s : estream) (rp n : Z) : list Z * estream :=
  match efaults s with
  | true :: r => ([], mkes (ebase s) true r)
  | _ => let '(d, b') := c_sread (ebase s) rp n in (d, mkes b' false (tl (efaults s)))
  end.
Definition ebf := bf estream.

Definition bf_read_ev (fuel : nat) (f : ebf) (n : Z) : result (list Z) * ebf :=
  if closed f then (Raise IOErr, f)
  else if negb (fl_read f) then (Raise IOErr, f)
  else if n <? 0 then (Raise ValueErr, f)          (* read-all: not modelled under timeouts *)
  else if n <=? zlen (rbuf f) then
    (Ok (take n (rbuf f)),
     upd_rd f (drop n (rbuf f)) (pos f + zlen (take n (rbuf f))) (realpos f) (strm f))
  else
    match fill_loop e_sread fuel n f with
    | None => (Raise OutOfFuel, f)
    | Some f1 =>
        if efault (strm f1) then (Raise SocketTimeout, f1)     (* the exception leaves the loop here *)
        else let res := take n (rbuf f1) in
             (Ok res, upd_rd f1 (drop n (rbuf f1)) (pos f1 + zlen res) (realpos f1) (strm f1))
    end.

Fixpoint erun (fuel : nat) (f : ebf) (ns : list Z) : list (result (list Z)) * ebf :=
  match ns with
  | [] => ([], f)
  | n :: r => let '(x, f1) := bf_read_ev fuel f n in
              let '(xs, f2) := erun fuel f1 r in (x :: xs, f2)
  end.

Definition ok_bytes (r : result (list Z)) : list Z := match r with Ok b => b | Raise _ => [] end.
Definition elogical (f : ebf) : list Z := rbuf f ++ sdata (ebase (strm f)).

Definition canon_rb (r : result (list Z)) : list Z :=
  match r with Ok b => 1 :: zlen b :: b | Raise e => [0; exn_code e] end.

(* case = (bufsize, stream data, read-chunk oracle, fault schedule, sizes of successive read(n) calls) *)
Definition run_c42_ev (c : Z * list Z * list Z * list bool * list Z) : list Z :=
  let '(bufsz, data, ro, faults, ns) := c in
  let f0 : ebf := set_mode true false false false bufsz 0 (mkes (mkcs data ro [] []) false faults) in
  let '(rs, f) := erun (length data + length faults + 2)%nat f0 ns in
  flat_map canon_rb rs ++ [-2; pos f; realpos f; zlen (rbuf f)].
