"""C32 — SFTP check-file returns the correct hashes for the requested ranges, and answers.

Proof: coq/Props/C32_props.v over coq/Model/C32.v (SFTPServer._check_file's nested loop, any chunk size).
Tie: real SFTPFile.check -> real SFTPServer._check_file on a served temp file, with the server's
handle reads and hash-object calls logged (harness-side wrappers); the per-digest read trace is compared
with the model's own definitions (vm_compute).
Search oracle: the returned digests equal hashlib over the consecutive blocks of the requested range
(range ending at EOF when length is 0 or overruns); every call under a watchdog.
"""
import hashlib
import os
import shutil
import tempfile
import threading

from common import coq

PID = "C32"
LEVEL_TEXT = ("Machine-checked proof (Coq, closed under the global context; the hash function and the read chunk "
              "size are universally quantified) that the model of SFTPServer._check_file answers every request "
              "(fuel bound proved: C32_terminates) and that, for an effective block size >= 256, the answer is the "
              "concatenation of the hash over each consecutive block of the requested range, the range ending at end "
              "of file when the length is 0 or overruns, each block being read in pieces of at most the chunk size, "
              "and that the algorithm is the first name of the client's list that the server's table has; "
              "the model is tied to sftp_server.py/sftp_file.py by running the real client against the real server "
              "with the server's reads and hash-object calls logged and compared with the model's definitions "
              "(vm_compute) every run, and the digests compared with hashlib.")
LEVEL_NOTE = ("Trusted: hand-written model coq/Model/C32.v (validated by the correspondence run; its constants - read "
              "chunk size, minimum block size 256 - and the loop tests / counter updates it mirrors are re-read from "
              "the AST of _check_file by gen/c32.py on every run, fail-closed, and enter the proofs); hash objects "
              "modelled as hash(concatenation of update() arguments); handle.read modelled as the default "
              "SFTPHandle.read over a regular file (full reads, empty bytes at EOF; a handle answering SFTP_EOF or an "
              "error code gets a status reply, not modelled); handle lookup / algorithm selection / reply framing "
              "are outside the model.")
TECHNIQUE = ("Coq proof (fuelled nested loop with proved fuel bound, induction) + AST translator for constants and "
             "loop statements + vm_compute trace correspondence")

CHUNK = 65536
WATCHDOG = 10.0


STATE = {"log": [], "last": None, "aborted": set(), "installed": None, "hung": False}


def install():
    """Wrap (in this process only) the server's SFTPHandle.read and hash classes to log what
    _check_file does, and to let the watchdog stop a runaway loop at its next read."""
    if STATE["installed"]:
        return
    from paramiko import sftp_server, sftp_handle
    orig_read = sftp_handle.SFTPHandle.read
    orig_hash = sftp_server._hash_class

    def read(handle, offset, length):
        me = threading.get_ident()
        if me in STATE["aborted"]:
            raise RuntimeError("verif watchdog: aborting a runaway check-file loop")
        STATE["last"] = me
        data = orig_read(handle, offset, length)
        STATE["log"].append(("read", offset, length, len(data) if isinstance(data, bytes) else -1))
        return data

    def tracing(cls):
        class TraceHash:
            def __init__(self):
                self.h = cls()
                STATE["log"].append(("new",))

            def update(self, d):
                STATE["log"].append(("upd", len(d)))
                self.h.update(d)

            def digest(self):
                STATE["log"].append(("dig",))
                return self.h.digest()
        return TraceHash

    sftp_handle.SFTPHandle.read = read
    STATE["supported"] = list(orig_hash)
    sftp_server._hash_class = {k: tracing(v) for k, v in orig_hash.items()}
    STATE["installed"] = (sftp_handle, orig_read, sftp_server, orig_hash)


def uninstall():
    # after a hang the wrappers stay (the process is about to end; a runaway thread must keep
    # hitting the abort check rather than spin on the original read)
    if STATE["installed"] and not STATE["hung"]:
        sftp_handle, orig_read, sftp_server, orig_hash = STATE["installed"]
        sftp_handle.SFTPHandle.read = orig_read
        sftp_server._hash_class = orig_hash
        STATE["installed"] = None


class Rig:
    """In-process SFTP client/server pair over tests/_loop.LoopSocket serving `root`."""

    def __init__(self, repo, root):
        import paramiko
        from _loop import LoopSocket
        from _stub_sftp import StubServer, StubSFTPServer
        install()
        self.abort = False
        StubSFTPServer.ROOT = root
        a, b = LoopSocket(), LoopSocket()
        a.link(b)
        self.tc = paramiko.Transport(a)
        self.ts = paramiko.Transport(b)
        self.ts.add_server_key(paramiko.RSAKey.from_private_key_file(
            os.path.join(repo, "tests", "_support", "rsa.key")))
        self.ts.set_subsystem_handler("sftp", paramiko.SFTPServer, StubSFTPServer)
        self.ts.start_server(threading.Event(), StubServer())
        self.tc.connect(username="slowdive", password="pygmalion")
        self.sftp = paramiko.SFTPClient.from_transport(self.tc)

    @property
    def log(self):
        return STATE["log"]

    def second(self):
        """A second SFTP session (own channel, own SFTPServer instance) on the same transport."""
        import paramiko
        if getattr(self, "sftp2", None) is None:
            self.sftp2 = paramiko.SFTPClient.from_transport(self.tc)
        return self.sftp2

    def close(self):
        for x in (getattr(self, "sftp2", None), self.sftp, self.tc, self.ts):
            if x is None:
                continue
            try:
                x.close()
            except Exception:
                pass


def chunk_from_source(repo):
    """The read chunk size of _check_file as the translator gen/c32.py reads it from the AST (the
    theorems hold for every chunk > 0, so a different constant is not a violation; the model is
    run with the one the source uses).  A translator failure is reported by ctx.prove()."""
    import importlib.util
    try:
        spec = importlib.util.spec_from_file_location(
            "gen_c32", os.path.join(os.path.dirname(os.path.dirname(os.path.abspath(__file__))), "gen", "c32.py"))
        mod = importlib.util.module_from_spec(spec)
        spec.loader.exec_module(mod)
        return mod.constants(repo)["chunk"]
    except Exception:  # noqa
        return CHUNK


def spec_blocks(size, start, length, bs):
    """Independent statement of the property: the (offset, len) blocks to hash, or None = status reply."""
    eff_len = size - start if length == 0 else length
    eff_bs = eff_len if bs == 0 else bs
    if eff_bs < 256:
        return None
    stop = min(start + eff_len, size)
    out = []
    b = start
    while b < stop:
        out.append((b, min(eff_bs, stop - b)))
        b += eff_bs
    return out


def groups_of(log):
    """Reads per emitted digest, from the server-side event log."""
    groups, cur, stray = [], None, 0
    for e in log:
        if e[0] == "new":
            cur = []
        elif e[0] == "read":
            if cur is None:
                stray += 1
            else:
                cur.append((e[1], e[2]))
        elif e[0] == "dig":
            groups.append(cur if cur is not None else [])
            cur = None
    return groups, stray


ALG_IDS = {"md5": 1, "sha1": 2}
OTHER_ALGS = ["sha256", "sha512", "MD5", "sha-1", "crc32", "md5 ", ""]
ALG_LISTS = ["md5,sha1", "sha1,md5", "sha256,md5,sha1", "sha256,sha1,md5", "md5,sha256", "sha1,sha256,md5",
             "sha512,sha256,sha1", "sha512,MD5,md5", "sha256", "MD5", "sha256,sha512", "md5,md5", "sha-1,sha1,md5",
             "crc32,md5,sha1"]


def alg_names(alg):
    return alg.split(",")


def alg_ids(alg):
    return [ALG_IDS.get(n, 10 + (OTHER_ALGS.index(n) if n in OTHER_ALGS else len(OTHER_ALGS))) for n in alg_names(alg)]


def first_supported(alg):
    """The property: the first name of the client's list that the server's table has."""
    sup = STATE.get("supported") or list(ALG_IDS)
    for n in alg_names(alg):
        if n in sup:
            return n
    return None


def raw_check(fobj, alg, start, length, bs):
    """The request SFTPFile.check sends, keeping what it discards: the reply's algorithm name."""
    from paramiko.sftp import CMD_EXTENDED, int64
    t, msg = fobj.sftp._request(CMD_EXTENDED, "check-file", fobj.handle, alg, int64(start), int64(length), bs)
    ext = msg.get_text()
    name = msg.get_text()
    return ext, name, msg.get_remainder()


def call_check(rig, fobj, alg, start, length, bs, raw=False):
    """SFTPFile.check (or the same request sent raw) under a watchdog.
    -> ('ok', digest | (ext, name, digest)) | ('ioerror', text) | ('exc', repr) | ('hang', None)"""
    del rig.log[:]
    box = {}

    def target():
        try:
            box["v"] = raw_check(fobj, alg, start, length, bs) if raw else fobj.check(alg, start, length, bs)
        except IOError as e:
            box["io"] = str(e)
        except BaseException as e:  # noqa
            box["e"] = repr(e)

    t = threading.Thread(target=target, daemon=True)
    t.start()
    t.join(WATCHDOG)
    if t.is_alive():
        # make the server's next read raise, so its thread is not left spinning
        rig.abort = True
        STATE["hung"] = True
        if STATE["last"] is not None:
            STATE["aborted"].add(STATE["last"])
        t.join(WATCHDOG)
        return ("hang", None)
    if "v" in box:
        return ("ok", box["v"])
    if "io" in box:
        return ("ioerror", box["io"])
    return ("exc", box.get("e"))


def gen_sizes(rng, n):
    fixed = [0, 1, 255, 256, 257, 1000, 65535, 65536, 65537, 131072, 200000, 262144, 300000, 409600]
    out = []
    for i in range(n):
        out.append(rng.choice(fixed) if rng.random() < 0.6 else
                   rng.choice([rng.randrange(0, 3000), rng.randrange(0, 409601), rng.randrange(60000, 140000)]))
    out[0] = 409600
    out[1] = 200000
    return out


def gen_query(rng, size):
    k = CHUNK
    start = rng.choice([0, 0, 0, 1, k - 1, k, k + 1, 2 * k, size, max(0, size - 1), size + 10, max(0, size - 300),
                        rng.randrange(0, size + 1), rng.randrange(0, size + 1), rng.randrange(0, size + 1) // k * k])
    rest = max(0, size - start)
    length = rng.choice([0, 0, 0, rest, rest + 1, rest + 100000, max(0, rest - 1), rng.randrange(0, rest + 1),
                         rng.randrange(0, rest + 1), k, 2 * k, 3 * k, k + 1, 1, 255, 256, 1000,
                         rng.randrange(0, rest + 1) // k * k, 2 ** 40])
    eff = rest if length == 0 else min(length, rest)
    bs = rng.choice([0, 0, 0, 256, 257, 1000, 4096, k - 1, k, k + 1, 2 * k, 2 * k + 1, 3 * k, 100000, 1, 255,
                     rng.randrange(256, max(257, size + 2)), rng.randrange(256, max(257, eff + 2)),
                     rng.randrange(256, 3 * k), 2 ** 31])
    if bs >= 256 and eff // bs > 250:
        bs = eff // 250 + 1         # keep the trace (and the Coq literal) small
    return start, length, bs


def check_one(ctx, rig, fobj, data, alg, q, findings, report=None, changed=False):
    """Run one query; oracle; returns (model case, canonical impl output) or None.
    `report`: the case to put in a replay instead of the single query (a whole sequence);
    `changed`: the file was modified since an earlier check on this handle."""
    size = len(data)
    start, length, bs = q
    mcase = {"size": size, "start": start, "length": length, "block_size": bs, "alg": alg}
    case = mcase if report is None else dict(report, failing_query=mcase)
    res = call_check(rig, fobj, alg, start, length, bs)
    blocks = spec_blocks(size, start, length, bs)
    use = first_supported(alg)
    mcase["alg_ids"] = alg_ids(alg)
    if use is None:
        blocks = None           # "No supported hash types found"
    saved_log = list(rig.log)
    if res[0] == "ok" and use is not None and ("," in alg or size % 7 == 0):
        # the same request once more, raw, for what SFTPFile.check discards: the algorithm named in the reply
        res2 = call_check(rig, fobj, alg, start, length, bs, raw=True)
        if res2[0] == "hang":
            res = res2
        elif res2[0] != "ok" or res2[1][1] != use or res2[1][2] != res[1] or res2[1][0] != "check-file":
            findings.append("algname")
            ctx.fail("check-file-wrong-algorithm",
                     "the check-file reply does not name the first algorithm of the client's list that the server "
                     "supports (or the raw request answers differently from SFTPFile.check)", case=case,
                     expected={"algorithm": use}, observed={"reply": res2[1][:2] if res2[0] == "ok" else res2})
        rig.log[:] = saved_log
    groups, stray = groups_of(list(rig.log))
    aid = [ALG_IDS[use]] if use in ALG_IDS else []
    if res[0] == "ioerror":
        canon = [-1, 4]
        if blocks is not None:
            findings.append("status")
            ctx.fail("check-file-refused", "check-file answered with an error for a valid range", case=case,
                     expected="%d digests" % len(blocks), observed=res[1])
        return mcase, canon
    digest = res[1]
    canon = aid + [len(groups)]
    for g in groups:
        canon.append(len(g))
        for o, n in g:
            canon += [o, n]
    if blocks is None:
        findings.append("status")
        ctx.fail("check-file-unsupported-algorithm-accepted" if use is None else "check-file-small-block-accepted",
                 "a request naming no supported algorithm was answered with digests" if use is None else
                 "effective block size below 256 was not refused", case=case,
                 expected="IOError", observed=digest[:64])
        return mcase, [-2]
    h = getattr(hashlib, use)
    want = b"".join(h(data[o:o + n]).digest() for o, n in blocks)
    if digest != want:
        findings.append("digest")
        ctx.fail("check-file-stale-after-file-changed" if changed else "check-file-wrong-digest",
                 ("after the file changed, a later check-file on the same handle does not hash the file as it is now "
                  "(%s over the consecutive blocks of the requested range)" if changed else
                  "check-file digests differ from %s (the first supported name of the requested list) over the "
                  "consecutive blocks of the requested range") % use,
                 case=case, expected={"blocks": blocks[:8], "nblocks": len(blocks), "digests": want[:64]},
                 observed={"len": len(digest), "digests": digest[:64], "reads": [r for g in groups for r in g][:12]})
    if stray:
        ctx.disagree("server read the file outside a hash object", case=case, impl=stray)
    return mcase, canon


# ---- several requests on ONE handle with the file changing in between ---------------------------

def seq_bytes(seed, i, n):
    import random
    return random.Random("%s-%d" % (seed, i)).randbytes(n)


REQ = 32768     # SFTPFile splits a write into requests of this many bytes


def gen_seq(rng):
    """2-4 check-file requests on ONE handle, opened 'r+', 'a+' or 'w+', with the file changing in
    between (sequential writes through the same handle continuing where the server's cached position
    is, appends by another writer, overwrites), other handles being opened and closed meanwhile in
    the same and in a second session."""
    mode = rng.choice(["r+", "r+", "a+", "a+", "w+", "w+"])
    size0 = rng.choice([300, 1000, 5000, 9000, CHUNK, CHUNK + 5, 70000, 200000, rng.randrange(256, 300000)])
    size = 0 if mode == "w+" else size0
    steps = []
    marks = [0]

    def add_write(kind):
        nonlocal size
        m = rng.choice([256, 1000, REQ - 1, REQ, REQ + 1, 2 * REQ, 80000, 3 * REQ, rng.randrange(1, 100000)])
        steps.append({"kind": kind, "n": m})
        marks.extend([size] + [size + j * REQ for j in range(1, m // REQ + 1)])
        size += m

    if mode == "w+":
        add_write("append-handle")
    n = rng.randrange(2, 5)
    for i in range(n):
        if rng.random() < 0.4:
            steps.append({"kind": rng.choice(["open-other", "open-other", "open-other-session2", "close-other",
                                              "listdir"])})
        start = rng.choice([0, 0, rng.choice(marks), rng.choice(marks), marks[-1], rng.randrange(0, size + 1),
                            max(0, size - 300)])
        start = min(start, size)
        rest = max(0, size - start)
        length = rng.choice([0, 0, 0, rest, rest + 1000, rest + 1000, rest + rng.randrange(1, 5000),
                             rng.randrange(0, rest + 1)])
        if length > rest:
            # a range running past end of file ends in a short read; remember where a position cache
            # that counted the REQUESTED bytes would now stand
            marks.extend([start + length, size + CHUNK])
        eff = rest if length == 0 else min(length, rest)
        bs = rng.choice([0, 0, 256, 1000, 4096, CHUNK, CHUNK + 1, rng.randrange(256, max(257, eff + 2))])
        if bs >= 256 and eff // bs > 100:
            bs = eff // 100 + 1
        steps.append({"kind": "check", "alg": rng.choice(["md5", "sha1", "md5", "sha1", rng.choice(ALG_LISTS)]),
                      "start": start, "length": length, "block_size": bs})
        if i < n - 1:
            k = rng.choice(["append-handle", "append-handle", "append-local", "append-other-handle",
                            "append-other-handle", "overwrite-handle", "read-handle", "none"])
            if k == "append-handle":
                add_write(k)
            elif k in ("append-local", "append-other-handle"):
                m = rng.choice([1, 255, 256, 1000, 3000, CHUNK, 2 * CHUNK, rng.randrange(1, 100000)])
                steps.append({"kind": k, "n": m})
                size += m
            elif k == "read-handle":
                off = rng.choice([max(0, size - 100), rng.randrange(0, size + 1), size])
                m = rng.choice([50, 500, 5000, REQ])
                steps.append({"kind": k, "off": off, "n": m})
                marks.extend([off + m, min(size, off + m)])
                if rng.random() < 0.7:
                    g = rng.choice([1000, 3000, CHUNK, rng.randrange(1, 100000)])
                    steps.append({"kind": rng.choice(["append-local", "append-other-handle"]), "n": g})
                    size += g
            elif k == "overwrite-handle" and size > 0 and mode != "a+":
                off = rng.randrange(0, size)
                m = min(size - off, rng.choice([1, 100, 5000, CHUNK]))
                steps.append({"kind": k, "off": off, "n": m})
    return {"seq": True, "mode": mode, "size0": size0, "data_seed": rng.randrange(1 << 30), "steps": steps}


def run_seq(ctx, rig_box, root, repo, case, findings, cases, name="q"):
    """check -> change -> check ... on one open handle; every check against the file as it is then."""
    mode = case.get("mode", "r+")
    data = bytearray(seq_bytes(case["data_seed"], -1, case["size0"]))
    path = os.path.join(root, name)
    with open(path, "wb") as fh:
        fh.write(data)
    others = []
    for j in range(3):      # other served files, all different from the one under test
        with open(os.path.join(root, "other%d" % j), "wb") as fh:
            fh.write(seq_bytes(case["data_seed"], -10 - j, 700 + 1000 * j))
    rig = rig_box[0]
    fobj = rig.sftp.open("/" + name, mode)
    if mode == "w+":
        data = bytearray()
    changed = False
    try:
        for i, st in enumerate(case["steps"]):
            k = st["kind"]
            if k == "check":
                r = check_one(ctx, rig, fobj, bytes(data), st["alg"],
                              (st["start"], st["length"], st["block_size"]), findings, report=case, changed=changed)
                if r is not None:
                    cases.append(r)
                if rig.abort:
                    rig.close()
                    rig_box[0] = Rig(repo, root)
                    return
            elif k.startswith("append"):
                blob = seq_bytes(case["data_seed"], i, st["n"])
                if k == "append-handle":
                    if mode != "a+":
                        fobj.seek(len(data))
                    fobj.write(blob)
                    fobj.flush()
                elif k == "append-other-handle":
                    # the file grows through ANOTHER handle of the same session
                    o = rig.sftp.open("/" + name, "a" if st["n"] % 2 else "r+")
                    try:
                        o.seek(len(data))
                        o.write(blob)
                        o.flush()
                    finally:
                        o.close()
                else:
                    with open(path, "ab") as fh:
                        fh.write(blob)
                data += blob
                changed = True
            elif k == "read-handle":
                fobj.seek(st["off"])
                got = fobj.read(st["n"])
                if mode != "a+" and got != bytes(data[st["off"]:st["off"] + st["n"]]):
                    findings.append("read")
                    ctx.fail("read-on-checked-handle-wrong-data",
                             "a read through the handle used for check-file returned other bytes than the file has",
                             case=dict(case, failing_step=i), expected=bytes(data[st["off"]:st["off"] + st["n"]])[:64],
                             observed=(got or b"")[:64])
            elif k == "overwrite-handle":
                blob = seq_bytes(case["data_seed"], i, st["n"])
                fobj.seek(st["off"])
                fobj.write(blob)
                fobj.flush()
                data[st["off"]:st["off"] + len(blob)] = blob
                changed = True
            elif k in ("open-other", "open-other-session2"):
                cli = rig.second() if k.endswith("2") else rig.sftp
                others.append(cli.open("/other%d" % (len(others) % 3), "r"))
            elif k == "close-other" and others:
                others.pop(0).close()
            elif k == "listdir":
                rig.sftp.listdir("/")
    finally:
        for o in others + [fobj]:
            try:
                o.close()
            except Exception:
                pass
        for q in [path] + [os.path.join(root, "other%d" % j) for j in range(3)]:
            try:
                os.remove(q)
            except OSError:
                pass


def run_queries(ctx, rig_box, root, repo, sizes, nq, findings, cases):
    rng = ctx.rng
    for fi, size in enumerate(sizes):
        data = rng.randbytes(size)
        name = "f%d" % fi
        with open(os.path.join(root, name), "wb") as fh:
            fh.write(data)
        fobj = rig_box[0].sftp.open("/" + name, "r")
        queries = [gen_query(rng, size) for _ in range(nq)]
        if fi == 0:
            queries[0] = (0, 3 * CHUNK, 0)   # one block of three read chunks
            queries[1] = (CHUNK, 4 * CHUNK, 2 * CHUNK + 1)
        if fi == 1:
            queries[0] = (0, 0, 0)           # whole-file hash of a 200 000-byte file
            queries[1] = (0, 300000, 65536)  # overruns EOF
        for qi, q in enumerate(queries):
            alg = "md5" if (fi + qi) % 2 == 0 else "sha1"
            if rng.random() < 0.35 or (fi, qi) in ((0, 2), (1, 2)):
                alg = rng.choice(ALG_LISTS) if (fi, qi) != (0, 2) else "md5,sha1"
            r = check_one(ctx, rig_box[0], fobj, data, alg, q, findings)
            blocks = spec_blocks(size, *q)
            ctx.count((size, q, alg, data[:16]), nontrivial=bool(blocks),
                      kind=("refused" if blocks is None else "empty" if not blocks else
                            "multi-chunk" if any(n > CHUNK for _, n in blocks) else
                            "past-eof" if q[1] and q[0] + q[1] > size else "plain"))
            if r is not None:
                cases.append(r)
                if len(cases) in (1, 2, 40):
                    ctx.sample({"case": r[0], "impl_trace": r[1][:40], "spec_blocks": (blocks or [])[:6]})
            if rig_box[0].abort:
                # a runaway loop was aborted: start over with a clean client/server pair
                rig_box[0].close()
                if findings.count("hang") >= 2:
                    return False
                rig_box[0] = Rig(repo, root)
                fobj = rig_box[0].sftp.open("/" + name, "r")
            if len(findings) >= 12:
                return False
        try:
            fobj.close()
        except Exception:
            pass
        os.remove(os.path.join(root, name))
    return True


def run(ctx):
    scale = 6 if ctx.thorough else 1
    ctx.rule = ("seeded generator: served files of 0..400 KiB random bytes (sizes around 256 and around multiples of "
                "the 64 KiB read chunk); per file, (offset, length, block_size) with offsets at/around chunk "
                "multiples and EOF, lengths 0 / to EOF / past EOF / chunk multiples / 2^40, block sizes 0, 256.., "
                "(non-)multiples of 64 KiB, < 256 (must be refused); md5 and sha1 alternating; every call under a "
                "%.0f s watchdog; plus sequences on ONE open handle (opened r+, a+ or w+; other handles opened and closed "
                "meanwhile in the same and in a second session on the transport; ranges and reads that run past end of "
                "file, then growth through ANOTHER handle, then a check at the offset a cache counting requested "
                "bytes would hold): check, the file grows (write through the handle or by "
                "another writer) or is overwritten through the handle, check again (2-4 checks, mostly length 0), every "
                "check compared with the file as it is then; a case is non-trivial when distinct and at least one block "
                "is hashed" % WATCHDOG)
    ctx.trusted += ["model coq/Model/C32.v is hand-written; tied to SFTPServer._check_file by this run: per-digest "
                    "read trace (offset, requested length) of the real server == model (vm_compute), digests == hashlib",
                    "hash objects modelled as hash of the concatenated update() arguments (hashlib's contract)",
                    "gen/c32.py (AST of _check_file -> chunk size, minimum block size, loop tests and counter updates; "
                    "fail-closed)"]
    ctx.assumptions += ["served handle is the default SFTPHandle.read over a regular file that does not change "
                        "during the request"]
    ctx.prove()
    chunk = chunk_from_source(ctx.repo)
    if chunk != CHUNK:
        ctx.notes.append("read chunk size in the source is %d (model run with it)" % chunk)
    root = tempfile.mkdtemp(prefix="verif-c32-")
    rig_box = [None]
    findings, cases = [], []
    try:
        rig_box[0] = Rig(ctx.repo, root)
        ok = run_queries(ctx, rig_box, root, ctx.repo, gen_sizes(ctx.rng, 10 * scale),
                         30 if not ctx.thorough else 45, findings, cases)
        if ok is not False or findings.count("hang") < 2:
            if rig_box[0].abort:
                rig_box[0] = Rig(ctx.repo, root)
            for i in range(25 * scale):
                case = gen_seq(ctx.rng)
                if i == 3:      # range past end of file, the file grows through another handle, check beyond
                    case = {"seq": True, "mode": "r+", "size0": 1000, "data_seed": 13, "steps": [
                        {"kind": "check", "alg": "md5", "start": 0, "length": 2000, "block_size": 0},
                        {"kind": "append-other-handle", "n": 3000},
                        {"kind": "check", "alg": "md5", "start": 2000, "length": 1000, "block_size": 0},
                        {"kind": "read-handle", "off": 3900, "n": 500},
                        {"kind": "append-local", "n": 1000},
                        {"kind": "check", "alg": "sha1", "start": 4400, "length": 0, "block_size": 0}]}
                if i == 1:      # upload then verify through the same handle
                    case = {"seq": True, "mode": "w+", "size0": 900, "data_seed": 11, "steps": [
                        {"kind": "append-handle", "n": 20000},
                        {"kind": "check", "alg": "sha1", "start": 0, "length": 0, "block_size": 0},
                        {"kind": "append-handle", "n": 80000},
                        {"kind": "check", "alg": "md5", "start": 20000, "length": 0, "block_size": 4096},
                        {"kind": "check", "alg": "md5", "start": 20000 + 2 * REQ, "length": 0, "block_size": 0}]}
                if i == 2:      # append mode: the server's file object starts at end of file
                    case = {"seq": True, "mode": "a+", "size0": 3000, "data_seed": 12, "steps": [
                        {"kind": "check", "alg": "md5", "start": 0, "length": 0, "block_size": 0},
                        {"kind": "open-other"}, {"kind": "open-other-session2"}, {"kind": "close-other"},
                        {"kind": "open-other"},
                        {"kind": "append-handle", "n": 500},
                        {"kind": "check", "alg": "sha1", "start": 0, "length": 0, "block_size": 1000}]}
                if i == 0:      # the plain pattern: whole-file hash, file grows, whole-file hash again
                    case = {"seq": True, "mode": "r+", "size0": 5000, "data_seed": 7, "steps": [
                        {"kind": "check", "alg": "md5", "start": 0, "length": 0, "block_size": 0},
                        {"kind": "append-handle", "n": 3000},
                        {"kind": "check", "alg": "md5", "start": 0, "length": 0, "block_size": 0},
                        {"kind": "append-local", "n": 70000},
                        {"kind": "check", "alg": "sha1", "start": 100, "length": 0, "block_size": 4096}]}
                ctx.count(repr(sorted(case.items())), nontrivial=True, kind="sequence-on-one-handle")
                run_seq(ctx, rig_box, root, ctx.repo, case, findings, cases)
                if i == 0:
                    ctx.sample({"sequence": case})
                if len(findings) >= 12 or findings.count("hang") >= 3:
                    break
    finally:
        if rig_box[0]:
            rig_box[0].close()
        uninstall()
        shutil.rmtree(root, ignore_errors=True)
    try:
        sup = [ALG_IDS[n] for n in (STATE.get("supported") or ["sha1", "md5"]) if n in ALG_IDS]
        bad = ctx.model_mismatches("run_check_alg", "(list Z * list Z * (Z * Z * Z * Z * Z))",
                                   [(coq((sup, c["alg_ids"], (chunk, c["size"], c["start"], c["length"],
                                                              c["block_size"]))), canon)
                                    for c, canon in cases], shard=200)
    except Exception as e:  # noqa  (the oracle's findings above are reported regardless)
        ctx.disagree("model evaluation failed (run_check_alg): " + str(e)[-600:])
        bad = []
    for i in bad[:3]:
        ctx.disagree("_check_file's reads / digest count differ from the model", case=cases[i][0],
                     impl=cases[i][1][:60])


def replay(ctx, rep):
    case = rep.get("case") or {}
    if case.get("seq"):
        root = tempfile.mkdtemp(prefix="verif-c32-")
        rig_box = [None]
        try:
            rig_box[0] = Rig(ctx.repo, root)
            seq = {k: v for k, v in case.items() if k != "failing_query"}
            for j in range(2):
                ctx.count(("replay-seq", j, repr(sorted(seq.items()))))
                run_seq(ctx, rig_box, root, ctx.repo, seq, [], [], name="r%d" % j)
        finally:
            if rig_box[0]:
                rig_box[0].close()
            uninstall()
            shutil.rmtree(root, ignore_errors=True)
        return
    if not all(k in case for k in ("size", "start", "length", "block_size", "alg")):
        return run(ctx)
    root = tempfile.mkdtemp(prefix="verif-c32-")
    rig = None
    findings = []
    try:
        rig = Rig(ctx.repo, root)
        for j in range(2):
            data = ctx.rng.randbytes(case["size"])
            with open(os.path.join(root, "r%d" % j), "wb") as fh:
                fh.write(data)
            fobj = rig.sftp.open("/r%d" % j, "r")
            ctx.count(("replay", j, sorted(case.items())))
            check_one(ctx, rig, fobj, data, case["alg"], (case["start"], case["length"], case["block_size"]), findings)
            if rig.abort:
                break
    finally:
        if rig:
            rig.close()
        uninstall()
        shutil.rmtree(root, ignore_errors=True)
