(* C19 / C20 -- model of one direction of an SSH channel's flow control as implemented by
   paramiko/channel.py (sender: _send/_wait_for_send_window/_window_adjust; receiver:
   _feed/_feed_extended/recv/recv_stderr/_check_add_window), at critical-section granularity.
   The arithmetic (clamps, `- 64`, threshold, credit test) is NOT written here: it is imported
   from Gen/C19_gen.v, which gen/c19.py regenerates from the source on every run.
   Definitions only; proofs are in Proofs/C19_proofs.v and Proofs/C20_proofs.v.

   One direction = data flowing from a sender S to a receiver R, window adjustments flowing back.
   A paramiko Channel object contains one sender half (the out_ fields) and one receiver half (the in_ fields) which
   share no state, so a pair of channels is two independent copies of this model (see `run_history`).

   Atomic steps (each is one critical section of the real code, or one hand-over to the transport):
     OSend k n     S: send (k = None) / send_stderr (k = Some 1) / _send with an EXTENDED_DATA header of
                   type k, of n bytes, non-blocking (settimeout(0)): under the channel lock
                   _wait_for_send_window reserves `size` bytes and the message is built; the message
                   is then in the sender's hand (obox) -- the lock has been released, the transport
                   has not been called yet.  In blocking mode the step is simply not enabled while
                   the window is 0 (observation -1 here).
     OEmit i       S: the i-th message in hand is passed to transport._send_user_message (enters the wire)
     ODeliver      R: the transport thread dispatches the oldest data message to _feed/_feed_extended
     ORecv e n     R: recv(n) / recv_stderr(n), non-blocking: BufferedPipe.read + _check_add_window;
                   a resulting adjust is in the receiver's hand (abox)
     OEmitAdj i    R: the i-th adjust in hand is passed to transport._send_user_message
     ODeliverAdj   S: the transport thread dispatches the oldest WINDOW_ADJUST to _window_adjust
     OCombine b    R: set_combine_stderr(b)
     OShutW        S: shutdown_write() on the sender's channel (half-close: its own sends stop; the
                   receiver half of that same channel object belongs to the opposite direction)
   An arbitrary op list is an arbitrary interleaving of any number of sending / receiving threads. *)
From Coq Require Import ZArith List Bool Lia.
From PV Require Import Bytes C19_gen.
Import ListNotations.
Open Scope Z_scope.

Inductive dmsg := MData (len : Z) | MExt (code len : Z).
Definition dlen (m : dmsg) : Z := match m with MData l => l | MExt _ l => l end.

Definition sum (l : list Z) : Z := fold_right Z.add 0 l.
Definition dsum (l : list dmsg) : Z := sum (map dlen l).

Fixpoint remove_nth {A} (i : nat) (l : list A) : list A :=
  match l, i with
  | [], _ => []
  | _ :: r, O => r
  | x :: r, S j => x :: remove_nth j r
  end.

Record st := mkS {
  (* sender half *)
  ow : Z;                (* out_window_size *)
  omp : Z;               (* out_max_packet_size *)
  obox : list dmsg;      (* messages built under the lock, not yet given to the transport *)
  (* network *)
  dwire : list dmsg;     (* data messages in flight S -> R (FIFO) *)
  awire : list Z;        (* window adjustments in flight R -> S (FIFO) *)
  (* receiver half *)
  inw : Z;               (* in_window_size *)
  thr : Z;               (* in_window_threshold *)
  sofar : Z;             (* in_window_sofar *)
  comb : bool;           (* combine_stderr *)
  bout : Z;              (* bytes buffered in in_buffer *)
  berr : Z;              (* bytes buffered in in_stderr_buffer *)
  abox : list Z;         (* adjusts computed by _check_add_window, not yet given to the transport *)
  (* ghost history (never read by the steps) *)
  g_res : Z;             (* total bytes reserved by _wait_for_send_window *)
  elog : list dmsg;      (* every data message given to the transport, newest first *)
  g_adjin : Z;           (* total of adjusts received by the sender *)
  g_grant : Z;           (* total of adjusts computed by the receiver *)
  g_cons : Z;            (* total bytes returned to the application by recv / recv_stderr *)
  g_disc : Z;            (* total bytes of discarded extended data *)
  g_lost : Z;            (* ... of which never counted toward in_window_sofar *)
  (* half-close *)
  eof : bool             (* the SENDER's channel has eof_sent set (it called shutdown_write) *)
}.

Inductive op :=
  | OSend (k : option Z) (n : Z)
  | OEmit (i : nat)
  | ODeliver
  | ORecv (err : bool) (n : Z)
  | OEmitAdj (i : nat)
  | ODeliverAdj
  | OCombine (b : bool)
  | OShutW.

(* initial state after _set_window(W, _) on the receiver and _set_remote_channel(_, W0, P) on the
   sender (dmp = the transport's default_max_packet_size, unused because P is given) *)
Definition init (W0 P W dmp : Z) (combine : bool) : st :=
  mkS (set_remote_out_window_size W0 P) (set_remote_out_max_packet_size dmp W0 P) []
      [] []
      (set_window_in_window_size W 0) (set_window_in_window_threshold W 0) (set_window_in_window_sofar W 0)
      combine 0 0 []
      0 [] 0 0 0 0 0 false.

(* receiver: _check_add_window(n) followed by `if ack > 0: send WINDOW_ADJUST(ack)`;
   returns (in_window_sofar, abox, g_grant) *)
Definition credit (s : st) (n : Z) : Z * list Z * Z :=
  let '(ack, sf) := check_add_window (sofar s) (thr s) n in
  if adjust_is_sent ack then (sf, abox s ++ [ack], g_grant s + ack) else (sf, abox s, g_grant s).

Definition mk_msg (k : option Z) (size : Z) : dmsg :=
  match k with None => MData size | Some c => MExt c size end.

Definition ENOT : Z := -2.     (* step not enabled (nothing to emit / deliver) *)
Definition ETIMEOUT : Z := -1. (* socket.timeout *)

Definition step (s : st) (o : op) : st * Z :=
  match o with
  | OSend k n =>
      if eof s then (s, 0)                        (* _wait_for_send_window: closed or eof_sent -> 0 *)
      else if send_must_wait (ow s) then (s, ETIMEOUT)
      else
        let '(size, ow') := send_alloc (ow s) (omp s) n in
        if send_nothing size then
          (mkS ow' (omp s) (obox s) (dwire s) (awire s) (inw s) (thr s) (sofar s) (comb s) (bout s) (berr s)
               (abox s) (g_res s + size) (elog s) (g_adjin s) (g_grant s) (g_cons s) (g_disc s) (g_lost s) (eof s), 0)
        else
          (mkS ow' (omp s) (obox s ++ [mk_msg k size]) (dwire s) (awire s) (inw s) (thr s) (sofar s) (comb s)
               (bout s) (berr s) (abox s) (g_res s + size) (elog s) (g_adjin s) (g_grant s) (g_cons s)
               (g_disc s) (g_lost s) (eof s), size)
  | OEmit i =>
      match nth_error (obox s) i with
      | None => (s, ENOT)
      | Some m =>
          (mkS (ow s) (omp s) (remove_nth i (obox s)) (dwire s ++ [m]) (awire s) (inw s) (thr s) (sofar s)
               (comb s) (bout s) (berr s) (abox s) (g_res s) (m :: elog s) (g_adjin s) (g_grant s) (g_cons s)
               (g_disc s) (g_lost s) (eof s), 0)
      end
  | ODeliver =>
      match dwire s with
      | [] => (s, ENOT)
      | m :: r =>
          let to_out l :=
            (mkS (ow s) (omp s) (obox s) r (awire s) (inw s) (thr s) (sofar s) (comb s) (bout s + l) (berr s)
                 (abox s) (g_res s) (elog s) (g_adjin s) (g_grant s) (g_cons s) (g_disc s) (g_lost s) (eof s), 0) in
          match m with
          | MData l => to_out l                                   (* _feed *)
          | MExt c l =>                                           (* _feed_extended *)
              if ext_discarded c then
                if ext_discard_credits then
                  let '(sf, ab, gr) := credit s l in
                  (mkS (ow s) (omp s) (obox s) r (awire s) (inw s) (thr s) sf (comb s) (bout s) (berr s)
                       ab (g_res s) (elog s) (g_adjin s) gr (g_cons s) (g_disc s + l) (g_lost s) (eof s), 0)
                else
                  (mkS (ow s) (omp s) (obox s) r (awire s) (inw s) (thr s) (sofar s) (comb s) (bout s) (berr s)
                       (abox s) (g_res s) (elog s) (g_adjin s) (g_grant s) (g_cons s) (g_disc s + l)
                       (g_lost s + l) (eof s), 0)
              else if comb s then to_out l
              else
                (mkS (ow s) (omp s) (obox s) r (awire s) (inw s) (thr s) (sofar s) (comb s) (bout s) (berr s + l)
                     (abox s) (g_res s) (elog s) (g_adjin s) (g_grant s) (g_cons s) (g_disc s) (g_lost s) (eof s), 0)
          end
      end
  | ORecv err n =>
      let buf := if err then berr s else bout s in
      if buf =? 0 then (s, ETIMEOUT)              (* BufferedPipe.read(timeout=0.0) on an empty open pipe *)
      else
        let out := if buf <=? n then buf else n in   (* BufferedPipe.read *)
        let '(sf, ab, gr) := credit s out in
        (mkS (ow s) (omp s) (obox s) (dwire s) (awire s) (inw s) (thr s) sf (comb s)
             (if err then bout s else bout s - out) (if err then berr s - out else berr s)
             ab (g_res s) (elog s) (g_adjin s) gr (g_cons s + out) (g_disc s) (g_lost s) (eof s), out)
  | OEmitAdj i =>
      match nth_error (abox s) i with
      | None => (s, ENOT)
      | Some a =>
          (mkS (ow s) (omp s) (obox s) (dwire s) (awire s ++ [a]) (inw s) (thr s) (sofar s) (comb s) (bout s)
               (berr s) (remove_nth i (abox s)) (g_res s) (elog s) (g_adjin s) (g_grant s) (g_cons s)
               (g_disc s) (g_lost s) (eof s), 0)
      end
  | ODeliverAdj =>
      match awire s with
      | [] => (s, ENOT)
      | a :: r =>
          (mkS (window_adjust (ow s) a) (omp s) (obox s) (dwire s) r (inw s) (thr s) (sofar s) (comb s) (bout s)
               (berr s) (abox s) (g_res s) (elog s) (g_adjin s + a) (g_grant s) (g_cons s) (g_disc s)
               (g_lost s) (eof s), 0)
      end
  | OCombine b =>
      (* set_combine_stderr(b) on the receiver: when switching on, the unread stderr buffer is moved
         into the stdout buffer; in_window_sofar is not touched *)
      let move := combine_moves b (comb s) in
      (mkS (ow s) (omp s) (obox s) (dwire s) (awire s) (inw s) (thr s) (sofar s) b
           (if move then bout s + berr s else bout s) (if move then 0 else berr s)
           (abox s) (g_res s) (elog s) (g_adjin s) (g_grant s) (g_cons s) (g_disc s) (g_lost s) (eof s),
       if comb s then 1 else 0)
  | OShutW =>
      (* shutdown_write() on the sender's channel: eof_sent; its receiver half (the other direction)
         is not affected -- reads there keep being credited *)
      (mkS (ow s) (omp s) (obox s) (dwire s) (awire s) (inw s) (thr s) (sofar s) (comb s) (bout s) (berr s)
           (abox s) (g_res s) (elog s) (g_adjin s) (g_grant s) (g_cons s) (g_disc s) (g_lost s) true, 0)
  end.

Fixpoint run (s : st) (ops : list op) : st :=
  match ops with
  | [] => s
  | o :: r => run (fst (step s o)) r
  end.

(* sizes passed by the application are lengths / non-negative counts *)
Definition op_wf (o : op) : Prop :=
  match o with
  | OSend _ n => 0 <= n
  | ORecv _ n => 0 <= n
  | _ => True
  end.

(* ---- observables named by the theorems ------------------------------------------------ *)
Definition emitted (s : st) : Z := dsum (elog s).                  (* data bytes put on the wire *)
Definition adjusts_sent (s : st) : Z := g_adjin s + sum (awire s).   (* adjust bytes put on the wire *)
Definition in_hand (s : st) : Z := dsum (obox s).
(* bytes the peer has sent that are still unaccounted: in flight, buffered, or counted but not yet granted *)
Definition quiescent (s : st) : Prop :=
  obox s = [] /\ dwire s = [] /\ abox s = [] /\ bout s = 0 /\ berr s = 0.

(* ---- canonical output for the correspondence run --------------------------------------- *)
Definition enc_msg (m : dmsg) : list Z :=
  match m with MData l => [94; 0; l] | MExt c l => [95; c; l] end.

Definition digest (s : st) : list Z :=
  [ow s; omp s; inw s; thr s; sofar s; bout s; berr s; if comb s then 1 else 0; if eof s then 1 else 0] ++ [-11] ++ flat_map enc_msg (obox s)
  ++ [-12] ++ flat_map enc_msg (dwire s) ++ [-13] ++ abox s ++ [-14] ++ awire s.

(* a history over a pair of channels A, B: direction false = data A -> B, true = data B -> A *)
Fixpoint run2 (sa sb : st) (ops : list (bool * op)) : list Z :=
  match ops with
  | [] => []
  | (d, o) :: r =>
      if d then let '(s', ret) := step sb o in (ret :: digest s') ++ [-20] ++ run2 sa s' r
      else let '(s', ret) := step sa o in (ret :: digest s') ++ [-20] ++ run2 s' sb r
  end.

(* case = ((W0, P, W, combine) for A->B, the same for B->A, ops) *)
Definition run_history (c : (Z * Z * Z * bool) * (Z * Z * Z * bool) * list (bool * op)) : list Z :=
  let '(ca, cb, ops) := c in
  let mk := fun '(w0, p, w, cmb) => init w0 p w DEFAULT_MAX_PACKET_SIZE cmb in
  digest (mk ca) ++ [-20] ++ digest (mk cb) ++ [-20] ++ run2 (mk ca) (mk cb) ops.

(* Transport._sanitize_window_size / _sanitize_packet_size: (default, argument or None) *)
Definition run_sanitize (c : Z * Z * option Z * option Z) : list Z :=
  let '(dw, dp, w, p) := c in [sanitize_window_size dw w; sanitize_packet_size dp p].
