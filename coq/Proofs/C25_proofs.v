(* C25 — proofs about the sendall model (Model/C25.v). *)
From Coq Require Import ZArith List Bool Lia ZifyBool.
From PV Require Import Bytes C25_gen C25.
Import ListNotations.
Open Scope Z_scope.

(* ---- events keep the configuration and never revive a dead channel ------------------- *)
Definition same_cfg (c c' : chan) : Prop := maxpkt c' = maxpkt c /\ timeout c' = timeout c.

Lemma same_cfg_refl c : same_cfg c c.
Proof. split; reflexivity. Qed.

Lemma same_cfg_trans a b c : same_cfg a b -> same_cfg b c -> same_cfg a c.
Proof. unfold same_cfg. intros [H1 H2] [H3 H4]. split; congruence. Qed.

Ltac cfg :=
  unfold same_cfg in *;
  repeat match goal with H : _ /\ _ |- _ => destruct H end;
  try congruence; try lia; auto.

Lemma apply_ev_cfg e : forall c, same_cfg c (apply_ev e c).
Proof.
  induction e as [n| | | | | |a IHa b IHb]; intros c; cbn [apply_ev];
    try (unfold close_internal, same_cfg; try destruct (closed c); cbn; auto; fail).
  eapply same_cfg_trans; [apply IHa | apply IHb].
Qed.

Lemma apply_evs_cfg es c : same_cfg c (apply_evs es c).
Proof.
  unfold apply_evs. revert c. induction es as [|e es IH]; intros c; cbn [fold_left].
  - apply same_cfg_refl.
  - eapply same_cfg_trans; [apply apply_ev_cfg | apply IH].
Qed.

Lemma apply_ev_window e : forall c, ev_ok e = true -> 0 <= window c -> 0 <= window (apply_ev e c).
Proof.
  induction e as [n| | | | | |a IHa b IHb]; intros c; cbn [apply_ev ev_ok]; intros He Hw;
    try (unfold close_internal; try destruct (closed c); cbn; lia).
  apply andb_true_iff in He as [Ha Hb]. apply IHb; [exact Hb | apply IHa; assumption].
Qed.

Lemma apply_evs_window es c :
  forallb ev_ok es = true -> 0 <= window c -> 0 <= window (apply_evs es c).
Proof.
  unfold apply_evs. revert c. induction es as [|e es IH]; intros c Hes Hw; cbn [fold_left].
  - exact Hw.
  - cbn [forallb] in Hes. apply andb_true_iff in Hes as [He Hes].
    apply IH; [exact Hes | now apply apply_ev_window].
Qed.

Lemma chan_ok_iff c : chan_ok c = true <-> 0 <= window c /\ 64 < maxpkt c.
Proof. unfold chan_ok. rewrite andb_true_iff, Z.leb_le, Z.ltb_lt. tauto. Qed.

(* ---- the wait loop ------------------------------------------------------------------- *)
Lemma wait_loop_spec wakes : forall c t,
  forallb wake_ok wakes = true -> 0 <= window c ->
  match wait_loop c t wakes with
  | LOpen c' => same_cfg c c' /\ 0 < window c'
  | LZero c' => same_cfg c c' /\ 0 <= window c' /\ dead c' = true
  | LRaise e c' => same_cfg c c' /\ 0 <= window c' /\ e = SocketTimeout /\ t <> None
  | LBlocked c' => same_cfg c c' /\ 0 <= window c' /\ t = None
  end.
Proof.
  induction wakes as [|[e dt] r IH]; intros c t Hok Hw; cbn [wait_loop].
  - destruct (window c =? 0) eqn:E0.
    + destruct (dead c) eqn:Ed.
      * repeat split; auto; lia.
      * destruct t; repeat split; auto; try lia; discriminate.
    + split; [apply same_cfg_refl | lia].
  - cbn [forallb] in Hok. apply andb_true_iff in Hok as [Hwk Hok].
    destruct (window c =? 0) eqn:E0.
    + destruct (dead c) eqn:Ed.
      * repeat split; auto; lia.
      * set (c1 := match e with Some e0 => apply_ev e0 c | None => c end).
        assert (Hc1 : same_cfg c c1 /\ 0 <= window c1).
        { subst c1. destruct e as [e0|].
          - split; [apply apply_ev_cfg | apply apply_ev_window; auto].
          - split; [apply same_cfg_refl | exact Hw]. }
        destruct Hc1 as [Hcfg Hw1].
        destruct t as [tv|].
        -- destruct (tv - dt <=? 0) eqn:Et.
           ++ repeat split; cfg; discriminate.
           ++ specialize (IH c1 (Some (tv - dt)) Hok Hw1).
              destruct (wait_loop c1 (Some (tv - dt)) r) as [c'|c'|e' c'|c'].
              ** destruct IH as [H1 H2]. split; [eapply same_cfg_trans; eauto | exact H2].
              ** destruct IH as [H1 H2]. split; [eapply same_cfg_trans; eauto | exact H2].
              ** destruct IH as (H1 & H2 & H3 & _). repeat split; cfg; discriminate.
              ** destruct IH as (_ & _ & H3). discriminate.
        -- specialize (IH c1 None Hok Hw1).
           destruct (wait_loop c1 None r) as [c'|c'|e' c'|c'].
           ++ destruct IH as [H1 H2]. split; [eapply same_cfg_trans; eauto | exact H2].
           ++ destruct IH as [H1 H2]. split; [eapply same_cfg_trans; eauto | exact H2].
           ++ destruct IH as (_ & _ & _ & H4). congruence.
           ++ destruct IH as (H1 & H2 & _). repeat split; cfg.
    + split; [apply same_cfg_refl | lia].
Qed.

(* LBlocked only in blocking mode, whatever the events are (no well-formedness needed) *)
Lemma wait_loop_blocked wakes : forall c t c', wait_loop c t wakes = LBlocked c' -> t = None.
Proof.
  induction wakes as [|[e dt] r IH]; intros c t c' H; cbn [wait_loop] in H.
  - destruct (window c =? 0); [|discriminate]. destruct (dead c); [discriminate|].
    destruct t; [discriminate | reflexivity].
  - destruct (window c =? 0); [|discriminate]. destruct (dead c); [discriminate|].
    destruct t as [tv|]; [|reflexivity].
    destruct (tv - dt <=? 0); [discriminate|]. apply IH in H. discriminate.
Qed.

(* ---- take_window / _wait_for_send_window ---------------------------------------------- *)
Lemma take_window_spec c size :
  0 < window c -> 64 < maxpkt c -> 0 < size ->
  match take_window c size with
  | WSize n c' => same_cfg c c' /\ 0 <= window c' /\
                  ((n = 0 /\ dead c' = true) \/ 1 <= n <= size)
  | _ => False
  end.
Proof.
  intros Hw Hm Hs. unfold take_window. destruct (dead c) eqn:Ed.
  - repeat split; auto; try lia.
  - cbn zeta. destruct (window c <? size) eqn:E1;
      [destruct (maxpkt c - 64 <? window c) eqn:E2 | destruct (maxpkt c - 64 <? size) eqn:E2];
      unfold same_cfg; cbn; repeat split; auto; try lia; right; lia.
Qed.

Lemma wait_spec c size wakes :
  forallb wake_ok wakes = true -> chan_ok c = true -> 0 < size ->
  match wait_for_send_window c size wakes with
  | WSize n c' => same_cfg c c' /\ 0 <= window c' /\
                  ((n = 0 /\ dead c' = true) \/ 1 <= n <= size)
  | WRaise e c' => same_cfg c c' /\ 0 <= window c' /\ e = SocketTimeout /\ timeout c <> None
  | WBlocked c' => same_cfg c c' /\ 0 <= window c' /\ timeout c = None
  end.
Proof.
  intros Hok Hc Hs. apply chan_ok_iff in Hc as [Hw Hm].
  unfold wait_for_send_window. destruct (dead c) eqn:Ed.
  - repeat split; auto.
  - destruct (window c =? 0) eqn:E0.
    + assert (Hgen :
        match
          match wait_loop c (timeout c) wakes with
          | LOpen c' => take_window c' size
          | LZero c' => WSize 0 c'
          | LRaise e c' => WRaise e c'
          | LBlocked c' => WBlocked c'
          end
        with
        | WSize n c' => same_cfg c c' /\ 0 <= window c' /\ ((n = 0 /\ dead c' = true) \/ 1 <= n <= size)
        | WRaise e c' => same_cfg c c' /\ 0 <= window c' /\ e = SocketTimeout /\ timeout c <> None
        | WBlocked c' => same_cfg c c' /\ 0 <= window c' /\ timeout c = None
        end).
      { pose proof (wait_loop_spec wakes c (timeout c) Hok Hw) as HL.
        destruct (wait_loop c (timeout c) wakes) as [c'|c'|e' c'|c'].
        - destruct HL as [Hcfg Hw'].
          assert (Hm' : 64 < maxpkt c') by (destruct Hcfg as [Hx _]; lia).
          pose proof (take_window_spec c' size Hw' Hm' Hs) as HT.
          destruct (take_window c' size) as [n c''| |]; try contradiction.
          destruct HT as (H1 & H2 & H3). repeat split; cfg.
        - destruct HL as (H1 & H2 & H3). repeat split; cfg.
        - destruct HL as (H1 & H2 & H3 & H4). repeat split; cfg.
        - destruct HL as (H1 & H2 & H3). repeat split; cfg. }
      destruct (timeout c) as [tv|] eqn:Et.
      * destruct tv; try exact Hgen.
        repeat split; auto; discriminate.
      * exact Hgen.
    + assert (Hw' : 0 < window c) by lia.
      pose proof (take_window_spec c size Hw' Hm Hs) as HT.
      destruct (take_window c size); try contradiction. exact HT.
Qed.

Lemma wait_blocked c size wakes c' :
  wait_for_send_window c size wakes = WBlocked c' -> timeout c = None.
Proof.
  unfold wait_for_send_window, take_window. intros H.
  destruct (dead c); [discriminate|].
  destruct (window c =? 0).
  - destruct (timeout c) as [tv|] eqn:Et; [|reflexivity].
    assert (Hx : match wait_loop c (Some tv) wakes with
                 | LOpen c'0 => if dead c'0 then WSize 0 c'0 else
                     WSize (if maxpkt c'0 - 64 <? (if window c'0 <? size then window c'0 else size)
                            then maxpkt c'0 - 64 else if window c'0 <? size then window c'0 else size)
                       (mkChan (closed c'0) (eof_sent c'0)
                          (window c'0 - (if maxpkt c'0 - 64 <? (if window c'0 <? size then window c'0 else size)
                            then maxpkt c'0 - 64 else if window c'0 <? size then window c'0 else size))
                          (maxpkt c'0) (timeout c'0))
                 | LZero c'0 => WSize 0 c'0
                 | LRaise e c'0 => WRaise e c'0
                 | LBlocked c'0 => WBlocked c'0
                 end = WBlocked c').
    { destruct tv; try exact H. discriminate. }
    destruct (wait_loop c (Some tv) wakes) eqn:EL.
    + destruct (dead c0); discriminate.
    + discriminate.
    + discriminate.
    + apply wait_loop_blocked in EL. discriminate.
  - destruct (dead c); discriminate.
Qed.

(* ---- send ---------------------------------------------------------------------------- *)
Lemma send_out st c s r n out c' :
  send st c s r = SRet n out c' ->
  (n = 0 /\ out = None) \/ (n <> 0 /\ out = Some (kind st, firstn (Z.to_nat n) s)).
Proof.
  unfold send. destruct (closed (apply_evs (fst r) c)); [discriminate|].
  destruct (wait_for_send_window _ _ _) as [m c1|e c1|c1]; try discriminate.
  destruct (m =? 0) eqn:E; intros H; injection H as <- <- <-.
  - left. split; reflexivity.
  - right. split; [lia | reflexivity].
Qed.

Lemma send_spec st c s r :
  chan_ok c = true -> round_ok r = true -> s <> [] ->
  match send st c s r with
  | SRet n out c' => chan_ok c' = true /\ same_cfg c c' /\
                     ((n = 0 /\ dead c' = true) \/ 1 <= n <= Z.of_nat (length s))
  | SRaise e c' => chan_ok c' = true /\ same_cfg c c' /\
                   ((e = SocketErr /\ closed c' = true) \/ (e = SocketTimeout /\ timeout c <> None))
  | SBlocked c' => chan_ok c' = true /\ same_cfg c c' /\ timeout c = None
  end.
Proof.
  intros Hc Hr Hs. unfold round_ok in Hr. apply andb_true_iff in Hr as [Hpre Hwk].
  apply chan_ok_iff in Hc as [Hw Hm].
  unfold send. set (c1 := apply_evs (fst r) c).
  assert (Hcfg1 : same_cfg c c1) by apply apply_evs_cfg.
  assert (Hw1 : 0 <= window c1) by (apply apply_evs_window; auto).
  assert (Hm1 : 64 < maxpkt c1) by (destruct Hcfg1 as [Hx _]; lia).
  assert (Hok1 : chan_ok c1 = true) by (apply chan_ok_iff; auto).
  assert (Hlen : 0 < Z.of_nat (length s)) by (destruct s; [congruence | cbn [length]; lia]).
  destruct (closed c1) eqn:Ecl.
  - split; [exact Hok1 | split; [exact Hcfg1 | left; split; [reflexivity | exact Ecl]]].
  - pose proof (wait_spec c1 (Z.of_nat (length s)) (snd r) Hwk Hok1 Hlen) as HW.
    destruct (wait_for_send_window c1 (Z.of_nat (length s)) (snd r)) as [n c2|e c2|c2].
    + destruct HW as (H1 & H2 & H3).
      assert (Hcfg2 : same_cfg c c2) by (apply (same_cfg_trans _ _ _ Hcfg1 H1)).
      assert (Hok2 : chan_ok c2 = true) by (apply chan_ok_iff; destruct Hcfg2 as [Hx _]; split; lia).
      destruct (n =? 0) eqn:En.
      * split; [exact Hok2 | split; [exact Hcfg2 |]]. left. split; [reflexivity|].
        destruct H3 as [[_ Hd]|Hn]; [exact Hd | lia].
      * split; [exact Hok2 | split; [exact Hcfg2 |]]. right. destruct H3 as [[Hn _]|Hn]; lia.
    + destruct HW as (H1 & H2 & H3 & H4).
      assert (Hcfg2 : same_cfg c c2) by (apply (same_cfg_trans _ _ _ Hcfg1 H1)).
      assert (Hok2 : chan_ok c2 = true) by (apply chan_ok_iff; destruct Hcfg2 as [Hx _]; split; lia).
      split; [exact Hok2 | split; [exact Hcfg2 |]].
      right. split; [exact H3|]. destruct Hcfg1 as [_ Ht]. congruence.
    + destruct HW as (H1 & H2 & H3).
      assert (Hcfg2 : same_cfg c c2) by (apply (same_cfg_trans _ _ _ Hcfg1 H1)).
      assert (Hok2 : chan_ok c2 = true) by (apply chan_ok_iff; destruct Hcfg2 as [Hx _]; split; lia).
      split; [exact Hok2 | split; [exact Hcfg2 |]].
      destruct Hcfg1 as [_ Ht]. congruence.
Qed.

Lemma send_blocked st c s r c' : send st c s r = SBlocked c' -> timeout c = None.
Proof.
  unfold send. destruct (closed (apply_evs (fst r) c)); [discriminate|].
  destruct (wait_for_send_window _ _ _) as [m c1|e c1|c1] eqn:EW; try discriminate.
  - destruct (m =? 0); discriminate.
  - intros _. apply wait_blocked in EW.
    destruct (apply_evs_cfg (fst r) c) as [_ Ht]. congruence.
Qed.

Lemma send_cfg st c s r :
  match send st c s r with
  | SRet _ _ c' | SRaise _ c' | SBlocked c' => timeout c' = timeout c
  end.
Proof.
  (* events and the window bookkeeping never touch self.timeout *)
  assert (Hev : forall e c0, timeout (apply_ev e c0) = timeout c0)
    by (intros e c0; apply apply_ev_cfg).
  assert (HL : forall wakes c0 t, match wait_loop c0 t wakes with
               | LOpen c' | LZero c' | LRaise _ c' | LBlocked c' => timeout c' = timeout c0 end).
  { induction wakes as [|[e dt] w IH]; intros c0 t; cbn [wait_loop].
    - destruct (window c0 =? 0); [|reflexivity]. destruct (dead c0); [reflexivity|].
      destruct t; reflexivity.
    - destruct (window c0 =? 0); [|reflexivity]. destruct (dead c0); [reflexivity|].
      set (c1 := match e with Some e0 => apply_ev e0 c0 | None => c0 end).
      assert (H1 : timeout c1 = timeout c0) by (subst c1; destruct e; [apply Hev | reflexivity]).
      destruct t as [tv|].
      + destruct (tv - dt <=? 0); [exact H1|].
        specialize (IH c1 (Some (tv - dt))). destruct (wait_loop c1 (Some (tv - dt)) w); congruence.
      + specialize (IH c1 None). destruct (wait_loop c1 None w); congruence. }
  assert (HT : forall c0 size, match take_window c0 size with
               | WSize _ c' | WRaise _ c' | WBlocked c' => timeout c' = timeout c0 end).
  { intros c0 size. unfold take_window. destruct (dead c0); reflexivity. }
  assert (HW : forall c0 size wakes, match wait_for_send_window c0 size wakes with
               | WSize _ c' | WRaise _ c' | WBlocked c' => timeout c' = timeout c0 end).
  { intros c0 size wakes. unfold wait_for_send_window. destruct (dead c0); [reflexivity|].
    destruct (window c0 =? 0); [|apply HT].
    assert (Hg : match match wait_loop c0 (timeout c0) wakes with
                   | LOpen c' => take_window c' size | LZero c' => WSize 0 c'
                   | LRaise e c' => WRaise e c' | LBlocked c' => WBlocked c' end with
                 | WSize _ c' | WRaise _ c' | WBlocked c' => timeout c' = timeout c0 end).
    { specialize (HL wakes c0 (timeout c0)). destruct (wait_loop c0 (timeout c0) wakes) as [c'|c'|e' c'|c'];
        try exact HL. specialize (HT c' size). destruct (take_window c' size); congruence. }
    destruct (timeout c0) as [tv|] eqn:Et; [destruct tv; try exact Hg; exact Et | exact Hg]. }
  unfold send. set (c1 := apply_evs (fst r) c).
  assert (H1 : timeout c1 = timeout c) by apply apply_evs_cfg.
  destruct (closed c1); [exact H1|].
  specialize (HW c1 (Z.of_nat (length s)) (snd r)).
  destruct (wait_for_send_window c1 (Z.of_nat (length s)) (snd r)) as [n c2|e c2|c2]; try congruence.
  destruct (n =? 0); congruence.
Qed.

(* ---- sendall ------------------------------------------------------------------------- *)
Lemma payload_app a b : payload (a ++ b) = payload a ++ payload b.
Proof. unfold payload. apply flat_map_app. Qed.

(* conservation, for every fuel, channel and environment (no side conditions) *)
Lemma sendall_conserve fuel : forall st c s rs tr,
  let f := sendall fuel st c s rs tr in
  exists tr2, f_trace f = tr ++ tr2 /\ payload tr2 ++ f_rest f = s /\
              Forall (fun m => fst m = kind st) tr2 /\
              (f_out f = Done -> f_rest f = []) /\ (f_out f <> Done -> f_rest f <> []).
Proof.
  induction fuel as [|fuel IH]; intros st c s rs tr; destruct s as [|x s]; cbn [sendall].
  - exists []. cbn. rewrite app_nil_r. repeat split; auto; congruence.
  - exists []. cbn. rewrite app_nil_r. repeat split; auto; congruence.
  - exists []. cbn. rewrite app_nil_r. repeat split; auto; congruence.
  - destruct (send st c (x :: s) (hd ([], []) rs)) as [n out c'|e c'|c'] eqn:ES.
    + apply send_out in ES. destruct ES as [[-> ->] | [Hn ->]].
      * cbn. exists []. cbn. rewrite app_nil_r. repeat split; auto; congruence.
      * assert (En : (n =? 0) = false) by lia. rewrite En. cbv beta iota zeta.
        match goal with |- context [sendall fuel st c' ?a ?b ?d] => specialize (IH st c' a b d) end.
        cbn zeta in IH. destruct IH as (tr2 & H1 & H2 & H3 & H4 & H5).
        exists ((kind st, firstn (Z.to_nat n) (x :: s)) :: tr2).
        split; [rewrite H1, <- app_assoc; reflexivity|].
        split.
        { change (payload ((kind st, firstn (Z.to_nat n) (x :: s)) :: tr2))
            with (firstn (Z.to_nat n) (x :: s) ++ payload tr2).
          rewrite <- app_assoc, H2. apply firstn_skipn. }
        split; [constructor; [reflexivity | exact H3]|].
        split; assumption.
    + exists []. cbn. rewrite app_nil_r. repeat split; auto; congruence.
    + exists []. cbn. rewrite app_nil_r. repeat split; auto; congruence.
Qed.

Lemma total fuel st c s rs :
  let f := sendall fuel st c s rs [] in
  payload (f_trace f) ++ f_rest f = s /\
  Forall (fun m => fst m = kind st) (f_trace f) /\
  (f_out f = Done -> payload (f_trace f) = s /\ f_rest f = []) /\
  (f_out f <> Done -> f_rest f <> []).
Proof.
  cbn zeta. destruct (sendall_conserve fuel st c s rs []) as (tr2 & H1 & H2 & H3 & H4 & H5).
  cbn [app] in H1. rewrite H1.
  split; [exact H2|]. split; [exact H3|]. split; [|exact H5].
  intros Hd. specialize (H4 Hd). split; [|exact H4]. rewrite H4, app_nil_r in H2. exact H2.
Qed.

(* termination: len(data) iterations always suffice, and every emitted chunk is non-empty *)
Lemma skipn_length_lt {A} n (l : list A) : (0 < n)%nat -> l <> [] -> (length (skipn n l) < length l)%nat.
Proof. intros Hn Hl. rewrite skipn_length. destruct l; [congruence | cbn [length]; lia]. Qed.

Lemma sendall_fuel fuel : forall st c s rs tr,
  chan_ok c = true -> Forall (fun r => round_ok r = true) rs -> (length s <= fuel)%nat ->
  Forall (fun m => snd m <> []) tr ->
  let f := sendall fuel st c s rs tr in
  f_out f <> Fuel /\ Forall (fun m => snd m <> []) (f_trace f) /\ chan_ok (f_chan f) = true.
Proof.
  induction fuel as [|fuel IH]; intros st c s rs tr Hc Hrs Hlen Htr; destruct s as [|x s]; cbn [sendall].
  - cbn. repeat split; auto; discriminate.
  - cbn [length] in Hlen. lia.
  - cbn. repeat split; auto; discriminate.
  - assert (Hr : round_ok (hd ([], []) rs) = true) by (destruct rs; [reflexivity | now inversion Hrs]).
    assert (Hne : x :: s <> []) by discriminate.
    pose proof (send_spec st c (x :: s) (hd ([], []) rs) Hc Hr Hne) as HS.
    destruct (send st c (x :: s) (hd ([], []) rs)) as [n out c'|e c'|c'] eqn:ES.
    + destruct HS as (Hc' & _ & Hn). apply send_out in ES.
      destruct ES as [[-> ->] | [Hn0 ->]].
      * cbn. repeat split; auto; discriminate.
      * assert (En : (n =? 0) = false) by lia. rewrite En. cbv beta iota zeta.
        assert (Hn1 : 1 <= n <= Z.of_nat (length (x :: s))) by (destruct Hn as [[Hz _]|Hn]; lia).
        apply IH; auto.
        -- destruct rs; [constructor | now inversion Hrs].
        -- assert (Hlt : (length (skipn (Z.to_nat n) (x :: s)) < length (x :: s))%nat)
             by (apply skipn_length_lt; [lia | discriminate]).
           lia.
        -- apply Forall_app. split; [exact Htr|]. constructor; [|constructor].
           cbn [snd]. intros Hf. apply (f_equal (@length Z)) in Hf.
           rewrite firstn_length in Hf. cbn [length] in Hf, Hn1. lia.
    + cbn. destruct HS as (Hc' & _). repeat split; auto; discriminate.
    + cbn. destruct HS as (Hc' & _). repeat split; auto; discriminate.
Qed.

Lemma terminates st c s rs :
  chan_ok c = true -> Forall (fun r => round_ok r = true) rs ->
  let f := sendall (length s) st c s rs [] in
  f_out f <> Fuel /\ Forall (fun m => snd m <> []) (f_trace f).
Proof.
  intros Hc Hrs. cbn zeta.
  destruct (sendall_fuel (length s) st c s rs [] Hc Hrs (Nat.le_refl _) (Forall_nil _)) as (H1 & H2 & _).
  split; assumption.
Qed.

(* more fuel than len(data) changes nothing: the fuelled model is the loop *)
Lemma outcomes fuel st c s rs :
  chan_ok c = true -> Forall (fun r => round_ok r = true) rs -> (length s <= fuel)%nat ->
  let f := sendall fuel st c s rs [] in
  f_out f = Done \/ f_out f = Raised SocketErr \/ f_out f = Raised SocketTimeout \/ f_out f = Blocked.
Proof.
  revert st c s rs.
  assert (G : forall fuel st c s rs tr,
    chan_ok c = true -> Forall (fun r => round_ok r = true) rs -> (length s <= fuel)%nat ->
    let f := sendall fuel st c s rs tr in
    f_out f = Done \/ f_out f = Raised SocketErr \/ f_out f = Raised SocketTimeout \/ f_out f = Blocked).
  { clear fuel. induction fuel as [|fuel IH]; intros st c s rs tr Hc Hrs Hlen; destruct s as [|x s]; cbn [sendall].
    - left; reflexivity.
    - cbn [length] in Hlen. lia.
    - left; reflexivity.
    - assert (Hr : round_ok (hd ([], []) rs) = true) by (destruct rs; [reflexivity | now inversion Hrs]).
      assert (Hne : x :: s <> []) by discriminate.
      pose proof (send_spec st c (x :: s) (hd ([], []) rs) Hc Hr Hne) as HS.
      destruct (send st c (x :: s) (hd ([], []) rs)) as [n out c'|e c'|c'] eqn:ES.
      + destruct HS as (Hc' & _ & Hn). destruct (n =? 0) eqn:En.
        * right; left; reflexivity.
        * assert (Hn1 : 1 <= n <= Z.of_nat (length (x :: s))) by (destruct Hn as [[Hz _]|Hn]; lia).
          apply IH; auto.
          -- destruct rs; [constructor | now inversion Hrs].
          -- assert (Hlt : (length (skipn (Z.to_nat n) (x :: s)) < length (x :: s))%nat)
               by (apply skipn_length_lt; [lia | discriminate]).
             lia.
      + destruct HS as (_ & _ & [[-> _] | [-> _]]); cbn; auto.
      + cbn. auto. }
  intros st c s rs. apply G.
Qed.

(* a closed or shut-down channel: sendall of non-empty data raises socket.error at once *)
Lemma raises_when_dead fuel st c s pre wakes rest :
  s <> [] -> dead (apply_evs pre c) = true ->
  sendall (S fuel) st c s ((pre, wakes) :: rest) [] =
    mkFinal (Raised SocketErr) (apply_evs pre c) [] s.
Proof.
  intros Hs Hd. destruct s as [|x s]; [congruence|]. cbn [sendall hd].
  unfold send. cbn [fst snd]. destruct (closed (apply_evs pre c)) eqn:Ec; [reflexivity|].
  unfold wait_for_send_window. rewrite Hd. cbn. reflexivity.
Qed.

(* non-blocking mode with no window: socket.timeout at once, nothing sent *)
Lemma raises_timeout_nonblocking fuel st c s pre wakes rest :
  s <> [] -> dead (apply_evs pre c) = false -> window (apply_evs pre c) = 0 -> timeout c = Some 0 ->
  sendall (S fuel) st c s ((pre, wakes) :: rest) [] =
    mkFinal (Raised SocketTimeout) (apply_evs pre c) [] s.
Proof.
  intros Hs Hd Hw Ht. destruct s as [|x s]; [congruence|]. cbn [sendall hd].
  unfold send. cbn [fst snd].
  assert (Hc : closed (apply_evs pre c) = false)
    by (unfold dead in Hd; apply orb_false_iff in Hd; tauto).
  rewrite Hc. unfold wait_for_send_window. rewrite Hd, Hw. cbn [Z.eqb].
  destruct (apply_evs_cfg pre c) as [_ Htc]. rewrite Htc, Ht. reflexivity.
Qed.

(* Blocked (asleep waiting for the peer) happens only in blocking mode *)
Lemma blocked_only_blocking fuel : forall st c s rs tr,
  f_out (sendall fuel st c s rs tr) = Blocked -> timeout c = None.
Proof.
  induction fuel as [|fuel IH]; intros st c s rs tr H; destruct s as [|x s]; cbn [sendall] in H;
    try (cbn in H; discriminate).
  pose proof (send_cfg st c (x :: s) (hd ([], []) rs)) as HC.
  destruct (send st c (x :: s) (hd ([], []) rs)) as [n out c'|e c'|c'] eqn:ES.
  - destruct (n =? 0); [cbn in H; discriminate|]. apply IH in H. congruence.
  - cbn in H. discriminate.
  - apply send_blocked in ES. exact ES.
Qed.

(* the loop before the repair: after shutdown_write (eof_sent, not closed), with no further
   event, no amount of fuel is enough and nothing is ever sent *)
Lemma v0_diverges fuel : forall st c s,
  s <> [] -> closed c = false -> eof_sent c = true ->
  sendall_v0 fuel st c s [] [] = mkFinal Fuel c [] s.
Proof.
  induction fuel as [|fuel IH]; intros st c s Hs Hc He; destruct s as [|x s]; try congruence; cbn [sendall_v0].
  - reflexivity.
  - cbn [hd]. unfold send. cbn [fst snd apply_evs fold_left]. rewrite Hc.
    unfold wait_for_send_window, dead. rewrite Hc, He. cbn [orb Z.eqb skipn Z.to_nat tl].
    apply IH; auto; discriminate.
Qed.

(* the constants the model writes out are the ones in the source (Gen/C25_gen.v) *)
Lemma source_constants :
  MSG_CHANNEL_DATA = src_msg_channel_data /\
  MSG_CHANNEL_EXTENDED_DATA = src_msg_channel_extended_data /\
  take_window (mkChan false false 1000 (src_packet_overhead + 1) None) 1000
    = WSize 1 (mkChan false false 999 (src_packet_overhead + 1) None).
Proof. vm_compute. repeat split; reflexivity. Qed.
