(* C23 — model of channel id allocation in paramiko/transport.py:
   Transport._next_channel, ChannelMap (put / get / delete), the critical section of
   open_channel (id chosen and registered under one lock acquisition) and the two critical
   sections of _parse_channel_open (id reserved under the lock, registered in a later one;
   between them the id is "pending": chosen, but invisible to _next_channel).
   Definitions only; proofs are in Proofs/C23_proofs.v.
   The number of id bits is a parameter (`bits`; ids live in [0, 2^bits)); paramiko's value
   comes from the source via Gen/C23_gen.v (chan_mask = 0xFFFFFF, chan_bits = 24). *)
From PV Require Import Bytes C23_gen.
Open Scope Z_scope.

Definition mem (x : Z) (l : list Z) : bool := existsb (Z.eqb x) l.

(* (x + 1) & mask, mask = 2^bits - 1 *)
Definition bump (bits x : Z) : Z := Z.land (x + 1) (Z.ones bits).

(* chanid = self._channel_counter
   while self._channels.get(chanid) is not None:
       self._channel_counter = (self._channel_counter + 1) & 0xFFFFFF
       chanid = self._channel_counter
   -> Some (chanid, number of live ids skipped); None = out of fuel *)
Fixpoint next_loop (bits : Z) (fuel : nat) (live : list Z) (c k : Z) : option (Z * Z) :=
  if mem c live then
    match fuel with
    | O => None
    | S f => next_loop bits f live (bump bits c) (k + 1)
    end
  else Some (c, k).

(* each iteration skips a different live id, so |live| + 1 tests suffice while fewer than
   2^bits channels are live (C23_next_channel_terminates); with all 2^bits ids live the real
   loop never ends (C23_full_map_diverges) *)
Definition next_fuel (live : list Z) : nat := length live.

(* self._channel_counter = (self._channel_counter + 1) & 0xFFFFFF; return chanid
   -> (chanid, new counter, skipped) *)
Definition next_channel (bits : Z) (live : list Z) (counter : Z) : option (Z * Z * Z) :=
  match next_loop bits (next_fuel live) live counter 0 with
  | None => None
  | Some (x, k) => Some (x, bump bits x, k)
  end.

(* pending: ids reserved by _parse_channel_open and not yet registered, each with a ghost
   count of how far the counter has travelled since the reservation *)
(* opening: keys of Transport.channel_events — locally opened channels still waiting for the
   peer's OPEN_SUCCESS / OPEN_FAILURE (open_channel adds the key, the two handlers delete it) *)
Record st := mkSt { counter : Z; live : list Z; pending : list (Z * Z); opening : list Z }.

Inductive op :=
  | LocalOpen                 (* open_channel: _next_channel + _channels.put, one section *)
  | PeerReserve               (* _parse_channel_open, first section: _next_channel *)
  | PeerRegister (p : Z)      (* _parse_channel_open, second section: _channels.put(p) *)
  | PeerReject (p : Z)        (* the server refused: the reserved id is dropped *)
  | Close (x : Z)             (* _unlink_channel: _channels.delete(x) (Channel._handle_close / _unlink) *)
  | OpenSuccess (x : Z)       (* _parse_channel_open_success: the map is not touched *)
  | OpenFailure (x : Z).      (* _parse_channel_open_failure: delete(x) only if x is still opening *)

Definition travel (d : Z) (pend : list (Z * Z)) : list (Z * Z) :=
  map (fun pt => (fst pt, snd pt + d)) pend.

Definition pend_ids (pend : list (Z * Z)) : list Z := map fst pend.

Fixpoint drop_pending (p : Z) (pend : list (Z * Z)) : list (Z * Z) :=
  match pend with
  | [] => []
  | (q, t) :: r => if q =? p then r else (q, t) :: drop_pending p r
  end.

Fixpoint remove_id (x : Z) (l : list Z) : list Z :=
  match l with
  | [] => []
  | y :: r => if y =? x then remove_id x r else y :: remove_id x r
  end.

Inductive sres := SOk (s : st) (out : Z) | SFuel.

(* out: the id handed out, or -1 *)
Definition step (bits : Z) (s : st) (o : op) : sres :=
  match o with
  | LocalOpen =>
      match next_channel bits (live s) (counter s) with
      | None => SFuel
      | Some (x, c', k) => SOk (mkSt c' (x :: live s) (travel (k + 1) (pending s)) (x :: opening s)) x
      end
  | PeerReserve =>
      match next_channel bits (live s) (counter s) with
      | None => SFuel
      | Some (x, c', k) => SOk (mkSt c' (live s) ((x, 0) :: travel (k + 1) (pending s)) (opening s)) x
      end
  | PeerRegister p =>
      if mem p (pend_ids (pending s))
      then SOk (mkSt (counter s) (p :: live s) (drop_pending p (pending s)) (opening s)) (-1)
      else SOk s (-1)
  | PeerReject p => SOk (mkSt (counter s) (live s) (drop_pending p (pending s)) (opening s)) (-1)
  | Close x => SOk (mkSt (counter s) (remove_id x (live s)) (pending s) (opening s)) (-1)
  | OpenSuccess x =>
      (* chan = self._channels.get(chanid); if chan is None: return; ...; del channel_events[chanid] *)
      if mem x (live s)
      then SOk (mkSt (counter s) (live s) (pending s) (remove_id x (opening s))) (-1)
      else SOk s (-1)
  | OpenFailure x =>
      (* if chanid in self.channel_events: self._channels.delete(chanid); del channel_events[chanid] *)
      if mem x (opening s)
      then SOk (mkSt (counter s) (remove_id x (live s)) (pending s) (remove_id x (opening s))) (-1)
      else SOk s (-1)
  end.

(* the explicit bound of C23_unique: between a reservation and its registration the counter
   travels fewer than 2^bits steps (one per allocation plus one per live id skipped) *)
Definition window_ok (bits : Z) (s : st) : bool :=
  forallb (fun pt => snd pt <? 2 ^ bits) (pending s).

(* run a history; Some (final state, ids handed out) when every step had fuel and kept the
   bound; `bounded = false` runs without checking the bound *)
Fixpoint run (bits : Z) (bounded : bool) (s : st) (ops : list op) (outs : list Z) : option (st * list Z) :=
  match ops with
  | [] => Some (s, outs)
  | o :: r =>
      match step bits s o with
      | SFuel => None
      | SOk s' out =>
          if bounded && negb (window_ok bits s') then None
          else run bits bounded s' r (outs ++ [out])
      end
  end.

Definition init (c0 : Z) : st := mkSt c0 [] [] [].

(* well-formed state: what C23_unique establishes for every reachable state *)
Definition in_range (bits x : Z) : Prop := 0 <= x < 2 ^ bits.

(* ---- paramiko's instance ------------------------------------------------------------- *)
Definition BITS : Z := chan_bits.

(* canonical encoding for the correspondence run; live0 = ids already in the map (the state
   after an earlier wrap-around) *)
Definition run_history (x : Z * list Z * list op) : list Z :=
  let '(c0, live0, ops) := x in
  match run BITS false (mkSt c0 live0 [] []) ops [] with
  | None => [99]
  | Some (s, outs) => 0 :: counter s :: Z.of_nat (length outs) :: outs ++ (-2) :: live s ++ (-3) :: opening s
  end.
