"""C04 — session keys follow RFC 4253 section 7.2 key derivation and match across the two peers.

Proof: coq/Props/C04_props.v over coq/Model/C04.v + coq/Gen/C04_gen.v (letters / size sources /
cipher and MAC tables regenerated from paramiko/transport.py by gen/c04.py every run).
Tie: (a) translator + re-proof; (b) differential run of the model's compute_key (vm_compute, toy hash
defined identically in Gallina and here) against the real Transport._compute_key; exhaustive run of the
model's `requested` against what the real _activate_inbound/_activate_outbound ask for.
Search oracle: independent RFC 4253 derivation over hashlib vs _compute_key; installed keys vs the
oracle; client-out == server-in and in != out on the real code; real loopback handshakes (every kex incl.
group exchange with a stub modulus pack, every AEAD cipher) with traffic, a re-key and more traffic, whose
captured wire bytes are decoded per key epoch with the RFC values by an independent decoder (AES-GCM / CTR /
CBC + HMAC straight from `cryptography` / `hmac`, algorithm and lengths from hand-written RFC tables keyed by the
algorithm NAME, never from paramiko's tables), i.e. what the Packetizer actually has in effect; what the real
Packetizer is handed (mac key, hash, tag length, block size, AEAD IV) is compared with the same tables.  Quick tier:
every MAC, every cipher and every kex method in at least one handshake (pairing rotates with the seed); thorough:
every cipher x MAC pair.
"""
import hashlib
import struct

from common import coq, with_watchdog

PID = "C04"
LEVEL_TEXT = ("Machine-checked proof (Coq, closed under the global context, the kex hash an arbitrary function of "
              "fixed output length hl > 0) that the model of Transport._compute_key returns exactly the first n "
              "bytes of the RFC 4253 section 7.2 stream K1 = HASH(K||H||X||sid), K(i+1) = HASH(K||H||K1..Ki) for "
              "every n >= 0 (never out of fuel, exact length), that the key letters extracted from "
              "_activate_inbound/_activate_outbound are the RFC assignment (A/C/E client-to-server, B/D/F "
              "server-to-client), that client-out = server-in and server-out = client-in (same letter, same size "
              "source, same key bytes), that equal keys for two directions would exhibit a truncated-hash collision "
              "on two inputs differing in the letter byte, and that the requested sizes are iv-size-or-block-size / "
              "key-size / MAC digest size (1..512 over the generated tables), and that for every kex of the generated "
              "_kex_info table the selected hash (the class's hash_algo, else the sha1 fallback extracted from "
              "_compute_key) has digest length 1..64 so the RFC theorem applies, and that length is the one the kex METHOD "
              "specifies (hand-written RFC table by method name, C04_kex_hash_spec), and that every generated cipher / MAC "
              "row agrees by NAME with hand-written RFC tables of key / IV / block / integrity-key / tag lengths "
              "(C04_tables_spec).  The model is tied to transport.py by the "
              "translator (letters, sizes, tables) and by a vm_compute differential run against the real code.")
LEVEL_NOTE = ("Trusted: Coq kernel + vm_compute; hand-written loop model of _compute_key validated by the "
              "correspondence run (toy hash); gen/c04.py; the hash is abstract (fixed output length; collision "
              "freedom appears only as an explicit premise / conclusion); which hash is selected is generated (digest "
              "length per kex class, fallback), proved equal to a hand-written per-method RFC table, and checked on the "
              "real kex classes and in real handshakes against the hash named by the kex method; the Packetizer is not "
              "modelled here (C01-C03) -- what it has in effect per key epoch is checked only by the wire decoder; logging "
              "and the engine construction in _get_engine are outside the model (checked by the oracle only); that "
              "local_cipher of one peer equals remote_cipher of the other is C05's subject.")
TECHNIQUE = "Coq proof (loop invariant, induction on fuel) + generated tables + vm_compute differential correspondence"

LETTERS = "ABCDEF"
HASHES = ["sha1", "sha256", "sha384", "sha512"]


# ---------------------------------------------------------------------------------------------
# independent reference (RFC 4251 mpint, RFC 4253 section 7.2)

def rfc4251_mpint(n):
    if n == 0:
        body = b""
    else:
        k = 1
        while True:
            try:
                body = n.to_bytes(k, "big", signed=True)
                break
            except OverflowError:
                k += 1
    return struct.pack(">I", len(body)) + body


def rfc_kdf(hashf, K, H, X, sid, n):
    """key = K1 || K2 || ... truncated to n;  K1 = HASH(K||H||X||sid), Ki+1 = HASH(K||H||K1||..||Ki)."""
    kb = rfc4251_mpint(K)
    blocks = [hashf(kb + H + X + sid).digest()]
    total = len(blocks[0])
    while total < n:
        blocks.append(hashf(kb + H + b"".join(blocks)).digest())
        total += len(blocks[-1])
    return b"".join(blocks)[:n]


def rfc_letter(server, outbound, purpose):
    to_server = (not server and outbound) or (server and not outbound)
    return {"iv": "AB", "key": "CD", "mac": "EF"}[purpose][0 if to_server else 1]


# ---------------------------------------------------------------------------------------------
# toy hash (identical to toy_hash in coq/Model/C04.v)

_TOYS = {}


def make_toy(hl):
    if hl in _TOYS:
        return _TOYS[hl]
    mask = 0xFFFFFFFF

    class Toy:
        digest_size = hl
        block_size = 8
        name = "toy%d" % hl

        def __init__(self, data=b""):
            self._a = 7
            self.update(data)

        def update(self, data):
            a = self._a
            for b in data:
                a = (a * 65599 + b + 1) & mask
            self._a = a

        def digest(self):
            a = self._a
            return bytes((((a + j * 40503) * 2654435761) & mask) >> 24 for j in range(hl))

    _TOYS[hl] = Toy
    return Toy


class KexStub:
    def __init__(self, hash_algo):
        self.hash_algo = hash_algo


class KexStubNoHash:
    pass


def hash_by_name(name):
    if name.startswith("toy"):
        return make_toy(int(name[3:]))
    return getattr(hashlib, name)


# ---------------------------------------------------------------------------------------------
# generators

def gen_K(rng):
    mode = rng.randrange(8)
    if mode == 0:
        return rng.choice([0, 1, 127, 128, 255, 256, 2 ** 15, 2 ** 16 - 1, 2 ** 31, 2 ** 32 - 1, 2 ** 32,
                           2 ** 255 - 19, 2 ** 256 - 1, 2 ** 2047, 2 ** 2048 - 1, -1, -128, -129, -2 ** 64])
    bits = rng.choice([rng.randrange(1, 80), 8 * rng.randrange(1, 66), 255, 256, 384, 521, 1024, 2048, 3072, 4096,
                       rng.randrange(1, 4097)])
    if mode == 1:
        v = 2 ** bits + rng.choice([-1, 0, 1])
    elif mode == 2:
        v = (0x80 << (8 * (bits // 8))) | rng.getrandbits(8 * (bits // 8) or 1)   # top bit set: sign padding
    elif mode == 3:
        v = (0x7F << (8 * (bits // 8))) | rng.getrandbits(8 * (bits // 8) or 1)
    else:
        v = rng.getrandbits(bits)
    if rng.random() < 0.04:
        v = -v
    return v


def gen_bytes(rng, lens):
    n = rng.choice(lens)
    return bytes(rng.choice([0, 0xFF, 0x80, 0x41]) if rng.random() < 0.15 else rng.randrange(256) for _ in range(n))


def gen_n(rng, hl, malformed=False):
    if malformed:
        return rng.choice([0, 0, -1, -2, -hl, -hl - 1, -3 * hl])
    mode = rng.randrange(5)
    if mode == 0:
        return rng.randrange(1, 513)
    if mode == 1:
        k = rng.randrange(1, max(2, min(512 // hl, 40)) + 1)
        return max(1, min(512, k * hl + rng.choice([-1, 0, 1])))
    if mode == 2:
        return rng.choice([1, 2, 8, 12, 16, 20, 24, 32, 48, 64, 128, 256, 511, 512])
    return rng.randrange(1, min(512, 24 * hl) + 1)


def new_transport(cls=None):
    import paramiko
    from _loop import LoopSocket
    return (cls or paramiko.Transport)(LoopSocket())


def impl_compute_key(t, hashf, K, H, sid, letter, n):
    t.K, t.H, t.session_id = K, H, sid
    t.kex_engine = KexStub(hashf) if hashf is not None else KexStubNoHash()
    return t._compute_key(letter, n)


def check_rfc(ctx, t, hname, K, H, sid, letter, n, key="compute-key-not-rfc"):
    hashf = hash_by_name(hname)
    got = impl_compute_key(t, hashf, K, H, sid, letter, n)
    if n >= 0:
        lb = letter if isinstance(letter, bytes) else letter.encode()
        want = rfc_kdf(hashf, K, H, lb, sid, n)
        if got != want:
            ctx.fail(key, "_compute_key differs from the RFC 4253 section 7.2 derivation",
                     case={"hash": hname, "K": K, "H": H, "sid": sid,
                           "letter": lb.decode("latin-1"), "n": n}, expected=want, observed=got)
    return got


# ---------------------------------------------------------------------------------------------
# activation drive

class RecPacketizer:
    def __init__(self):
        self.calls = []

    def send_message(self, m):
        self.calls.append(("send", bytes(m.asbytes())[:1]))

    def set_inbound_cipher(self, *a, **kw):
        self.calls.append(("in", a, kw))

    def set_outbound_cipher(self, *a, **kw):
        self.calls.append(("out", a, kw))

    def need_rekey(self):
        return False

    def reset_seqno_in(self):
        pass

    def reset_seqno_out(self):
        pass

    def set_inbound_compressor(self, c):
        pass

    def set_outbound_compressor(self, c):
        pass


_REC = {}


def rec_transport_class():
    """Transport subclass that records (never alters) what _compute_key is asked for / returns and what
    _get_engine receives; the real methods run underneath."""
    if "cls" in _REC:
        return _REC["cls"]
    import paramiko

    class RecTransport(paramiko.Transport):
        def _compute_key(self, id, nbytes):
            out = super()._compute_key(id, nbytes)
            self.__dict__.setdefault("_c04_trace", []).append(
                (id, nbytes, out, self.K, self.H, self.session_id, getattr(self.kex_engine, "hash_algo", None)))
            return out

        def _get_engine(self, name, key, iv=None, operation=None, aead=False):
            self.__dict__.setdefault("_c04_engines", []).append(
                {"name": name, "key": key, "iv": iv, "op": "enc" if operation is self._ENCRYPT else "dec",
                 "aead": aead})
            return super()._get_engine(name, key, iv, operation, aead)

    _REC["cls"] = RecTransport
    return RecTransport


def activate(server, outbound, lc, rc, lm, rm, hashf, K, H, sid):
    """Run the real _activate_* once; returns dict purpose -> (letter, n, bytes), plus installed values."""
    t = new_transport(rec_transport_class())
    try:
        t.packetizer = RecPacketizer()
        t.server_mode = server
        t.local_cipher, t.remote_cipher, t.local_mac, t.remote_mac = lc, rc, lm, rm
        t.local_compression = t.remote_compression = "none"
        t.agreed_on_strict_kex = False
        t._remote_ext_info = None      # state after _parse_kex_init (always runs before activation)
        t.K, t.H, t.session_id = K, H, sid
        t.kex_engine = KexStub(hashf)
        t._c04_trace = []
        t._c04_engines = []
        (t._activate_outbound if outbound else t._activate_inbound)()
        trace = list(t._c04_trace)
        eng = t._c04_engines
        sets = [c for c in t.packetizer.calls if c[0] in ("in", "out")]
        if len(eng) != 1 or len(sets) != 1 or sets[0][0] != ("out" if outbound else "in"):
            raise RuntimeError("unexpected activation shape: engines=%d setters=%r" % (len(eng), [s[0] for s in sets]))
        kw = sets[0][2]
        res = {"op": eng[0]["op"], "name": eng[0]["name"], "installed_mac_key": kw.get("mac_key"),
               "installed_iv": kw.get("iv_out" if outbound else "iv_in"), "aead": kw.get("aead")}
        rest = list(trace)

        def take(val):
            for e in rest:
                if e[2] == val:
                    rest.remove(e)
                    return e
            return None
        res["iv"] = take(eng[0]["iv"])
        res["key"] = take(eng[0]["key"])
        mk = kw.get("mac_key")
        res["mac"] = take(mk) if mk is not None else (rest.pop(0) if len(rest) == 1 else None)
        res["extra"] = rest
        return res
    finally:
        try:
            t.sock.close()
        except Exception:
            pass


def canon_req(res):
    out = []
    for p in ("iv", "key", "mac"):
        e = res[p]
        if e is None:
            out += [-7, -7]
        else:
            ident = e[0] if isinstance(e[0], bytes) else e[0].encode()
            out += [ident[0] if len(ident) == 1 else -8, e[1]]
    return out


# What the algorithm NAMES are specified to mean -- hand-written from the RFCs, never read from paramiko's tables.
# MAC: name -> (hashlib name, integrity key length = digest length, tag length on the wire)
#   RFC 4253 6.4 (hmac-sha1 20/20, hmac-sha1-96 20/12, hmac-md5 16/16, hmac-md5-96 16/12), RFC 6668 (hmac-sha2-*),
#   OpenSSH PROTOCOL (-etm@openssh.com: same MAC, encrypt-then-mac)
SPEC_MACS = {
    "hmac-sha1": ("sha1", 20, 20), "hmac-sha1-96": ("sha1", 20, 12),
    "hmac-md5": ("md5", 16, 16), "hmac-md5-96": ("md5", 16, 12),
    "hmac-sha2-256": ("sha256", 32, 32), "hmac-sha2-512": ("sha512", 64, 64),
    "hmac-sha2-256-etm@openssh.com": ("sha256", 32, 32), "hmac-sha2-512-etm@openssh.com": ("sha512", 64, 64),
    "hmac-sha1-etm@openssh.com": ("sha1", 20, 20), "hmac-md5-etm@openssh.com": ("md5", 16, 16),
}
# cipher: name -> (key length, IV length, block size, kind)   RFC 4253 6.3, RFC 4344 4, RFC 5647 / OpenSSH PROTOCOL 1.6
SPEC_CIPHERS = {
    "aes128-ctr": (16, 16, 16, "ctr"), "aes192-ctr": (24, 16, 16, "ctr"), "aes256-ctr": (32, 16, 16, "ctr"),
    "aes128-cbc": (16, 16, 16, "cbc"), "aes192-cbc": (24, 16, 16, "cbc"), "aes256-cbc": (32, 16, 16, "cbc"),
    "3des-cbc": (24, 8, 8, "cbc"),
    "aes128-gcm@openssh.com": (16, 12, 16, "gcm"), "aes256-gcm@openssh.com": (32, 12, 16, "gcm"),
}
_SPEC_MISSING = set()


def spec_sizes(cname, mname):
    """Independent of paramiko's code AND tables: the lengths RFC 4253 7.2 derives for these algorithm names."""
    if cname not in SPEC_CIPHERS or mname not in SPEC_MACS:
        # unknown algorithm: recorded (reported as a disagreement by run) and the live table used as a stand-in
        _SPEC_MISSING.add(cname if cname not in SPEC_CIPHERS else mname)
        import paramiko
        ci = paramiko.Transport._cipher_info[cname]
        mi = paramiko.Transport._mac_info[mname]
        return {"iv": ci["iv-size"] if "iv-size" in ci else ci["block-size"], "key": ci["key-size"],
                "mac": mi["class"]().digest_size}
    return {"iv": SPEC_CIPHERS[cname][1], "key": SPEC_CIPHERS[cname][0], "mac": SPEC_MACS[mname][1]}


def check_activation(ctx, server, outbound, cname, mname, hname, K, H, sid, res):
    hashf = hash_by_name(hname)
    case = {"server_mode": server, "direction": "out" if outbound else "in", "cipher": cname, "mac": mname,
            "hash": hname, "K": K, "H": H, "sid": sid}
    if res["extra"] or any(res[p] is None for p in ("iv", "key", "mac")):
        ctx.fail("activate-shape", "activation derives keys that are not installed as IV / key / MAC key",
                 case=case, observed=repr({p: (res[p] and res[p][:2]) for p in ("iv", "key", "mac")}))
        return None
    sizes = spec_sizes(cname, mname)
    vals = {}
    for p in ("iv", "key", "mac"):
        ident, n, val = res[p][:3]
        ident = ident.decode() if isinstance(ident, bytes) else ident
        want_letter = rfc_letter(server, outbound, p)
        if ident != want_letter:
            ctx.fail("activate-letter-%s-%s-%s" % ("server" if server else "client", case["direction"], p),
                     "key letter is not the RFC 4253 section 7.2 letter for this role / direction / purpose",
                     case=case, expected=want_letter, observed=ident)
        if n != sizes[p]:
            ctx.fail("activate-size-%s" % p, "requested key length is not the cipher / MAC's %s size" % p,
                     case=case, expected=sizes[p], observed=n)
        want = rfc_kdf(hashf, K, H, want_letter.encode(), sid, sizes[p])
        if val != want:
            ctx.fail("installed-key-not-rfc-%s" % p, "installed %s differs from the RFC 4253 derivation" % p,
                     case=case, expected=want, observed=val)
        vals[p] = val
    if res["op"] != ("enc" if outbound else "dec"):
        ctx.fail("activate-operation", "engine built for the wrong operation", case=case, observed=res["op"])
    if res["aead"]:
        if res["installed_iv"] != vals["iv"]:
            ctx.fail("activate-aead-iv", "AEAD IV installed in the packetizer is not the derived IV", case=case,
                     expected=vals["iv"], observed=res["installed_iv"])
    return vals


# ---------------------------------------------------------------------------------------------
# real handshake

def spec_kex_hash(kex):
    """The hash a kex method is DEFINED to use (RFC 4253 8, RFC 4419, RFC 5656 6.2.1, RFC 8268, RFC 8731,
    RFC 4462) -- from the method name, never from the paramiko class."""
    if kex.startswith("gss-"):
        return hashlib.sha1 if "-sha1-" in kex else None
    if kex.startswith("ecdh-sha2-nistp"):
        return {"256": hashlib.sha256, "384": hashlib.sha384, "521": hashlib.sha512}.get(kex[len("ecdh-sha2-nistp"):])
    base = kex.split("@")[0]
    for suf, h in (("-sha1", hashlib.sha1), ("-sha256", hashlib.sha256), ("-sha384", hashlib.sha384),
                   ("-sha512", hashlib.sha512)):
        if base.endswith(suf):
            return h
    return None


def _stub_modulus_pack():
    """A modulus pack holding the RFC 3526 group-14 safe prime, so that group-exchange can be negotiated."""
    if "pack" not in _REC:
        from paramiko.primes import ModulusPack
        from paramiko.kex_group14 import KexGroup14
        mp = ModulusPack()
        mp.pack = {2048: [(KexGroup14.G, KexGroup14.P)]}
        _REC["pack"] = mp
    return _REC["pack"]


def tap_socket_class():
    if "tap" in _REC:
        return _REC["tap"]
    from _loop import LoopSocket

    class TapSocket(LoopSocket):
        """LoopSocket that also records every byte sent (the wire of one direction)."""

        def __init__(self):
            LoopSocket.__init__(self)
            self.wire = bytearray()

        def send(self, data):
            n = LoopSocket.send(self, data)
            self.wire += bytes(data[:n])
            return n

    _REC["tap"] = TapSocket
    return TapSocket


def rec_real_packetizer_class():
    """The real Packetizer, additionally remembering what set_*_cipher was handed (calls the real methods)."""
    if "pk" in _REC:
        return _REC["pk"]
    from paramiko.packet import Packetizer

    class RecRealPacketizer(Packetizer):
        def set_outbound_cipher(self, *a, **kw):
            self.__dict__.setdefault("_c04_sets", []).append(("out", dict(kw), len(a)))
            return Packetizer.set_outbound_cipher(self, *a, **kw)

        def set_inbound_cipher(self, *a, **kw):
            self.__dict__.setdefault("_c04_sets", []).append(("in", dict(kw), len(a)))
            return Packetizer.set_inbound_cipher(self, *a, **kw)

    _REC["pk"] = RecRealPacketizer
    return RecRealPacketizer


def handshake(kex, cipher, mac, rekey=True):
    """Loopback handshake (+ traffic, re-key, traffic) between two recording transports over tapped sockets;
    returns per-side observations including the raw bytes each side put on the wire."""
    import threading
    import time
    import paramiko
    base = rec_transport_class()
    gex = "group-exchange" in kex

    class HsTransport(base):
        # class attribute of the harness subclass (Transport._modulus_pack itself stays untouched)
        _modulus_pack = _stub_modulus_pack() if gex else base._modulus_pack

    Tap = tap_socket_class()
    a, b = Tap(), Tap()
    a.link(b)
    pk = rec_real_packetizer_class()
    tc, ts = HsTransport(a, packetizer_class=pk), HsTransport(b, packetizer_class=pk)
    try:
        for t in (tc, ts):
            so = t.get_security_options()
            so.kex = [kex]
            so.ciphers = [cipher]
            so.digests = [mac]
        ts.add_server_key(_hostkey())
        ts.start_server(event=threading.Event(), server=paramiko.ServerInterface())
        tc.start_client(timeout=20)

        def wait_rounds(n):
            t0 = time.time()
            while time.time() - t0 < 15:
                if len(ts.__dict__.get("_c04_trace", [])) >= 6 * n and len(tc.__dict__.get("_c04_trace", [])) >= 6 * n \
                        and not tc.in_kex and not ts.in_kex:
                    return True
                time.sleep(0.003)
            return False
        rounds = 1
        ok = wait_rounds(1)
        if ok and rekey:
            # traffic in the first epoch (both directions), re-key, traffic in the second epoch
            for _ in range(3):
                tc.send_ignore(17)
                ts.send_ignore(5)
            tc.renegotiate_keys()
            ok = wait_rounds(2)
            rounds = 2
            for _ in range(2):
                tc.send_ignore(9)
                ts.send_ignore(33)
            time.sleep(0.02)
        out = {"ok": ok, "rounds": rounds}
        for nm, t, sock in (("client", tc, a), ("server", ts, b)):
            out[nm] = {"trace": list(t.__dict__.get("_c04_trace", [])),
                       "engines": list(t.__dict__.get("_c04_engines", [])),
                       "strict": bool(t.agreed_on_strict_kex), "wire": bytes(sock.wire),
                       "sets": [(d, {k: (v().name if k == "mac_engine" and v is not None else v)
                                     for k, v in kw.items() if k in ("mac_engine", "mac_size", "mac_key", "aead",
                                                                     "iv_in", "iv_out", "block_size", "etm")}, na)
                                for d, kw, na in t.packetizer.__dict__.get("_c04_sets", [])]}
        return out
    finally:
        tc.close()
        ts.close()


def _hostkey():
    if "hk" not in _REC:
        import paramiko
        _REC["hk"] = paramiko.ECDSAKey.generate()
    return _REC["hk"]


def decode_wire(wire, cipher, mac, epochs, strict):
    """Independent decoder of one direction's byte stream: banner, plaintext packets up to the first NEWKEYS,
    then each key epoch decrypted / authenticated with the given (iv, key, mac_key) -- i.e. with what RFC 4253
    7.2 says is in effect -- using the `cryptography` primitives directly.  Returns (packets decoded per epoch,
    error or None)."""
    import hmac as hmaclib
    import paramiko
    from cryptography.hazmat.primitives.ciphers import Cipher, algorithms, modes
    from cryptography.hazmat.primitives.ciphers.aead import AESGCM
    if cipher in SPEC_CIPHERS and mac in SPEC_MACS:
        aead = SPEC_CIPHERS[cipher][3] == "gcm"
        bs = SPEC_CIPHERS[cipher][2]
        mac_hash, _, mac_tag = SPEC_MACS[mac]
    else:
        ci = paramiko.Transport._cipher_info[cipher]
        mi = paramiko.Transport._mac_info[mac]
        aead, bs = bool(ci.get("is_aead")), ci["block-size"]
        mac_hash, mac_tag = mi["class"]().name, mi["size"]
    etm = (not aead) and mac.endswith("-etm@openssh.com")
    nl = wire.find(b"\n")
    if nl < 0:
        return [], "no banner"
    pos = nl + 1
    seq = 0
    epoch = -1
    counts = [0] * (len(epochs) + 1)
    dec = None
    gcm = None
    nonce = None

    def start(e):
        iv, key, _ = epochs[e]
        if aead:
            return None, AESGCM(key), iv
        if cipher.startswith("3des"):
            try:
                from cryptography.hazmat.decrepit.ciphers.algorithms import TripleDES
            except ImportError:
                TripleDES = algorithms.TripleDES
            alg = TripleDES(key)
        else:
            alg = algorithms.AES(key)
        mode = modes.CTR(iv) if cipher.endswith("-ctr") else modes.CBC(iv)
        return Cipher(alg, mode).decryptor(), None, None

    while pos < len(wire):
        where = "epoch %d packet %d" % (epoch + 1, counts[epoch + 1])
        if epoch < 0:
            if pos + 4 > len(wire):
                break
            ln = int.from_bytes(wire[pos:pos + 4], "big")
            body = wire[pos + 4:pos + 4 + ln]
            if len(body) < ln:
                break
            pos += 4 + ln
            plain = body
        elif aead:
            if pos + 4 > len(wire):
                break
            ln = int.from_bytes(wire[pos:pos + 4], "big")
            if ln > 40000 or pos + 4 + ln + 16 > len(wire):
                return counts, where + ": truncated / implausible length"
            try:
                plain = gcm.decrypt(nonce, bytes(wire[pos + 4:pos + 4 + ln + 16]), bytes(wire[pos:pos + 4]))
            except Exception:   # noqa  (InvalidTag)
                return counts, where + ": AES-GCM authentication fails with the RFC 4253 key / IV (+ packet counter)"
            nonce = nonce[:4] + ((int.from_bytes(nonce[4:], "big") + 1) % 2 ** 64).to_bytes(8, "big")
            pos += 4 + ln + 16
        else:
            mkey = epochs[epoch][2]
            msz = mac_tag
            hname = mac_hash
            if etm:
                ln = int.from_bytes(wire[pos:pos + 4], "big")
                if ln > 40000 or pos + 4 + ln + msz > len(wire):
                    return counts, where + ": truncated / implausible length"
                ct = bytes(wire[pos + 4:pos + 4 + ln])
                tag = wire[pos + 4 + ln:pos + 4 + ln + msz]
                want = hmaclib.new(mkey, seq.to_bytes(4, "big") + bytes(wire[pos:pos + 4]) + ct, hname).digest()[:msz]
                if bytes(tag) != want:
                    return counts, where + ": MAC does not verify with the algorithm the MAC name specifies under the RFC 4253 integrity key"
                plain = dec.update(ct)
                pos += 4 + ln + msz
            else:
                if pos + bs > len(wire):
                    break
                first = dec.update(bytes(wire[pos:pos + bs]))
                ln = int.from_bytes(first[:4], "big")
                if ln > 40000 or (ln + 4) % bs != 0 or pos + 4 + ln + msz > len(wire):
                    return counts, where + ": packet length decrypts to nonsense under the RFC 4253 key / IV"
                rest = dec.update(bytes(wire[pos + bs:pos + 4 + ln]))
                pkt = first + rest
                tag = wire[pos + 4 + ln:pos + 4 + ln + msz]
                want = hmaclib.new(mkey, seq.to_bytes(4, "big") + pkt, hname).digest()[:msz]
                if bytes(tag) != want:
                    return counts, where + ": MAC does not verify with the algorithm the MAC name specifies under the RFC 4253 integrity key"
                plain = pkt[4:]
                pos += 4 + ln + msz
        counts[epoch + 1] += 1
        seq = (seq + 1) & 0xFFFFFFFF
        if len(plain) >= 2 and plain[1] == 21:           # NEWKEYS: the sender switches right after it
            epoch += 1
            if epoch >= len(epochs):
                return counts, "more NEWKEYS than key derivations"
            dec, gcm, nonce = start(epoch)
            if strict:
                seq = 0
    return counts, None


def check_handshake(ctx, kex, cipher, mac, rekey=True):
    st, obs = with_watchdog(lambda: handshake(kex, cipher, mac, rekey), 60)
    case = {"kex": kex, "cipher": cipher, "mac": mac, "rekey": rekey}
    if st != "ok" or not obs.get("ok"):
        st, obs = with_watchdog(lambda: handshake(kex, cipher, mac, rekey), 60)   # retry once
    if st != "ok" or not obs.get("ok"):
        ctx.notes.append("handshake %r did not complete (%s %r); skipped" % (case, st, obs if st != "ok" else "timeout"))
        return False
    c, s = obs["client"], obs["server"]
    rounds = obs["rounds"]
    sizes = spec_sizes(cipher, mac)
    hashf = spec_kex_hash(kex)
    if hashf is None:
        ctx.notes.append("no specified hash known for kex %s; skipped" % kex)
        return False
    if len(c["trace"]) != 6 * rounds or len(s["trace"]) != 6 * rounds:
        ctx.fail("handshake-letters", "a key exchange does not derive exactly the six keys A-F", case=case,
                 observed=[[e[:2] for e in c["trace"]], [e[:2] for e in s["trace"]]])
        return True
    per_round = {"client": [], "server": []}
    for r in range(rounds):
        ctr, strc = c["trace"][6 * r:6 * r + 6], s["trace"][6 * r:6 * r + 6]
        secrets = {(e[3], e[4], e[5]) for e in ctr + strc}
        if len(secrets) != 1 or ctr[0][3] is None:
            ctx.notes.append("handshake %r round %d: K/H/session id differ between the peers or within a round "
                             "(not C04's subject)" % (case, r))
            return False
        K, H, sid = ctr[0][3], ctr[0][4], ctr[0][5]
        if r > 0 and sid != c["trace"][0][5]:
            ctx.fail("session-id-changed", "the session id changed on a re-key", case=case)
        for nm, tr6 in (("client", ctr), ("server", strc)):
            tr = {(e[0] if isinstance(e[0], str) else e[0].decode()): e for e in tr6}
            if sorted(tr) != list(LETTERS):
                ctx.fail("handshake-letters", "a key exchange does not derive exactly the six keys A-F", case=case,
                         observed=[e[:2] for e in tr6])
                return True
            for letter, purpose in zip(LETTERS, ("iv", "iv", "key", "key", "mac", "mac")):
                want = rfc_kdf(hashf, K, H, letter.encode(), sid, sizes[purpose])
                if tr[letter][2] != want:
                    ctx.fail("handshake-key-not-rfc",
                             "key derived during a real key exchange differs from RFC 4253 7.2 with the hash the kex "
                             "method specifies",
                             case=dict(case, side=nm, round=r, letter=letter, hash=hashf().name, K=K, H=H, sid=sid),
                             expected=want, observed=tr[letter][2])
            per_round[nm].append(tr)
    for nm, o, server in (("client", c, False), ("server", s, True)):
        if len(o["engines"]) != 2 * rounds:
            ctx.fail("handshake-engines", "a side did not install both directions in every round", case=case)
            return True
        seen = {"enc": 0, "dec": 0}
        for e in o["engines"]:
            outb = e["op"] == "enc"
            r = seen[e["op"]]
            seen[e["op"]] += 1
            tr = per_round[nm][min(r, rounds - 1)]
            if e["key"] != tr[rfc_letter(server, outb, "key")][2] or e["iv"] != tr[rfc_letter(server, outb, "iv")][2]:
                ctx.fail("handshake-installed", "cipher engine keyed with a key other than the RFC one for its "
                         "direction / round", case=dict(case, side=nm, op=e["op"], round=r))
    # what the real Packetizer was handed, per round and direction, against the RFC tables by algorithm NAME
    if cipher in SPEC_CIPHERS and mac in SPEC_MACS:
        aead = SPEC_CIPHERS[cipher][3] == "gcm"
        for nm, o, server in (("client", c, False), ("server", s, True)):
            seen = {"in": 0, "out": 0}
            for d, kw, nargs in o["sets"]:
                r = min(seen[d], rounds - 1)
                seen[d] += 1
                outb = d == "out"
                tr = per_round[nm][r]
                K, H, sid = tr["A"][3], tr["A"][4], tr["A"][5]
                pc = dict(case, side=nm, direction=d, round=r, K=K, H=H, sid=sid)
                if nargs:
                    ctx.notes.append("set_%sbound_cipher called positionally; packetizer hand-over not checked" % d)
                    continue
                if aead:
                    want_iv = rfc_kdf(hashf, K, H, rfc_letter(server, outb, "iv").encode(), sid, SPEC_CIPHERS[cipher][1])
                    got_iv = kw.get("iv_out" if outb else "iv_in")
                    if got_iv != want_iv or kw.get("mac_key") is not None:
                        ctx.fail("packetizer-aead-iv", "AEAD IV handed to the Packetizer is not the RFC 4253 7.2 IV",
                                 case=pc, expected=want_iv, observed=got_iv)
                    continue
                mh, mk, mt = SPEC_MACS[mac]
                want_key = rfc_kdf(hashf, K, H, rfc_letter(server, outb, "mac").encode(), sid, mk)
                if kw.get("mac_key") != want_key:
                    ctx.fail("packetizer-mac-key-%s" % mac,
                             "integrity key handed to the Packetizer is not the RFC 4253 7.2 key of the length the MAC "
                             "name specifies (%s: %d bytes)" % (mac, mk), case=pc, expected=want_key,
                             observed=kw.get("mac_key"))
                if kw.get("mac_engine") != mh or kw.get("mac_size") != mt:
                    ctx.fail("packetizer-mac-alg-%s" % mac,
                             "Packetizer is handed a hash / tag length other than the MAC name specifies (%s: %s, %d)"
                             % (mac, mh, mt), case=pc, expected=[mh, mt],
                             observed=[kw.get("mac_engine"), kw.get("mac_size")])
                if kw.get("block_size") != SPEC_CIPHERS[cipher][2]:
                    ctx.fail("packetizer-block-size", "Packetizer is handed a block size other than the cipher's",
                             case=pc, expected=SPEC_CIPHERS[cipher][2], observed=kw.get("block_size"))
            if seen["in"] != rounds or seen["out"] != rounds:
                ctx.fail("handshake-engines", "a side did not install both directions in every round", case=case,
                         observed=seen)
    # client-out == server-in and vice versa per round (the values both sides derived), directions distinct
    for r in range(rounds):
        ct, stt = per_round["client"][r], per_round["server"][r]
        for letter in LETTERS:
            if ct[letter][2] != stt[letter][2]:
                ctx.fail("peer-mismatch", "the peers derive different keys for letter %s" % letter,
                         case=dict(case, round=r), expected=ct[letter][2], observed=stt[letter][2])
        if ct["A"][2] == ct["B"][2] or ct["C"][2] == ct["D"][2] or ct["E"][2] == ct["F"][2]:
            ctx.fail("directions-share-key", "the two directions share a key or IV after a real key exchange",
                     case=dict(case, round=r))
    # what is actually in effect on the wire in every epoch: decode both directions with the RFC values
    for nm, o, letters in (("client", c, "ACE"), ("server", s, "BDF")):
        hs = [rfc_kdf(hashf, per_round[nm][r]["A"][3], per_round[nm][r]["A"][4], L.encode(), per_round[nm][r]["A"][5],
                      sizes[p]) for r in range(rounds) for L, p in zip(letters, ("iv", "key", "mac"))]
        epochs = [tuple(hs[3 * r:3 * r + 3]) for r in range(rounds)]
        try:
            counts, err = decode_wire(o["wire"], cipher, mac, epochs, o["strict"])
        except Exception as e:   # noqa
            counts, err = [], "decoder raised %r" % (e,)
        if err is None and (len(counts) < rounds + 1 or any(n < 1 for n in counts[1:rounds + 1])):
            err = "no packet seen in some key epoch: %r" % (counts,)
        if err is not None:
            ctx.fail("wire-keys-not-rfc",
                     "packets on the wire do not decrypt / authenticate with the RFC 4253 7.2 IV, key and integrity "
                     "key of their epoch",
                     case=dict(case, sender=nm, K=[per_round[nm][r]["A"][3] for r in range(rounds)],
                               H=[per_round[nm][r]["A"][4] for r in range(rounds)], sid=per_round[nm][0]["A"][5],
                               wire=o["wire"][:6000]),
                     expected="every packet of every epoch decodes", observed="%s (decoded per epoch: %r)" % (err, counts))
    return True


# ---------------------------------------------------------------------------------------------

def safe_mismatches(ctx, run_fn, case_type, cases, **kw):
    """The model run must never stop the implementation-level oracle (e.g. after a fail-closed translator
    abort the model may not even compile): failures become a correspondence disagreement."""
    try:
        return ctx.model_mismatches(run_fn, case_type, cases, **kw)
    except Exception as e:   # noqa
        ctx.disagree("model run %s could not be evaluated" % run_fn, model=repr(e)[-600:])
        return []


def run(ctx):
    import paramiko
    rng = ctx.rng
    scale = 4 if ctx.thorough else 1
    ctx.rule = ("seeded generator (random.Random('C04-<seed>')): K across sign/byte boundaries up to 4096 bits "
                "(a few zero / negative), H and session id of 0..64 bytes (equal and different), letters A-F (plus "
                "a few other one-byte ids), n in 1..512 biased to multiples of the digest length +-1 (plus a "
                "malformed stream n <= 0); toy hashes of 1..64 output bytes for the model run, hashlib "
                "sha1/256/384/512 for the RFC oracle; every cipher x MAC x role x direction for the activation; a "
                "case is non-trivial when distinct and n >= 1")
    ctx.trusted += ["model coq/Model/C04.v (loop of _compute_key) is hand-written; tied to transport.py by the "
                    "vm_compute differential run with a toy hash handed to the unmodified Transport through "
                    "kex_engine.hash_algo",
                    "gen/c04.py (AST walk of _activate_inbound/_activate_outbound, fail-closed) and the live "
                    "_cipher_info/_mac_info tables",
                    "recording Transport subclass (wraps _compute_key/_get_engine, calls the real ones) and a "
                    "recording packetizer stub"]
    ctx.assumptions += ["hash: any function with fixed output length hl > 0 (Section variable); collision freedom "
                        "only as explicit premise / conclusion of C04_dir_distinct*",
                        "both peers negotiated the same cipher / MAC for a direction (C05) and hold the same K, H, "
                        "session id (C06/C08)"]
    try:
        ctx.prove()
    except Exception as e:   # noqa  -- keep the oracle running whatever happens to the build
        ctx.disagree("proof build raised", model=repr(e)[-600:])
    import time as _time
    _t0 = [_time.time()]

    def lap(what):
        ctx.log("%s: %.1fs" % (what, _time.time() - _t0[0]))
        _t0[0] = _time.time()

    t = new_transport()
    names_c = list(paramiko.Transport._cipher_info)
    names_m = list(paramiko.Transport._mac_info)
    try:
        # ---- 1. _compute_key vs model (toy hash) + RFC oracle on the same cases ----------------
        cases = []
        for j in range(300 * scale):
            hl = rng.choice([1, 2, 3, 4, 5, 7, 8, 11, 16, 20, 32, 48, 64])
            malformed = rng.random() < 0.06
            K = gen_K(rng)
            H = gen_bytes(rng, [0, 1, 16, 20, 32, 32, 48, 64, rng.randrange(0, 65)])
            sid = H if rng.random() < 0.4 else gen_bytes(rng, [0, 1, 20, 32, 64, rng.randrange(0, 65)])
            if rng.random() < 0.9:
                X = ord(rng.choice(LETTERS))
            else:
                X = rng.choice([0, 64, 71, 97, 127, 128, 255, rng.randrange(256)])
            letter = chr(X) if X < 128 else bytes([X])
            n = gen_n(rng, hl, malformed)
            if n > 48 * hl and rng.random() < 0.9:      # keep most model runs below ~50 turns of the loop
                n = rng.randrange(1, 48 * hl + 1)
            got = check_rfc(ctx, t, "toy%d" % hl, K, H, sid, letter, n)
            cases.append(((hl, K, list(H), list(sid), X, n), [0] + list(got)))
            ctx.count(("ck", hl, K, H, sid, X, n), nontrivial=n >= 1,
                      kind="compute_key-toy-malformed" if malformed else
                      ("compute_key-toy-multi-block" if n > hl else "compute_key-toy-one-block"))
        lap("compute_key cases on the implementation")
        bad = safe_mismatches(ctx, "run_compute_key", "(Z * Z * list Z * list Z * Z * Z)",
                                   [(coq(c), e) for c, e in cases], shard=40)
        for i in bad[:3]:
            c = cases[i][0]
            ctx.disagree("_compute_key differs from the model", impl=cases[i][1][1:],
                         case={"hl": c[0], "K": c[1], "H": bytes(c[2]), "sid": bytes(c[3]), "X": c[4], "n": c[5]})
        ctx.sample({"compute_key": {"hl": cases[0][0][0], "K": cases[0][0][1], "H": bytes(cases[0][0][2]),
                                    "sid": bytes(cases[0][0][3]), "X": cases[0][0][4], "n": cases[0][0][5],
                                    "impl": bytes(cases[0][1][1:])}})

        lap("model run")
        # ---- 2. RFC oracle over the real kex hashes ----------------------------------------------
        for j in range(600 * scale):
            hname = rng.choice(HASHES)
            hl = hash_by_name(hname)().digest_size
            K = gen_K(rng)
            H = gen_bytes(rng, [hl, hl, hl, 20, 32, 64, rng.randrange(0, 65)])
            sid = H if rng.random() < 0.5 else gen_bytes(rng, [hl, 20, 32, 64, rng.randrange(0, 65)])
            letter = rng.choice(LETTERS)
            n = gen_n(rng, hl)
            check_rfc(ctx, t, hname, K, H, sid, letter, n)
            ctx.count(("rfc", hname, K, H, sid, letter, n), kind="rfc-oracle-" + hname)
        # every length 1..512 once per hash
        for hname in HASHES:
            K = gen_K(rng)
            H = gen_bytes(rng, [32])
            for n in range(1, 513):
                check_rfc(ctx, t, hname, K, H, H, LETTERS[n % 6], n)
                ctx.count(("rfc-all-n", hname, n), kind="rfc-oracle-every-n")
        # kex engine without hash_algo: documented fallback to sha1
        K, H = gen_K(rng), gen_bytes(rng, [20])
        got = impl_compute_key(t, None, K, H, H, "C", 40)
        ctx.count(("fallback",), kind="rfc-oracle-sha1-fallback")
        if got != rfc_kdf(hashlib.sha1, K, H, b"C", H, 40):
            ctx.fail("fallback-not-sha1", "kex engine without hash_algo does not fall back to sha1",
                     case={"K": K, "H": H}, observed=got)
        # ---- 2b. hash selection per kex class of Transport._kex_info (real class as kex_engine) --------
        cand = {getattr(hashlib, h)().digest_size: getattr(hashlib, h)
                for h in ("md5", "sha1", "sha224", "sha256", "sha384", "sha512")}
        kcases = []
        for i, (kname, cls) in enumerate(paramiko.Transport._kex_info.items()):
            K, H = gen_K(rng), gen_bytes(rng, [20, 32, 64])
            letter, n = rng.choice(LETTERS), rng.choice([100, 129, 200])
            t.K, t.H, t.session_id = K, H, H
            t.kex_engine = cls.__new__(cls)          # the real class, uninitialised: only hash_algo is read
            got = t._compute_key(letter, n)
            specified = spec_kex_hash(kname)         # from the method's name (the RFCs), not from the class
            ctx.count(("kexhash", kname), kind="kex-class-hash")
            if specified is None:
                ctx.disagree("no specified hash known for kex method %s: extend spec_kex_hash / spec_kex_hashes"
                             % kname)
                specified = getattr(cls, "hash_algo", None) or hashlib.sha1
            want = rfc_kdf(specified, K, H, letter.encode(), H, n)
            if got != want:
                ctx.fail("kex-hash-selection",
                         "_compute_key, with the real kex class as kex_engine, does not derive keys with the hash the "
                         "kex method specifies (class without hash_algo silently falls back to sha1?)",
                         case={"kex": kname, "K": K, "H": H, "letter": letter, "n": n}, expected=want, observed=got)
            seen = [d for d, hf in cand.items() if rfc_kdf(hf, K, H, letter.encode(), H, n) == got]
            kcases.append((i, [seen[0] if len(seen) == 1 else -1]))
    finally:
        t.sock.close()

    lap("RFC oracle over hashlib")
    # ---- 3. activation: every cipher x MAC x role x direction ------------------------------------
    sel_obs = {}
    for outbound in (False, True):
        # distinct local / remote algorithms whose sizes all differ: which one does the direction look up?
        lc, rc, lm, rm = "aes128-gcm@openssh.com", "aes256-cbc", "hmac-sha1", "hmac-sha2-512"
        K, H = gen_K(rng), gen_bytes(rng, [32])
        res = activate(False, outbound, lc, rc, lm, rm, hashlib.sha256, K, H, H)
        req = canon_req(res)
        ls, rs = spec_sizes(lc, lm), spec_sizes(rc, rm)
        if [req[1], req[3]] == [ls["iv"], ls["key"]]:
            csel = 0
        elif [req[1], req[3]] == [rs["iv"], rs["key"]]:
            csel = 1
        else:
            csel = -1
        msel = 0 if req[5] == ls["mac"] else (1 if req[5] == rs["mac"] else -1)
        sel_obs[outbound] = [csel, msel]
        ctx.count(("sel", outbound), kind="activation-selector")
        if [csel, msel] != ([0, 0] if outbound else [1, 1]):
            ctx.fail("activate-selector-%s" % ("out" if outbound else "in"),
                     "direction sizes its keys from the wrong side's negotiated cipher / MAC",
                     case={"direction": "out" if outbound else "in", "local": [lc, lm], "remote": [rc, rm]},
                     expected=[0, 0] if outbound else [1, 1], observed=[csel, msel])
    cases = []
    for ci, cname in enumerate(names_c):
        for mi, mname in enumerate(names_m):
            hname = rng.choice(HASHES)
            hl = hash_by_name(hname)().digest_size
            K = gen_K(rng)
            H = gen_bytes(rng, [hl])
            sid = H if rng.random() < 0.5 else gen_bytes(rng, [hl])
            vals = {}
            for server in (False, True):
                for outbound in (False, True):
                    case = {"server_mode": server, "direction": "out" if outbound else "in", "cipher": cname,
                            "mac": mname, "hash": hname, "K": K, "H": H, "sid": sid}
                    try:
                        res = activate(server, outbound, cname, cname, mname, mname, hash_by_name(hname), K, H, sid)
                    except Exception as e:   # noqa
                        ctx.fail("activate-raises", "activation raises for a supported cipher / MAC pair",
                                 case=case, observed=repr(e))
                        continue
                    cases.append(((server, outbound, ci, mi), canon_req(res) + sel_obs[outbound]))
                    ctx.count(("act", server, outbound, cname, mname), kind="activation")
                    vals[(server, outbound)] = check_activation(ctx, server, outbound, cname, mname, hname, K, H,
                                                                sid, res)
            case = {"cipher": cname, "mac": mname, "hash": hname, "K": K, "H": H, "sid": sid}
            if all(vals.get(k) for k in ((False, True), (True, False), (False, False), (True, True))):
                for (a, b, what) in (((False, True), (True, False), "client-out != server-in"),
                                     ((True, True), (False, False), "server-out != client-in")):
                    if vals[a] != vals[b]:
                        ctx.fail("peer-mismatch", "keys do not match across the peers: " + what, case=case,
                                 expected=vals[a], observed=vals[b])
                for server in (False, True):
                    i, o = vals[(server, False)], vals[(server, True)]
                    shared = set(i.values()) & set(o.values())
                    if shared:
                        ctx.fail("directions-share-key", "a key is shared between the two directions",
                                 case=dict(case, server_mode=server), observed=sorted(shared)[0])
    lap("activation on the implementation")
    bad = safe_mismatches(ctx, "run_table", "tcase",
                          [(coq(("TReq",) + c), e) for c, e in cases] + [(coq(("TKex", i)), e) for i, e in kcases])
    for i in [b for b in bad if b >= len(cases)][:3]:
        j = i - len(cases)
        ctx.disagree("digest length used for a kex differs from the generated table / fallback",
                     case={"kex": list(paramiko.Transport._kex_info)[kcases[j][0]]}, impl=kcases[j][1])
    for i in [b for b in bad if b < len(cases)][:3]:
        c = cases[i][0]
        ctx.disagree("letters / sizes requested by _activate_* differ from the model over the generated table",
                     case={"server_mode": c[0], "outbound": c[1], "cipher": names_c[c[2]], "mac": names_m[c[3]]},
                     impl=cases[i][1])
    if cases:
        ctx.sample({"activation": {"server_mode": cases[-1][0][0], "outbound": cases[-1][0][1],
                                   "cipher": names_c[cases[-1][0][2]], "mac": names_m[cases[-1][0][3]],
                                   "impl [letter,size]x(iv,key,mac)+selectors": cases[-1][1]}})
    ctx.notes.append("activation enumerated exhaustively: %d ciphers x %d MACs x 2 roles x 2 directions"
                     % (len(names_c), len(names_m)))

    lap("model run")
    # ---- 4. real loopback handshakes ---------------------------------------------------------------
    kexes = ["curve25519-sha256@libssh.org", "ecdh-sha2-nistp256", "ecdh-sha2-nistp384", "ecdh-sha2-nistp521",
             "diffie-hellman-group14-sha1", "diffie-hellman-group14-sha256", "diffie-hellman-group16-sha512"]
    kexes = [k for k in kexes if k in paramiko.Transport._kex_info]
    gexes = [k for k in ("diffie-hellman-group-exchange-sha256", "diffie-hellman-group-exchange-sha1")
             if k in paramiko.Transport._kex_info]
    allkex = kexes + gexes
    nonaead = [c for c in names_c if not paramiko.Transport._cipher_info[c].get("is_aead")]
    aeads = [c for c in names_c if paramiko.Transport._cipher_info[c].get("is_aead")]
    rot = ctx.seed
    plan = []
    if ctx.thorough:
        # every cipher x MAC pair, kex rotating through every method
        j = 0
        for cname in names_c:
            for mname in names_m:
                plan.append((allkex[(j + rot) % len(allkex)], cname, mname))
                j += 1
    else:
        # every MAC table entry (on a non-AEAD cipher, where the MAC is really used), every cipher table entry and
        # every kex method once; which is paired with which rotates with the seed
        for j, mname in enumerate(names_m):
            plan.append((allkex[(j + rot) % len(allkex)], nonaead[(j + rot) % len(nonaead)], mname))
        for j, cname in enumerate(aeads):
            plan.append((allkex[(len(names_m) + j + rot) % len(allkex)], cname, names_m[(j + rot) % len(names_m)]))
        for cname in nonaead:
            if not any(p[1] == cname for p in plan):
                plan.append((allkex[rot % len(allkex)], cname, names_m[rot % len(names_m)]))
        for k in allkex:
            if not any(p[0] == k for p in plan):
                plan.append((k, names_c[rot % len(names_c)], names_m[(rot + 1) % len(names_m)]))
    done = 0
    for kex, cname, mname in plan:
        if check_handshake(ctx, kex, cname, mname):
            done += 1
            ctx.count(("hs", kex, cname, mname), kind="handshake-" + kex)
    lap("handshakes")
    ctx.notes.append("real handshakes completed: %d of %d" % (done, len(plan)))
    for nm in sorted(_SPEC_MISSING):
        ctx.disagree("algorithm %s is in Transport's tables but has no entry in the hand-written RFC tables "
                     "SPEC_MACS / SPEC_CIPHERS (harness) and spec_macs / spec_ciphers (coq/Model/C04.v)" % nm)
    if done < len(plan) // 2:
        ctx.disagree("fewer than half of the loopback handshakes completed", case={"done": done, "planned": len(plan)})


def replay(ctx, rep):
    case = rep["case"] or {}
    key = rep.get("key", "")

    def unhex(v):
        return bytes.fromhex(v["hex"]) if isinstance(v, dict) and "hex" in v else v
    if key in ("compute-key-not-rfc",) and "hash" in case:
        t = new_transport()
        try:
            ctx.count(("replay", repr(case)))
            ctx.count(("replay2", repr(case)))
            check_rfc(ctx, t, case["hash"], case["K"], unhex(case["H"]), unhex(case["sid"]),
                      case["letter"], case["n"], key=key)
        finally:
            t.sock.close()
    elif "kex" in case and "cipher" in case and "mac" in case and "n" not in case:
        ctx.count(("replay", case["kex"], case["cipher"], case["mac"]))
        ctx.count(("replay2", case["kex"], case["cipher"], case["mac"]))
        check_handshake(ctx, case["kex"], case["cipher"], case["mac"], case.get("rekey", True))
    elif "kex" in case and "n" in case:
        import paramiko
        t = new_transport()
        try:
            cls = paramiko.Transport._kex_info[case["kex"]]
            K, H = case["K"], unhex(case["H"])
            t.K, t.H, t.session_id = K, H, H
            t.kex_engine = cls.__new__(cls)
            got = t._compute_key(case["letter"], case["n"])
            ctx.count(("replay", repr(case)))
            ctx.count(("replay2", repr(case)))
            want = rfc_kdf(spec_kex_hash(case["kex"]), K, H, case["letter"].encode(), H, case["n"])
            if got != want:
                ctx.fail(key or "kex-hash-selection", rep.get("what", ""), case=case, expected=want, observed=got)
        finally:
            t.sock.close()
    elif "server_mode" in case and "direction" in case and "cipher" in case and "hash" in case:
        server, outbound = case["server_mode"], case["direction"] == "out"
        K, H, sid = case["K"], unhex(case["H"]), unhex(case["sid"])
        ctx.count(("replay", repr(case)))
        ctx.count(("replay2", repr(case)))
        try:
            res = activate(server, outbound, case["cipher"], case["cipher"], case["mac"], case["mac"],
                           hash_by_name(case["hash"]), K, H, sid)
        except Exception as e:   # noqa
            ctx.fail("activate-raises", "activation raises for a supported cipher / MAC pair", case=case,
                     observed=repr(e))
            return
        check_activation(ctx, server, outbound, case["cipher"], case["mac"], case["hash"], K, H, sid, res)
    else:
        run(ctx)
