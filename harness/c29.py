"""C29 — SFTP bulk transfers are exact or fail loudly.

Proof: coq/Props/C29_props.v over coq/Model/C29.v (upload path) and coq/Model/C30.v (request bookkeeping).
Tie: (1) the real SFTPClient.putfo over a byte-level scripted socket whose server accepts / rejects each
write as scripted (and reports recv_ready() as scripted), with SFTPFile.MAX_REQUEST_SIZE patched small in
the harness process, against run_putfo (vm_compute in Coq); (2) real client against a real in-process
server whose SFTPHandle fails chosen writes / reads with each SFTP error code (or shortens reads) at
every chunk position: put / putfo / get / getfo, confirm / callback / prefetch on and off.
Oracle: a transfer that returns normally has made destination bytes == source bytes.
"""
import io
import os
import struct

from common import coq, with_watchdog
import c30

PID = "C29"
LEVEL_TEXT = ("Machine-checked proof (Coq, closed under the global context) over the model of putfo / "
              "_transfer_with_callback / BufferedFile.write / _write_all / SFTPFile._write / _close: a normal return "
              "implies destination = source whenever the server accepted every write; with confirm=True a normal "
              "return implies the remote size equals the bytes sent; non-pipelined writes raise from the very "
              "write() the server rejected.  The desired unconditional theorems are REFUTED on the code as it is "
              "(witnesses by vm_compute, replayed on the real code every run, registered known finding): rejected "
              "pipelined writes are discarded.  Download path (get/getfo, prefetch) is covered by the implementation-"
              "level oracle only (its buffer logic is C28's): read faults at every chunk position and loss of the "
              "connection at chosen reads, prefetch uncapped / capped / off.  Where a reply-collecting drain of "
              "SFTPFile._write runs (more than 100 requests outstanding and data ready) a rejected write must be raised: "
              "stated as an independent oracle and exercised with > 100 small pipelined writes on a real server.")
LEVEL_NOTE = ("Trusted: Coq kernel + vm_compute; hand-written models coq/Model/C29.v and C30.v validated by the "
              "correspondence runs; the remote file system is a byte list that stores exactly the writes answered "
              "SFTP_OK; get/getfo not modelled here (C27/C28 model the read path); an SFTP_EOF status on a read is "
              "taken as the server's end of file, not as a failure.  Every live case runs on its own freshly "
              "opened, verified-alive session: after a download with prefetching raises, the file's prefetch thread "
              "keeps sending CMD_READ requests, and because SFTPClient._async_request sends outside its lock and "
              "_write_all may need several sock.send calls, those bytes can interleave with the caller's next "
              "request and the server drops the session (\"Garbage packet received\") - not a C29 matter (the "
              "transfer raised), reported to the coordinator.")
TECHNIQUE = "Coq proof (invariants over the upload loop) + refutation witnesses + vm_compute differential correspondence + fault-injection runs"
GENS = ["c30"]
KF = "pipelined-write-status-discarded:_write-registers-NoneType"


# --------------------------------------------------------------------------------------------
# 1. putfo over a scripted socket vs the model


class ChunkReader:
    def __init__(self, chunks):
        self.chunks = list(chunks)

    def read(self, n):
        if not self.chunks:
            return b""
        c = self.chunks.pop(0)
        assert 0 < len(c) <= n
        return c


def apply_write(dest, off, data):
    if len(dest) < off:
        dest.extend(b"\0" * (off - len(dest)))
    dest[off:off + len(data)] = data


def putfo_impl(mrs, chunks, confirm, env, open_rp, close_rp, stat, callback, file_size=0, death=None):
    """Run the real putfo; returns (outcome, dest bytes).  death = (mode, k): the server goes away when the
    k-th request after OPEN arrives (writes, then CLOSE, then STAT) - that request is neither processed nor
    answered; mode "eof": later sends still succeed, reads hit end of stream; "sendfail": sends raise too."""
    from paramiko.sftp_file import SFTPFile
    env = list(env)
    dest = bytearray()
    box = {"n": 0}

    def server(t, payload):
        num = struct.unpack(">I", payload[:4])[0]
        if death is not None and t != 3:
            if box["n"] == death[1]:
                box["sock"].dead = death[0]
                return []
            box["n"] += 1
        if t == 3:
            del dest[:]
            return [c30.reply_packet(open_rp[0], num, open_rp[1])]
        if t == 6:
            n = struct.unpack(">I", payload[4:8])[0]
            off = struct.unpack(">Q", payload[8 + n:16 + n])[0]
            m = struct.unpack(">I", payload[16 + n:20 + n])[0]
            data = payload[20 + n:20 + n + m]
            ready, code = env.pop(0) if env else (False, 0)
            box["sock"].ready = ready
            if code == 0:
                apply_write(dest, off, data)
            return [c30.reply_packet(101, num, code)]
        if t == 4:
            return [c30.reply_packet(close_rp[0], num, close_rp[1])]
        if t == 17:
            if stat is None:
                return [c30.reply_packet(105, num, len(dest))]
            return [c30.reply_packet(stat[0], num, stat[1])]
        return [c30.reply_packet(101, num, 8)]

    c, sock = c30.new_client(server)
    box["sock"] = sock
    old = SFTPFile.MAX_REQUEST_SIZE
    SFTPFile.MAX_REQUEST_SIZE = mrs
    calls = []
    try:
        try:
            c.putfo(ChunkReader(chunks), "/remote", file_size, (lambda a, b: calls.append(a)) if callback else None,
                    confirm)
            out = 0
        except c30.WouldBlock:
            out = 98
        except Exception:  # noqa
            out = 1
    finally:
        SFTPFile.MAX_REQUEST_SIZE = old
    return out, bytes(dest), calls


def gen_putfo_case(rng):
    mrs = rng.choice([1, 2, 3, 4, 5, 8])
    mode = rng.random()
    if mode < 0.15:
        nchunks = rng.randrange(60, 180)           # enough requests to cross the drain threshold
        chunks = [bytes(rng.randrange(256) for _ in range(rng.choice([1, 1, 2]))) for _ in range(nchunks)]
        mrs = 1
    else:
        chunks = [bytes(rng.randrange(256) for _ in range(rng.randrange(1, 13))) for _ in range(rng.randrange(0, 6))]
    nwrites = sum((len(c) + mrs - 1) // mrs for c in chunks)
    fault = rng.random()
    env = []
    ready_from = rng.choice([0, 0, 101, 129, 150, 200, 240]) if nwrites > 60 else 0
    for i in range(nwrites):
        code = 0
        if fault < 0.6 and rng.random() < (0.35 if nwrites < 20 else 0.02):
            code = rng.choice([1, 2, 3, 4, 5, 6, 7, 8, 9])
        env.append((i >= ready_from and rng.random() < 0.6, code))
    if fault > 0.9 and env:
        env = env[:rng.randrange(len(env))]     # exhausted script: the rest is accepted
    open_rp = (102, 0) if rng.random() < 0.9 else rng.choice([(101, 2), (101, 3), (101, 0), (105, 0)])
    close_rp = (101, 0) if rng.random() < 0.8 else rng.choice([(101, 4), (101, 1), (102, 0)])
    stat = None
    if rng.random() < 0.15:
        stat = rng.choice([(101, 2), (101, 3), (105, 0), (105, sum(map(len, chunks)) + 1), (104, 0)])
    total = sum(map(len, chunks))
    # file_size is only a hint for the progress callback: 0 (default), exact, under- and over-estimates
    fs = rng.choice([0, 0, total, total, max(0, total - 1), total // 2, 1, total + 7, len(chunks[0]) if chunks else 3])
    return dict(mrs=mrs, chunks=chunks, confirm=rng.random() < 0.5, env=env, open_rp=open_rp, close_rp=close_rp,
                stat=stat, callback=rng.random() < 0.5, file_size=fs)


DEATH_SEND_KF = "close-swallows-send-failure:_close-ignores-socket-error"


def death_part(ctx, n):
    """putfo to a server that dies at EVERY point of the transfer: at each write, after the last write (when
    CLOSE arrives), and when the confirming STAT arrives; confirm on/off; both ways a dead connection shows."""
    rng = ctx.rng
    for j in range(n):
        mrs = rng.choice([2, 4, 8])
        chunks = [bytes(rng.randrange(1, 256) for _ in range(rng.randrange(1, 13))) for _ in range(rng.randrange(1, 5))]
        nwrites = sum((len(c) + mrs - 1) // mrs for c in chunks)
        src = b"".join(chunks)
        for k in range(nwrites + 2):
            for mode in ("eof", "sendfail"):
                for confirm in (False, True):
                    out, dst, _ = putfo_impl(mrs, chunks, confirm, [], (102, 0), (101, 0), None, False, 0, (mode, k))
                    where = "write %d of %d" % (k, nwrites) if k < nwrites else ("close" if k == nwrites else "stat")
                    case = {"mrs": mrs, "chunks": chunks, "confirm": confirm, "server_dies_at_request": k,
                            "which_is": where, "mode": mode}
                    ctx.count(("death", repr(case)), kind="scripted-putfo:server-dies:" + mode)
                    if out == 98:
                        ctx.fail("putfo-blocks-after-connection-loss", "putfo waits for a packet from a dead server",
                                 case=case)
                    elif out == 0 and dst != src:
                        if mode == "sendfail":
                            # the failing send of CMD_CLOSE itself is swallowed by _close (registered known finding)
                            ctx.fail(DEATH_SEND_KF, "putfo returned normally although the connection died before the "
                                     "last writes were stored", case=case,
                                     observed={"dest_len": len(dst), "src_len": len(src)})
                        else:
                            ctx.fail("upload-returns-after-connection-loss:" + ("confirm" if confirm else "no-confirm"),
                                     "putfo returned normally although the server went away at %s: the remote file "
                                     "has %d of %d bytes and the wait for the close reply saw the connection drop"
                                     % (where, len(dst), len(src)), case=case, expected="raise",
                                     observed={"dest_len": len(dst), "src_len": len(src)})


def coq_putfo_case(k):
    st = [] if k["stat"] is None else list(k["stat"])
    return "((%s, %s), %s, %s, %s, %s)" % (
        coq(k["mrs"]), coq(k["confirm"]), coq([list(c) for c in k["chunks"]]), coq(list(k["env"])),
        coq((k["open_rp"][0], k["open_rp"][1], k["close_rp"][0], k["close_rp"][1])), coq(st))


DRAIN_KEY = "pipelined-drain-misses-rejected-write"


def drain_sees_rejection(env, nwrites, threshold=100):
    """Independent statement of when a rejected pipelined write MUST surface during an upload that makes
    no other request in between: SFTPFile._write collects ALL outstanding replies, oldest first, as soon as
    more than `threshold` requests are outstanding and recv_ready() is true; the first error status among
    them is raised.  env[j] = (recv_ready() answer, status code) of the j-th write."""
    env = list(env)[:nwrites] + [(False, 0)] * max(0, nwrites - len(env))
    outstanding = []
    for ready, code in env:
        outstanding.append(code)
        if len(outstanding) > threshold and ready:
            if any(c != 0 for c in outstanding):
                return True
            outstanding = []
    return False


def judge_put(ctx, what, case, returned, src, dst, rejected, confirm, drained=False):
    """The implementation-level oracle for uploads.  drained: a reply-collecting drain ran while the
    rejected write was still outstanding (then the rejection must have been raised)."""
    if not returned or dst == src:
        return
    if rejected:
        if drained:
            ctx.fail(DRAIN_KEY, what + " returned normally although _write collected the replies (more than 100 "
                     "outstanding, data ready) while a rejected write was outstanding: its error status was lost",
                     case=case, expected="raise at the drain",
                     observed={"dest_len": len(dst), "src_len": len(src), "first_diff": first_diff(src, dst)})
        elif confirm and len(dst) != len(src):
            ctx.fail("putfo-confirm-size-mismatch-not-raised",
                     what + " (confirm=True) returned normally although the remote size differs from the bytes sent",
                     case=case, expected="raise", observed={"dest_len": len(dst), "src_len": len(src)})
        else:
            ctx.fail(KF, what + " returned normally after the server rejected a write; destination != source",
                     case=case, expected="raise or exact copy",
                     observed={"dest_len": len(dst), "src_len": len(src), "first_diff": first_diff(src, dst)})
    else:
        ctx.fail("upload-inexact-without-fault", what + " returned normally with destination != source although "
                 "the server accepted every write", case=case, expected="exact copy",
                 observed={"dest_len": len(dst), "src_len": len(src), "first_diff": first_diff(src, dst)})


def first_diff(a, b):
    for i, (x, y) in enumerate(zip(a, b)):
        if x != y:
            return i
    return min(len(a), len(b))


def scripted_part(ctx, n):
    rng = ctx.rng
    ks = [
        # the two refutation witnesses of Props/C29_props.v (MAX_REQUEST_SIZE as shipped)
        dict(mrs=32768, chunks=[b"\x01"], confirm=False, env=[(False, 3)], open_rp=(102, 0), close_rp=(101, 0),
             stat=None, callback=False),
        dict(mrs=32768, chunks=[b"\x01", b"\x02"], confirm=True, env=[(False, 4), (False, 0)], open_rp=(102, 0),
             close_rp=(101, 0), stat=None, callback=False),
        # more than 100 outstanding one-byte writes, the 6th rejected, data ready: the drain must raise
        dict(mrs=1, chunks=[bytes([k % 251 + 1]) for k in range(130)], confirm=False,
             env=[(True, 3 if k == 5 else 0) for k in range(130)], open_rp=(102, 0), close_rp=(101, 0), stat=None,
             callback=False),
        dict(mrs=1, chunks=[bytes([k % 251 + 1]) for k in range(130)], confirm=True,
             env=[(k >= 110, 4 if k == 60 else 0) for k in range(130)], open_rp=(102, 0), close_rp=(101, 0),
             stat=None, callback=False),
        # a server that answers late: nothing readable until 150 / 260 requests are outstanding
        dict(mrs=1, chunks=[bytes([k % 251 + 1]) for k in range(200)], confirm=False,
             env=[(k >= 150, 3 if k == 3 else 0) for k in range(200)], open_rp=(102, 0), close_rp=(101, 0), stat=None,
             callback=False),
        dict(mrs=1, chunks=[bytes([k % 251 + 1]) for k in range(300)], confirm=True,
             env=[(k >= 260, 4 if k == 20 else 0) for k in range(300)], open_rp=(102, 0), close_rp=(101, 0), stat=None,
             callback=False),
        dict(mrs=8, chunks=[b"abcd", b"efgh", b"ij"], confirm=True, env=[], open_rp=(102, 0), close_rp=(101, 0),
             stat=None, callback=True, file_size=4),
        dict(mrs=8, chunks=[b"abcd", b"efgh", b"ij"], confirm=False, env=[], open_rp=(102, 0), close_rp=(101, 0),
             stat=None, callback=False, file_size=9),
    ] + [gen_putfo_case(rng) for _ in range(n)]
    cases = []
    for j, k in enumerate(ks):
        out, dst, calls = putfo_impl(k["mrs"], k["chunks"], k["confirm"], k["env"], k["open_rp"], k["close_rp"],
                                     k["stat"], k["callback"], k.get("file_size", 0))
        src = b"".join(k["chunks"])
        rejected = any(code != 0 for _, code in k["env"])
        ctx.count(("putfo", repr(k)), nontrivial=len(k["chunks"]) > 0,
                  kind="scripted-putfo:" + ("witness" if j < 8 else "rejecting" if rejected else "accepting") +
                  (":confirm" if k["confirm"] else ""))
        case = {k2: (v if k2 != "chunks" else [bytes(c) for c in v]) for k2, v in k.items()}
        honest = k["stat"] is None
        if out == 98:
            ctx.fail("putfo-blocks", "putfo waits for a packet although the server has answered every request",
                     case=case)
        nwrites = sum((len(c) + k["mrs"] - 1) // k["mrs"] for c in k["chunks"])
        drained = k["open_rp"][0] == 102 and drain_sees_rejection(k["env"], nwrites)
        if honest or drained:
            judge_put(ctx, "putfo", case, out == 0, src, dst, rejected, k["confirm"], drained)
        if out == 0 and k["callback"] and calls and calls[-1] != len(src):
            ctx.fail("putfo-callback-total", "the last callback does not report the total bytes sent", case=case,
                     expected=len(src), observed=calls[-1])
        cases.append((coq_putfo_case(k), [out, len(dst)] + list(dst)))
        if j == 2:
            ctx.sample({"putfo_case": case, "outcome": out, "dest": dst})
    try:
        bad = ctx.model_mismatches("run_putfo",
                                   "((Z * bool) * list (list Z) * list (bool * Z) * (Z * Z * Z * Z) * list Z)",
                                   cases, imports="From PV Require Import C30 C29.", shard=60)
    except Exception as e:  # noqa - the oracle above does not depend on the model
        ctx.disagree("model evaluation failed: %r" % (e,))
        bad = []
    for i in bad[:3]:
        ctx.disagree("putfo outcome / destination differ from the model", case=ks[i], impl=cases[i][1][:40])


# --------------------------------------------------------------------------------------------
# 2. real client, real server, faults at every chunk position


class Faults:
    """Installed over SFTPHandle.read / write of the in-process server."""

    def __init__(self):
        self.reset()

    def reset(self):
        self.wn = self.rn = 0
        self.fail_write = None      # (index, code)
        self.fail_read = None       # (index, code | ("short", n))
        self.hit = None


def install(faults):
    from paramiko import SFTPHandle
    ow, orr = SFTPHandle.write, SFTPHandle.read

    def write(self, offset, data):
        i = faults.wn
        faults.wn += 1
        if faults.fail_write and faults.fail_write[0] == i:
            faults.hit = ("write", i, offset)
            return faults.fail_write[1]
        return ow(self, offset, data)

    def read(self, offset, length):
        i = faults.rn
        faults.rn += 1
        if faults.fail_read and faults.fail_read[0] == i:
            what = faults.fail_read[1]
            if isinstance(what, tuple):
                data = orr(self, offset, length)
                if isinstance(data, bytes) and len(data) > what[1]:
                    faults.hit = ("short", i, offset)
                    return data[:what[1]]
                return data
            faults.hit = ("read", i, offset)
            return what
        return orr(self, offset, length)

    SFTPHandle.write, SFTPHandle.read = write, read
    return ow, orr


def alive_session(ctx, old=None):
    """A fresh session that has been seen to answer (never one that served an earlier case: a prefetch
    thread left behind by a download that raised keeps sending on its session, see LEVEL_NOTE)."""
    if old is not None:
        old.close()
    last = None
    for _ in range(3):
        sess = c30.Session(ctx.repo)
        st, v = with_watchdog(lambda: sess.sftp.listdir("/"), 10.0)
        if st == "ok" and sess.tc.is_active() and sess.ts.is_active():
            return sess
        last = (st, v)
        sess.close()
    raise RuntimeError("cannot establish a working in-process sftp session: %r" % (last,))


def live_part(ctx, sizes, codes, wd):
    import shutil
    import tempfile
    from paramiko import SFTPHandle
    rng = ctx.rng
    faults = Faults()
    ow, orr = install(faults)
    box = {"sess": None}
    local = tempfile.mkdtemp(prefix="verif-sftp-local-")
    import threading
    old_hook = threading.excepthook
    threading.excepthook = lambda args: None      # prefetch threads of closed sessions die noisily

    def upload(src, pos, code, confirm, use_put, cb, declared=None, prior=None):
        """One upload on a fresh session.  Returns (status, value, destination bytes, rejected?).
        prior: bytes the remote file holds before the upload (None: it does not exist)."""
        sess = box["sess"] = alive_session(ctx, box["sess"])
        if prior is not None:
            with open(os.path.join(sess.root, "up.bin"), "wb") as fh:
                fh.write(prior)
        faults.reset()
        faults.fail_write = None if pos is None else (pos, code)
        lsrc = os.path.join(local, "src.bin")
        calls = []
        cbf = (lambda a, b: calls.append(a)) if cb else None

        def go():
            if use_put:
                with open(lsrc, "wb") as fh:
                    fh.write(src)
                return sess.sftp.put(lsrc, "/up.bin", cbf, confirm)
            return sess.sftp.putfo(io.BytesIO(src), "/up.bin", len(src) if declared is None else declared, cbf,
                                   confirm)

        st, v = with_watchdog(go, wd)
        try:
            with open(os.path.join(sess.root, "up.bin"), "rb") as fh:
                dst = fh.read()
        except OSError:
            dst = b""
        return st, v, dst, faults.hit is not None

    def download(src, pos, what, prefetch, use_get, cb, mc, resize=None, prior_local=None):
        """One download on a fresh session.  Returns (status, value, bytes received, fault hit).
        prior_local: bytes the local destination of get() holds beforehand."""
        sess = box["sess"] = alive_session(ctx, box["sess"])
        with open(os.path.join(sess.root, "down.bin"), "wb") as fh:
            fh.write(src)
        if prior_local is not None:
            with open(os.path.join(local, "dst.bin"), "wb") as fh:
                fh.write(prior_local)
        faults.reset()
        faults.fail_read = None if pos is None else (pos, what)
        ldst = os.path.join(local, "dst.bin")
        buf = io.BytesIO()
        calls = []
        cbf = (lambda a, b: calls.append(a)) if cb else None

        def go():
            if use_get:
                return sess.sftp.get("/down.bin", ldst, cbf, prefetch, mc)
            return sess.sftp.getfo("/down.bin", buf, cbf, prefetch, mc)

        if resize is not None:
            # the server resizes the file when it is opened, i.e. after get/getfo took its size
            c30.SHRINK["path"], c30.SHRINK["size"] = os.path.join(sess.root, "down.bin"), resize
        try:
            st, v = with_watchdog(go, wd)
        finally:
            c30.SHRINK.clear()
        got = None
        if st == "ok":
            if use_get:
                with open(ldst, "rb") as fh:
                    got = fh.read()
            else:
                got = buf.getvalue()
        return st, v, got, faults.hit

    stub_cls, stub_open = c30.install_shrink()
    try:
        for size in sizes:
            src = bytes(rng.getrandbits(8) for _ in range(min(size, 4096))) * (size // 4096 + 1)
            src = src[:size]
            nchunks = max(1, (size + 32767) // 32768)
            # ---- the destination's prior state: missing / longer / shorter / same length with other bytes
            other = bytes((b + 1) % 256 for b in src)
            priors = [("missing", None), ("longer", other + b"old tail " * 600), ("shorter", other[:size // 2]),
                      ("same-length", other)]
            for pname, prior in priors:
                for confirm in (False, True):
                    use_put = rng.random() < 0.5
                    case = {"op": "put" if use_put else "putfo", "size": size, "confirm": confirm,
                            "remote_file_before": pname, "remote_len_before": None if prior is None else len(prior)}
                    ctx.count(("prior", repr(case)), nontrivial=True, kind="live-upload:over-existing-" + pname)
                    st, v, dst, _ = upload(src, None, 0, confirm, use_put, False, None, prior)
                    if st != "ok":
                        st, v, dst, _ = upload(src, None, 0, confirm, use_put, False, None, prior)
                    if st == "hang":
                        ctx.fail("upload-hangs", "an upload did not complete under the watchdog", case=case)
                    elif st == "exc":
                        ctx.fail("upload-raises-without-fault", "a fault-free upload on a fresh session raised %r "
                                 "(twice)" % (v,), case=case)
                    elif dst != src:
                        ctx.fail("upload-inexact-over-existing-file:" + pname,
                                 "%s over an existing remote file (%s: %s bytes) returned normally but the remote file "
                                 "has %d bytes and is not the %d-byte source" % (case["op"], pname,
                                                                                 case["remote_len_before"], len(dst), len(src)),
                                 case=case, expected={"len": len(src)},
                                 observed={"len": len(dst), "first_diff": first_diff(src, dst)})
            for pname, prior in priors[1:]:
                prefetch = rng.random() < 0.5
                case = {"op": "get", "size": size, "prefetch": prefetch, "local_file_before": pname,
                        "local_len_before": len(prior)}
                ctx.count(("prior-local", repr(case)), nontrivial=True, kind="live-download:into-existing-" + pname)
                st, v, got, _ = download(src, None, None, prefetch, True, False, None, prior_local=prior)
                if st == "ok" and got != src:
                    ctx.fail("download-inexact-into-existing-file:" + pname,
                             "get into an existing local file (%s: %d bytes) returned normally but the local file has %d "
                             "bytes and is not the %d-byte remote file" % (pname, len(prior), len(got), len(src)),
                             case=case, expected={"len": len(src)},
                             observed={"len": len(got), "first_diff": first_diff(src, got)})
                elif st != "ok":
                    ctx.fail("download-raises-without-fault" if st == "exc" else "download-hangs",
                             "a fault-free get into an existing local file did not return normally: %r" % (v,), case=case)
            # ---- the declared size is only a progress hint: under- and over-estimates, and the default 0
            for declared in sorted({0, 1, size // 2, max(0, size - 1), 32768, size + 1000}):
                confirm = rng.random() < 0.5
                cb = rng.random() < 0.5
                case = {"op": "putfo", "size": size, "declared_file_size": declared, "confirm": confirm, "callback": cb}
                ctx.count(("declared", repr(case)), nontrivial=size > 0, kind="live-upload:declared-size")
                st, v, dst, _ = upload(src, None, 0, confirm, False, cb, declared)
                if st != "ok":
                    st, v, dst, _ = upload(src, None, 0, confirm, False, cb, declared)
                if st == "hang":
                    ctx.fail("upload-hangs", "an upload did not complete under the watchdog", case=case)
                elif st == "exc":
                    ctx.fail("upload-raises-without-fault", "a fault-free upload on a fresh session raised %r "
                             "(twice)" % (v,), case=case)
                elif dst != src:
                    ctx.fail("upload-truncated-by-declared-size" if len(dst) < len(src) else "upload-inexact-without-fault",
                             "putfo(file_size=%d) of a %d-byte source returned normally with a remote file of %d bytes"
                             % (declared, len(src), len(dst)), case=case, expected={"len": len(src)},
                             observed={"len": len(dst), "first_diff": first_diff(src, dst)})
            # ---- the remote file changes size between get/getfo's stat and its reads
            for newsize in sorted({size + 1, size + 40000, size // 2} - {size}):
                for prefetch, mc in ((True, None), (True, 2), (False, None)):
                    use_get = rng.random() < 0.5
                    case = {"op": "get" if use_get else "getfo", "size_at_stat": size, "size_when_read": newsize,
                            "prefetch": prefetch, "max_concurrent": mc}
                    ctx.count(("resize", repr(case)), nontrivial=True, kind="live-download:resized-after-stat")
                    now = (src + b"\0" * max(0, newsize - size))[:newsize]
                    st, v, got, _ = download(src, None, None, prefetch, use_get, False, mc, resize=newsize)
                    if st == "hang":
                        ctx.fail("download-hangs", "a download did not complete under the watchdog", case=case)
                    elif st == "ok" and got != now:
                        ctx.fail("download-inexact:resized-after-stat:" + ("prefetch" if prefetch else "plain"),
                                 "%s returned normally with %d bytes of a remote file that has %d (it had %d when its "
                                 "size was taken)" % (case["op"], len(got), len(now), size), case=case,
                                 expected={"len": len(now)}, observed={"len": len(got), "first_diff": first_diff(now, got)})
            # ---- uploads: every write position (incl. none), codes round-robin
            positions = [None] + list(range(nchunks)) if size else [None]
            for pi, pos in enumerate(positions):
                code = codes[(pi + size) % len(codes)]
                for confirm in (True, False):
                    use_put = rng.random() < 0.5
                    cb = rng.random() < 0.5
                    case = {"op": "put" if use_put else "putfo", "size": size, "fail_write_index": pos,
                            "code": code if pos is not None else None, "confirm": confirm, "callback": cb}
                    ctx.count(("up", repr(case)), nontrivial=True,
                              kind="live-upload:" + ("fault" if pos is not None else "clean"))
                    st, v, dst, rejected = upload(src, pos, code, confirm, use_put, cb)
                    if st != "ok" and pos is None:
                        # a timing-dependent failure is retried once before it is believed
                        st, v, dst, rejected = upload(src, pos, code, confirm, use_put, cb)
                    if st == "hang":
                        ctx.fail("upload-hangs", "an upload did not complete under the watchdog", case=case)
                        continue
                    if pos is None and st == "exc":
                        ctx.fail("upload-raises-without-fault", "a fault-free upload on a fresh session raised %r "
                                 "(twice)" % (v,), case=case)
                    judge_put(ctx, case["op"], case, st == "ok", src, dst, rejected, confirm)
            # ---- downloads: every read position, error codes and short reads, prefetch on/off
            rpos = [None] + list(range(nchunks + 1))
            for pi, pos in enumerate(rpos):
                for prefetch in (True, False):
                    what = codes[(pi + size + 1) % len(codes)] if rng.random() < 0.7 else ("short", rng.choice([1, 100, 5000]))
                    use_get = rng.random() < 0.5
                    cb = rng.random() < 0.5
                    mc = rng.choice([None, None, 1, 3])
                    case = {"op": "get" if use_get else "getfo", "size": size, "fail_read_index": pos,
                            "fault": what if pos is not None else None, "prefetch": prefetch, "callback": cb,
                            "max_concurrent": mc}
                    ctx.count(("down", repr(case)), nontrivial=True,
                              kind="live-download:" + ("fault" if pos is not None else "clean"))
                    st, v, got, hit = download(src, pos, what, prefetch, use_get, cb, mc)
                    if st != "ok" and pos is None:
                        st, v, got, hit = download(src, pos, what, prefetch, use_get, cb, mc)
                    if st == "hang":
                        ctx.fail("download-hangs", "a download did not complete under the watchdog", case=case)
                        continue
                    if pos is None and st == "exc":
                        ctx.fail("download-raises-without-fault", "a fault-free download on a fresh session raised %r "
                                 "(twice)" % (v,), case=case)
                    if st == "ok":
                        expected = src
                        if hit and hit[0] == "read" and what == 1 and got != src:
                            # the server said "end of file" there once: either the transfer ends there, or the
                            # client asks again (a prefetch EOF is re-checked by a plain read) and gets it all
                            expected = src[:hit[2]]
                        if got != expected:
                            ctx.fail("download-inexact:" + ("prefetch" if prefetch else "plain") +
                                     (":" + hit[0] if hit else ":clean"),
                                     "%s returned normally but the local bytes differ from the remote file" % case["op"],
                                     case=case, expected={"len": len(expected)},
                                     observed={"len": len(got), "first_diff": first_diff(expected, got)})
    finally:
        stub_cls.open = stub_open
        c30.SHRINK.clear()
        threading.excepthook = old_hook
        SFTPHandle.write, SFTPHandle.read = ow, orr
        if box["sess"] is not None:
            box["sess"].close()
        shutil.rmtree(local, ignore_errors=True)


class RendezvousLock:
    """Stands in for SFTPClient._lock (mutual exclusion unchanged): a thread that is about to take the lock
    inside _async_request first waits up to `wait` seconds for a second thread to arrive at the same point, so
    that the prefetch thread and the reader enter _async_request together.  Harmless when everything that
    reads or writes request_number happens under the lock."""

    def __init__(self, wait=0.03):
        import threading
        self.real = threading.Lock()
        self.cv = threading.Condition()
        self.waiting = 0
        self.pairs = 0
        self.wait = wait

    def acquire(self, *a, **k):
        import sys
        if sys._getframe(1).f_code.co_name == "_async_request":
            with self.cv:
                self.waiting += 1
                if self.waiting >= 2:
                    self.pairs += 1
                    self.cv.notify_all()
                else:
                    self.cv.wait(self.wait)
                self.waiting -= 1
        return self.real.acquire(*a, **k)

    def release(self):
        self.real.release()

    def __enter__(self):
        self.real.acquire()
        return self

    def __exit__(self, *a):
        self.real.release()


def concurrent_requests_part(ctx, wd, sizes):
    """get / getfo with a prefetch cap: the reader falls back to its own READs while the prefetch thread is
    still queueing; both threads are made to enter _async_request together (RendezvousLock).  The bytes must
    be exact or the call must raise - and it must end."""
    import threading
    rng = ctx.rng
    old_hook = threading.excepthook
    threading.excepthook = lambda args: None
    sess = None
    try:
        for size in sizes:
            src = bytes(rng.getrandbits(8) for _ in range(size))
            for mc in (1, 2, 3):
                use_get = rng.random() < 0.5
                case = {"op": "get" if use_get else "getfo", "size": size, "prefetch": True, "max_concurrent": mc,
                        "threads_enter__async_request_together": True}
                ctx.count(("concurrent", repr(case)), kind="live-download:concurrent-requests")
                res = None
                for attempt in range(2):
                    sess = alive_session(ctx, sess)
                    with open(os.path.join(sess.root, "down.bin"), "wb") as fh:
                        fh.write(src)
                    lock = RendezvousLock()
                    sess.sftp._lock = lock
                    buf = io.BytesIO()
                    ldst = os.path.join(sess.root, "local-copy.bin")

                    def go():
                        if use_get:
                            sess.sftp.get("/down.bin", ldst, None, True, mc)
                            with open(ldst, "rb") as fh:
                                return fh.read()
                        sess.sftp.getfo("/down.bin", buf, None, True, mc)
                        return buf.getvalue()

                    res = with_watchdog(go, wd)
                    case["rendezvous_pairs"] = lock.pairs
                    if res[0] != "hang":
                        break
                st, v = res
                if st == "hang":
                    ctx.fail("download-hangs:concurrent-requests", "%s neither returned nor raised (watchdog, twice) "
                             "when the prefetch thread and the reader issued requests at the same moment" % case["op"],
                             case=case, expected="exact bytes or an exception")
                elif st == "ok" and v != src:
                    ctx.fail("download-inexact:concurrent-requests", "%s returned normally with bytes that are not the "
                             "remote file's when the prefetch thread and the reader issued requests at the same moment"
                             % case["op"], case=case, expected={"len": len(src)},
                             observed={"len": len(v), "first_diff": first_diff(src, v)})
    finally:
        threading.excepthook = old_hook
        if sess is not None:
            sess.close()


class SlowReader:
    """A source that hands out small pieces and pauses now and then, so that write replies arrive while
    the upload is still going on (recv_ready() becomes true)."""

    def __init__(self, data, piece):
        self.data, self.piece, self.pos, self.n = data, piece, 0, 0

    def read(self, n):
        import time
        self.n += 1
        if self.n % 4 == 0:
            time.sleep(0.003)
        x = self.data[self.pos:self.pos + min(n, self.piece)]
        self.pos += len(x)
        return x


def many_writes_part(ctx, wd, rounds):
    """Uploads made of > 100 pipelined write requests (SFTPFile.MAX_REQUEST_SIZE patched to 1000 in the
    harness process) with one early write rejected by the real server: once _write has collected replies
    (recv_ready() true with more than 100 outstanding) the rejection must have been raised."""
    from paramiko import SFTPHandle
    from paramiko.sftp_file import SFTPFile
    rng = ctx.rng
    faults = Faults()
    ow, orr = install(faults)
    old = SFTPFile.MAX_REQUEST_SIZE
    SFTPFile.MAX_REQUEST_SIZE = 1000
    sess = None
    try:
        for rnd in range(rounds):
            sess = alive_session(ctx, sess)
            size = rng.choice([260000, 180000, 400000])
            src = bytes(rng.getrandbits(8) for _ in range(4096)) * (size // 4096 + 1)
            src = src[:size]
            pos = rng.choice([0, 7, 42, 60, 99]) if rnd else 7
            code = rng.choice([2, 3, 4, 5, 8])
            confirm = bool(rnd % 2)
            faults.reset()
            faults.fail_write = (pos, code)
            readies = []
            sock = sess.sftp.sock
            orig_ready = sock.recv_ready

            late = [0, 40, 90][rnd % 3]      # a server that answers late: nothing readable for the first calls

            def recv_ready():
                r = orig_ready() and len(readies) >= late
                readies.append(r)
                return r

            sock.recv_ready = recv_ready
            try:
                st, v = with_watchdog(
                    lambda: sess.sftp.putfo(SlowReader(src, 5000), "/many.bin", len(src), None, confirm), wd)
            finally:
                del sock.recv_ready
            case = {"op": "putfo", "size": size, "max_request_size": 1000, "writes": (size + 999) // 1000,
                    "fail_write_index": pos, "code": code, "confirm": confirm,
                    "drain_taken": any(readies), "recv_ready_false_for_first_calls": late}
            ctx.count(("many", repr(case)), kind="live-upload:many-small-writes")
            if st == "hang":
                ctx.fail("upload-hangs", "an upload did not complete under the watchdog", case=case)
                continue
            try:
                with open(os.path.join(sess.root, "many.bin"), "rb") as fh:
                    dst = fh.read()
            except OSError:
                dst = b""
            # recv_ready() is only asked with more than 100 requests outstanding; the first time it says
            # yes, writes 0..100 (the rejected one among them) are all still outstanding
            judge_put(ctx, "putfo", case, st == "ok", src, dst, faults.hit is not None, confirm, drained=any(readies))
            try:
                os.unlink(os.path.join(sess.root, "many.bin"))
            except OSError:
                pass
    finally:
        SFTPFile.MAX_REQUEST_SIZE = old
        SFTPHandle.write, SFTPHandle.read = ow, orr
        if sess is not None:
            sess.close()


def drop_part(ctx, sizes, wd):
    """The server side of the sftp session goes away (channel closed) while it serves the k-th read of a
    download: get / getfo must raise or deliver the exact file - prefetch on/off, capped/uncapped."""
    import threading
    from paramiko import SFTPHandle, SFTP_FAILURE
    rng = ctx.rng
    orr = SFTPHandle.read
    state = {}

    def read(self, offset, length):
        i = state["n"]
        state["n"] += 1
        if i == state["drop_at"]:
            state["hit"] = offset
            for chan in list(state["sess"].ts._channels.values()):
                chan.close()
            return SFTP_FAILURE          # (this reply can no longer be delivered)
        return orr(self, offset, length)

    SFTPHandle.read = read
    old_hook = threading.excepthook
    threading.excepthook = lambda args: None      # the client's prefetch thread dies noisily
    try:
        for size in sizes:
            src = bytes(rng.getrandbits(8) for _ in range(4096)) * (size // 4096 + 1)
            src = src[:size]
            nchunks = (size + 32767) // 32768
            for pos in sorted({0, 1, nchunks // 2, nchunks - 1}):
                for prefetch, cap in ((True, None), (True, 2), (False, None)):
                    use_get = rng.random() < 0.5
                    state["drop_at"] = None
                    sess = alive_session(ctx)
                    try:
                        with open(os.path.join(sess.root, "down.bin"), "wb") as fh:
                            fh.write(src)
                        state.update(n=0, drop_at=pos, hit=None, sess=sess)
                        ldst = os.path.join(sess.root, "local-copy.bin")
                        buf = io.BytesIO()

                        def go():
                            if use_get:
                                return sess.sftp.get("/down.bin", ldst, None, prefetch, cap)
                            return sess.sftp.getfo("/down.bin", buf, None, prefetch, cap)

                        st, v = with_watchdog(go, wd)
                        case = {"op": "get" if use_get else "getfo", "size": size, "connection_dropped_at_read": pos,
                                "prefetch": prefetch, "max_concurrent": cap}
                        ctx.count(("drop", repr(case)), kind="live-download:connection-loss")
                        if st == "hang":
                            ctx.fail("download-hangs-after-connection-loss",
                                     "a download neither returned nor raised after the server side went away", case=case)
                        elif st == "ok":
                            if use_get:
                                with open(ldst, "rb") as fh:
                                    got = fh.read()
                            else:
                                got = buf.getvalue()
                            if got != src:
                                ctx.fail("download-inexact:connection-loss:" +
                                         ("prefetch" + ("-capped" if cap else "") if prefetch else "plain"),
                                         "%s returned normally with %d of %d bytes after the server side of the "
                                         "session went away" % (case["op"], len(got), len(src)),
                                         case=case, expected="raise, or the exact file",
                                         observed={"len": len(got), "first_diff": first_diff(src, got)})
                    finally:
                        state["drop_at"] = None
                        sess.close()
    finally:
        threading.excepthook = old_hook
        SFTPHandle.read = orr


def run(ctx):
    ctx.rule = ("seeded generator (random.Random('C29-<seed>')): scripted putfo cases = source chunkings (0..5 reads "
                "of 1..12 bytes, or 60..130 reads to cross the 100-request drain threshold), MAX_REQUEST_SIZE 1..8, "
                "per-write status codes 0..9 and recv_ready() answers, open / close / stat replies incl. errors and "
                "wrong sizes, confirm and callback on/off; live cases = file sizes 0..1 MiB (thorough) / 0..100 KiB "
                "(quick) with one failing write or read at EVERY chunk position, each SFTP error code in turn, short "
                "reads, put/putfo/get/getfo, confirm/callback/prefetch on/off; uploads of 180..400 KB as > 100 pipelined "
                "1000-byte writes with one early write rejected; downloads of 100 KB..1 MiB during which the server "
                "side of the session goes away at the first / second / middle / last read, prefetch uncapped, capped "
                "and off; putfo with a declared file_size of 0 / under / exact / over (scripted and live); downloads of "
                "files that grow or shrink between get/getfo's stat and its reads; putfo to a scripted server that dies "
                "at every request of the transfer (each write, close, stat), sends failing or reads hitting EOF, "
                "confirm on/off; capped-prefetch downloads with the prefetch thread and the reader made to enter "
                "_async_request together; uploads over a remote file that is missing / longer / shorter / same length "
                "with other bytes, and get() into an existing local file, confirm on/off.  Non-trivial = distinct "
                "and non-empty.")
    ctx.trusted += ["models coq/Model/C29.v and C30.v are hand-written; tied to sftp_client.py / sftp_file.py / file.py "
                    "by this differential run (vm_compute of the model's own definitions)",
                    "download path covered by the implementation-level oracle only"]
    ctx.assumptions += ["the remote file stores exactly the writes the server answers with SFTP_OK",
                        "an SFTP_EOF status on a read means end of file (the transfer then ends normally)"]
    try:
        ctx.prove(GENS)
    except Exception as e:  # noqa - the oracles below do not depend on the proofs / translator
        ctx.disagree("proof build failed: %r" % (e,))
    # the drain threshold the oracle uses must be the one of the working tree (regenerated by gen/c30.py)
    import re
    import common
    try:
        gen = open(os.path.join(common.COQ, "Gen", "C30_gen.v")).read()
        thr = int(re.search(r"g_DRAIN_THRESHOLD : Z := (\d+)", gen).group(1))
        if thr != 100:
            ctx.disagree("drain threshold of SFTPFile._write differs from the oracle's", model=100, impl=thr)
    except Exception as e:  # noqa
        ctx.disagree("cannot read the generated drain threshold: %r" % (e,))
    codes = [2, 3, 4, 5, 6, 7, 8, 1]
    if ctx.thorough:
        sizes = [0, 1, 32767, 32768, 32769, 65536, 100000, 300000, 1048576, 1048577 - 2,
                 ctx.rng.randrange(1, 1048576), ctx.rng.randrange(1, 200000)]
        drops = [100000, 300000, 1048576]
    else:
        sizes = [0, 1, 32768, 32769, 70000, ctx.rng.randrange(1, 100000)]
        drops = [100000, 300000]
    import time
    import traceback
    for name, fn in (("scripted", lambda: scripted_part(ctx, 900 if ctx.thorough else 150)),
                     ("server-dies", lambda: death_part(ctx, 12 if ctx.thorough else 3)),
                     ("live", lambda: live_part(ctx, sizes, codes, 30.0)),
                     ("many-writes", lambda: many_writes_part(ctx, 30.0, 6 if ctx.thorough else 3)),
                     ("connection-loss", lambda: drop_part(ctx, drops, 20.0)),
                     ("concurrent-requests", lambda: concurrent_requests_part(
                         ctx, 15.0, [200000, 400000] if ctx.thorough else [200000]))):
        t0 = time.time()
        try:
            fn()
        except Exception:  # noqa
            ctx.disagree("the %s part of the check raised" % name, impl=traceback.format_exc()[-1500:])
        ctx.log("timing: %s %.1fs" % (name, time.time() - t0))


def replay(ctx, rep):
    run(ctx)
